#!/venv/bin/python
"""Regenerate MANIFEST.json from the property modules present in mc/props (and NOT_APPLICABLE below)."""
import importlib, json, os, sys
sys.path.insert(0, os.path.dirname(os.path.dirname(os.path.abspath(__file__))))
V = os.path.dirname(os.path.dirname(os.path.abspath(__file__)))
NOT_APPLICABLE = {}
READY = open(os.path.join(V, 'tools', 'ready.txt')).read().split()
props = [json.loads(l) for l in open(os.path.join(V, 'properties.jsonl'))]
checks, na = [], []
for p in props:
    pid = p['id']
    path = os.path.join(V, 'mc', 'props', pid.lower() + '.py')
    if not os.path.exists(path) or pid not in READY:
        na.append({'property_id': pid, 'reason': NOT_APPLICABLE.get(pid, 'check not built yet (planned in DESIGN.md section 3); not claimed until it exists')})
        continue
    src = open(path).read()
    ns = {}
    meta = {}
    for key in ('LEVEL', 'ENGINE', 'TECHNIQUE', 'LEVEL_TEXT', 'LEVEL_NOTE'):
        import re
        m = re.search(r'^%s\s*=\s*(\(.*?\)|\'[^\n]*\'|"[^\n]*")\s*$' % key, src, re.S | re.M)
        if m:
            meta[key] = eval(m.group(1))
    checks.append({
        'property_id': pid,
        'quick_cmd': './check %s --tier quick' % pid,
        'thorough_cmd': './check %s --tier thorough' % pid,
        'evidence_file': '/verif/evidence/%s.json' % pid,
        'replay_cmd_template': './check %s --replay {path}' % pid,
        'engine': meta.get('ENGINE', 'E1'),
        'level_claimed': {'category': meta.get('LEVEL', 'exploration'),
                          'text': meta.get('LEVEL_TEXT', 'bounded-exhaustive enumeration of the input/operation space described in DESIGN.md, every case executed on the real code and compared with an independent reference model'),
                          'design_ref': 'DESIGN.md section 3, ' + pid},
        'level_note': meta.get('LEVEL_NOTE', 'holds for every case inside the stated alphabet and bound; nothing is claimed outside it. Trusted: the reference oracle in mc/props/%s.py, numpy, the Python interpreter.' % pid.lower()),
        'technique': meta.get('TECHNIQUE', 'model checking: bounded-exhaustive small-scope enumeration of inputs on the real code against a reference model'),
    })
man = {
    'version': 1,
    'setup_cmd': 'cd /verif && bash tools/setup.sh',
    'hooks': {'guard': 'PYDL_VERIF', 'enable': 'no source hooks: pydl is pure Python, imported from /repo working tree (editable install); seams are module-attribute patches made by the harness',
              'baseline_off_cmd': 'cd /repo && /venv/bin/python -m pytest -ra -q -p no:cacheprovider --timeout=900 --continue-on-collection-errors',
              'source_commits': [], 'add_only': True},
    'engines': [
        {'name': 'E1', 'path': 'mc/core.py', 'serves_properties': [c['property_id'] for c in checks if c['engine'] == 'E1'], 'kind_free_text': 'sharded exhaustive product enumeration over finite menus, reference-model oracle on every case'},
        {'name': 'E2', 'path': 'mc/core.py', 'serves_properties': [c['property_id'] for c in checks if c['engine'] == 'E2'], 'kind_free_text': 'explicit-state BFS over operation histories, fresh real objects replayed per history, canonical state hashing'},
        {'name': 'E3', 'path': 'mc/core.py', 'serves_properties': [c['property_id'] for c in checks if c['engine'] == 'E3'], 'kind_free_text': 'deviation-bounded fault enumeration: exception injected at every line event of the target frames'},
    ],
    'checks': checks,
    'not_applicable': na,
    'notes': 'All checks: ./check <id> --tier quick|thorough ; ./check <id> --replay <file>. Known findings: /verif/known_findings.json.',
}
json.dump(man, open(os.path.join(V, 'MANIFEST.json'), 'w'), indent=1)
print('checks:', [c['property_id'] for c in checks], 'not_applicable:', len(na))
