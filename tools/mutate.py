#!/venv/bin/python
"""Apply a textual mutation (or a patch file) to a scratch copy of /repo, optionally run the baseline suite there,
run the given checks against it (PYDL_TREE), report, and remove the copy.  Never touches /repo.

  tools/mutate.py --file pydl/smooth.py --old 'A' --new 'B' [--tests] C14 [C17 ...]
  tools/mutate.py --patch seeded/x/patch.diff [--tests] C14
"""
import argparse, os, shutil, subprocess, sys, tempfile
ap = argparse.ArgumentParser()
ap.add_argument('--file'); ap.add_argument('--old'); ap.add_argument('--new'); ap.add_argument('--patch')
ap.add_argument('--count', type=int, default=1)
ap.add_argument('--tests', action='store_true'); ap.add_argument('--tier', default='quick')
ap.add_argument('--demo', help='demo program: run in the scratch copy (as seeded/1/demo.py) before and after the change')
ap.add_argument('props', nargs='*')
a = ap.parse_args()
V = os.path.dirname(os.path.dirname(os.path.abspath(__file__)))
d = tempfile.mkdtemp(prefix='pydl_mut_')
try:
    subprocess.run(['rsync', '-a', '--exclude', '.git', '--exclude', '__pycache__', '/repo/', d + '/'], check=True)
    def run_demo(tag):
        if a.demo:
            os.makedirs(os.path.join(d, 'seeded', '1'), exist_ok=True)
            shutil.copy(a.demo, os.path.join(d, 'seeded', '1', 'demo.py'))
            r = subprocess.run(['/venv/bin/python', 'seeded/1/demo.py'], cwd=d, capture_output=True, text=True, timeout=900)
            out = (r.stdout.strip().splitlines() or ['?'])[-1]
            print('DEMO (%s): exit=%d %s' % (tag, r.returncode, out[:160]))
    run_demo('clean')
    if a.patch:
        r = subprocess.run(['patch', '-p1', '-s', '-i', os.path.abspath(a.patch)], cwd=d)
        if r.returncode:
            sys.exit('patch failed')
    else:
        p = os.path.join(d, a.file)
        s = open(p).read()
        if s.count(a.old) != a.count:
            sys.exit('old text occurs %d times, expected %d' % (s.count(a.old), a.count))
        open(p, 'w').write(s.replace(a.old, a.new))
    run_demo('changed')
    if a.tests:
        r = subprocess.run(['/venv/bin/python', '-m', 'pytest', '-q', '-p', 'no:cacheprovider', '--timeout=900', '--color=no'],
                           cwd=d, capture_output=True, text=True)
        tail = r.stdout.strip().splitlines()[-1:] if r.stdout.strip() else ['?']
        print('SUITE (in scratch copy): exit=%d %s' % (r.returncode, tail[0]))
    env = dict(os.environ, PYDL_TREE=d, VERIF_REPLAY_DIR=os.path.join(d, 'replays'))   # replays of a mutation run die with the scratch copy
    for prop in a.props:
        r = subprocess.run([os.path.join(V, 'check'), prop, '--tier', a.tier, '--no-evidence'], env=env, capture_output=True, text=True)
        lines = [l for l in r.stdout.splitlines() if l.startswith(('VIOLATION', '  sig=', 'HARNESS', prop))]
        print('CHECK %s exit=%d' % (prop, r.returncode))
        for l in lines[:8]:
            print('   ', l[:260])
        if r.returncode not in (0, 1):
            print(r.stdout[-1500:], r.stderr[-1500:])
finally:
    shutil.rmtree(d, ignore_errors=True)
