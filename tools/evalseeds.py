#!/venv/bin/python
"""tools/evalseeds.py <worktree-prefix> <id> [<id>...]   e.g.  tools/evalseeds.py /tmp/w2_ c01 c02
Evaluate the seeded changes an independent agent left in <prefix><id>/seeded/{1,2,3}: scratch copy of /repo, demo before/after,
suite with the change, the property's quick check against the changed copy.  Accepted ones (demo PASS->FAIL, suite green) are
stored as /verif/seeded/<ID>-<n>/ with the measured result in meta.json."""
import json, os, re, shutil, subprocess, sys
V = os.path.dirname(os.path.dirname(os.path.abspath(__file__)))
prefix, ids = sys.argv[1], sys.argv[2:]
for pid in ids:
    P = pid.upper()
    for k in [int(x) for x in os.environ.get('KS', '1,2,3').split(',')]:
        src = '%s%s/seeded/%d' % (prefix, pid, k)
        if not os.path.exists(os.path.join(src, 'patch.diff')):
            print(P, k, 'no patch'); continue
        r = subprocess.run([os.path.join(V, 'tools', 'mutate.py'), '--patch', os.path.join(src, 'patch.diff'), '--demo', os.path.join(src, 'demo.py'), '--tests', P],
                           capture_output=True, text=True)
        out = r.stdout
        g = lambda tag: next((l for l in out.splitlines() if l.startswith(tag)), tag + ' ?')
        clean, changed, suite, chk = g('DEMO (clean)'), g('DEMO (changed)'), g('SUITE'), g('CHECK')
        sig = next((l.strip() for l in out.splitlines() if l.strip().startswith('sig=')), '')
        ok = 'exit=0' in clean and 'exit=1' in changed and '133 passed' in suite
        verdict = 'caught' if 'exit=1' in chk else ('HARNESS-ERROR' if 'exit=2' in chk else 'missed')
        print('%s-%d accepted=%s %s | %s | %s | %s | %s' % (P, k, ok, verdict, clean[13:30], changed[15:32], suite[24:50], sig[:120]), flush=True)
        if not ok:
            continue
        n = 1
        while os.path.exists(os.path.join(V, 'seeded', '%s-%d' % (P, n))):
            n += 1
        dst = os.path.join(V, 'seeded', '%s-%d' % (P, n))
        os.makedirs(dst)
        for f in ('patch.diff', 'demo.py'):
            shutil.copy(os.path.join(src, f), dst)
        try:
            m = json.load(open(os.path.join(src, 'meta.json')))
        except Exception:
            m = {}
        m['property'] = P; m['round'] = int(os.environ.get('ROUND', 0))
        m['origin'] = 'written by an independent sub-agent that saw only the property text and a scratch worktree (round %s)' % os.environ.get('ROUND', '?')
        m['verified_by_me'] = {'how': 'tools/evalseeds.py (tools/mutate.py --patch patch.diff --demo demo.py --tests %s on a scratch copy of /repo HEAD)' % P,
                               'suite_with_change': suite[24:], 'demo_clean': clean, 'demo_changed': changed[:120]}
        m['check_result'] = verdict + ((' [' + sig[:200] + ']') if sig else '')
        json.dump(m, open(os.path.join(dst, 'meta.json'), 'w'), indent=1)
