#!/venv/bin/python
"""Run every stored property-preserving change under /verif/benign against the quick check of its property (3 at a time);
the check must stay silent.  Writes benign/RESULTS.md.   usage: tools/benignsweep.py [prefix ...]"""
import concurrent.futures, json, os, subprocess, sys
V = os.path.dirname(os.path.dirname(os.path.abspath(__file__)))
only = sys.argv[1:]
names = [n for n in sorted(os.listdir(os.path.join(V, 'benign'))) if os.path.isdir(os.path.join(V, 'benign', n))
         and (not only or any(n.startswith(o) for o in only))]


def one(name):
    d = os.path.join(V, 'benign', name)
    meta = json.load(open(os.path.join(d, 'meta.json')))
    prop = meta['property']
    env = dict(os.environ, VERIF_WORKERS='6')
    r = subprocess.run([os.path.join(V, 'tools', 'mutate.py'), '--patch', os.path.join(d, 'patch.diff'), '--demo', os.path.join(d, 'demo.py'), '--tests', prop],
                       capture_output=True, text=True, env=env)
    out = r.stdout
    get = lambda tag: next((l for l in out.splitlines() if l.startswith(tag)), tag + ' ?')
    sig = next((l.strip() for l in out.splitlines() if l.strip().startswith('sig=')), '')
    chk = get('CHECK')
    verdict = 'silent' if 'exit=0' in chk else ('ALARM' if 'exit=1' in chk else 'HARNESS-ERROR' if 'exit=2' in chk else 'not run')
    return (name, ' '.join(str(meta.get('summary', '')).split())[:150], get('DEMO (clean)')[14:21], get('DEMO (changed)')[16:23], get('SUITE')[31:41], verdict,
            sig[:160], str(meta.get('check_result_first', ''))[:60])


with concurrent.futures.ThreadPoolExecutor(int(os.environ.get('SWEEP_PAR', '3'))) as ex:
    rows = list(ex.map(one, names))
# rows of earlier runs are kept in <dir>/sweep_rows.json so that a run restricted to some prefixes refreshes only those rows
_rp = os.path.join(V, 'benign', 'sweep_rows.json')
_all = {}
if only and os.path.exists(_rp):
    _all = {r[0]: tuple(r) for r in json.load(open(_rp))}
for r in rows:
    _all[r[0]] = r
_key = lambda n: (n.split('-')[0], int(n.split('-')[1]))
rows_now, rows = rows, [_all[n] for n in sorted(_all, key=_key)]
json.dump(rows, open(_rp, 'w'), indent=0)
for r in rows_now:
    print(r[0], r[5], r[6][:120], flush=True)
if True:
    with open(os.path.join(V, 'benign', 'RESULTS.md'), 'w') as f:
        f.write('# Property-preserving changes vs. checks\n\nProduced by `tools/benignsweep.py`: every stored change is applied to a scratch copy of /repo HEAD; its demonstration '
                '(which tests the property) before/after, the 133-test suite with the change, and the quick check of its property against the changed copy - which must stay silent.\n\n'
                '| change | what was changed | demo clean | demo changed | suite | check now | signature (if any) | first evaluation |\n|---|---|---|---|---|---|---|---|\n')
        for r in rows:
            f.write('| ' + ' | '.join(x.replace('|', '/') for x in r) + ' |\n')
        f.write('\n%d changes, %d silent.\n' % (len(rows), sum(1 for r in rows if r[5] == 'silent')))
print('silent %d of %d' % (sum(1 for r in rows if r[5] == 'silent'), len(rows)))
