#!/bin/bash
# MANIFEST.setup_cmd: nothing to compile; verify the toolchain and that pydl imports from /repo.
cd "$(dirname "$(readlink -f "$0")")/.." || exit 2
chmod +x check tools/*.py tools/*.sh 2>/dev/null
export PYTHONHASHSEED=0
/venv/bin/python - <<'PY' || exit 2
import sys
sys.path.insert(0, '.')
import mc.core
mc.core.import_pydl()
import pydl, numpy, scipy, astropy
print('setup ok: pydl from', pydl.__file__, 'numpy', numpy.__version__)
PY
