#!/venv/bin/python
"""Run every seeded change under /verif/seeded against the check of its property; write seeded/RESULTS.md."""
import json, os, subprocess, sys
V = os.path.dirname(os.path.dirname(os.path.abspath(__file__)))
only = sys.argv[1:]
rows = []
for name in sorted(os.listdir(os.path.join(V, 'seeded'))):
    d = os.path.join(V, 'seeded', name)
    if not os.path.isdir(d) or (only and not any(name.startswith(o) for o in only)):
        continue
    meta = json.load(open(os.path.join(d, 'meta.json')))
    prop = meta['property']
    r = subprocess.run([os.path.join(V, 'tools', 'mutate.py'), '--patch', os.path.join(d, 'patch.diff'), '--demo', os.path.join(d, 'demo.py'), '--tests', prop],
                       capture_output=True, text=True)
    out = r.stdout
    get = lambda tag: next((l for l in out.splitlines() if l.startswith(tag)), tag + ' ?')
    chk = get('CHECK')
    sig = next((l.strip() for l in out.splitlines() if l.strip().startswith('sig=')), '')
    rows.append((name, get('DEMO (clean)')[14:22], get('DEMO (changed)')[16:24], get('SUITE')[24:60], chk, sig[:110]))
    print(rows[-1], flush=True)
with open(os.path.join(V, 'seeded', 'RESULTS.md'), 'a' if only else 'w') as f:
    if not only:
        f.write('# Seeded changes vs. checks (tools/seedsweep.py)\n\n| change | demo clean | demo changed | suite with change | check | first signature |\n|---|---|---|---|---|---|\n')
    for r in rows:
        f.write('| ' + ' | '.join(r) + ' |\n')
