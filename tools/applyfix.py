#!/venv/bin/python
"""tools/applyfix.py <diff> <prop> <subject> <body/what-failed>
Apply a reviewed fix patch to /repo, run the unedited suite, commit as 'fix: <subject>', record it in known_findings.json."""
import json, subprocess, sys
import os
diff, prop, subject, what = sys.argv[1:5]
diff = os.path.abspath(diff)
r = subprocess.run(['patch', '-p1', '-i', diff], cwd='/repo', capture_output=True, text=True)
print(r.stdout.strip())
if r.returncode:
    sys.exit('patch failed: ' + r.stderr)
subprocess.run('find /repo -name "*.orig" -delete', shell=True)
t = subprocess.run(['/venv/bin/python', '-m', 'pytest', '-q', '-p', 'no:cacheprovider', '--timeout=900', '--color=no'], cwd='/repo', capture_output=True, text=True)
tail = t.stdout.strip().splitlines()[-1]
print('suite:', tail)
if t.returncode or '133 passed' not in tail:
    subprocess.run(['git', 'checkout', '--', '.'], cwd='/repo')
    sys.exit('suite not green; reverted')
subprocess.run(['git', 'commit', '-qam', 'fix: %s\n\n%s' % (subject, what)], cwd='/repo', check=True)
h = subprocess.run(['git', 'log', '--format=%h', '-1'], cwd='/repo', capture_output=True, text=True).stdout.strip()
k = json.load(open('/verif/known_findings.json'))
k['fixed'].append('fixed: property=%s %s %s' % (prop, h, ' '.join(what.split())))
json.dump(k, open('/verif/known_findings.json', 'w'), indent=1)
print('committed', h)
