#!/venv/bin/python
"""tools/evalbenign.py <worktree-prefix> <id> ...  : run the property's quick check against each property-preserving change an
independent agent left in <prefix><id>/benign/{1,2,3}; the check must stay silent (exit 0).  Stores them under /verif/benign/<ID>-<n>/."""
import json, os, shutil, subprocess, sys
V = os.path.dirname(os.path.dirname(os.path.abspath(__file__)))
prefix, ids = sys.argv[1], sys.argv[2:]
for pid in ids:
    P = pid.upper()
    for k in (1, 2, 3):
        src = '%s%s/benign/%d' % (prefix, pid, k)
        if not os.path.exists(os.path.join(src, 'patch.diff')):
            print(P, k, 'no patch'); continue
        r = subprocess.run([os.path.join(V, 'tools', 'mutate.py'), '--patch', os.path.join(src, 'patch.diff'), '--demo', os.path.join(src, 'demo.py'), '--tests', P],
                           capture_output=True, text=True)
        out = r.stdout
        g = lambda tag: next((l for l in out.splitlines() if l.startswith(tag)), tag + ' ?')
        clean, changed, suite, chk = g('DEMO (clean)'), g('DEMO (changed)'), g('SUITE'), g('CHECK')
        sig = next((l.strip() for l in out.splitlines() if l.strip().startswith('sig=')), '')
        ok = 'exit=0' in clean and 'exit=0' in changed and '133 passed' in suite
        verdict = 'silent' if 'exit=0' in chk else ('ALARM' if 'exit=1' in chk else 'HARNESS-ERROR')
        print('%s-%d accepted=%s %s | %s | %s | %s | %s' % (P, k, ok, verdict, clean[13:30], changed[15:32], suite[24:50], sig[:160]), flush=True)
        n = 1
        while os.path.exists(os.path.join(V, 'benign', '%s-%d' % (P, n))):
            n += 1
        dst = os.path.join(V, 'benign', '%s-%d' % (P, n))
        os.makedirs(dst)
        for f in ('patch.diff', 'demo.py'):
            shutil.copy(os.path.join(src, f), dst)
        try:
            m = json.load(open(os.path.join(src, 'meta.json')))
        except Exception:
            m = {}
        m['property'] = P
        m['accepted'] = ok
        m['check_result_first'] = verdict + ((' [' + sig[:300] + ']') if sig else '')
        json.dump(m, open(os.path.join(dst, 'meta.json'), 'w'), indent=1)
