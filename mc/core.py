"""Bounded-exhaustive exploration runner for the pydl properties (see DESIGN.md §2).

A property module ``mc.props.cNN`` provides

    PROP, LEVEL, RULE, ASSUMPTIONS, ENGINE
    tasks(tier)        -> list of JSON-serialisable shard descriptors (canonical order)
    run_task(task)     -> Acc            (enumerates *every* case of the shard)
    replay(case)       -> list of (sig, msg)  re-executes one recorded case
    finish(tier, merged) (optional) -> dict of extra coverage keys

The runner shards the tasks over long-lived worker processes, merges the
accumulators, filters violations through known_findings.json, confirms each
reported violation by replaying it, writes the evidence file and the replay
files, and prints the VIOLATION / KNOWN-FINDING lines.

Exit codes: 0 = property held on everything explored, 1 = violation,
2 = the harness itself is broken (nondeterminism, crash, vacuous run).
"""
import argparse
import atexit
import collections
import hashlib
import importlib
import json
import multiprocessing
import os
import random
import shutil
import subprocess
import sys
import tempfile
import time
import traceback

VERIF = os.path.dirname(os.path.dirname(os.path.abspath(__file__)))
MASK64 = (1 << 64) - 1
MAX_VIOL_PER_SIG_PER_TASK = 3
MAX_REPORTED = 25


# --------------------------------------------------------------------------
# importing pydl from the tree under test
# --------------------------------------------------------------------------
_pydl_ready = False


def import_pydl():
    """Import pydl from $PYDL_TREE (default /repo), with a private byte-code cache."""
    global _pydl_ready
    if _pydl_ready:
        return
    tree = os.path.realpath(os.environ.get('PYDL_TREE', '/repo'))
    import numpy  # noqa: F401  (third-party byte code stays in site-packages)
    import scipy.linalg  # noqa: F401
    import astropy.units  # noqa: F401
    import astropy.io.fits  # noqa: F401
    import astropy.table  # noqa: F401
    if sys.pycache_prefix is None or not os.path.isdir(sys.pycache_prefix):
        d = tempfile.mkdtemp(prefix='verif_pyc_')
        sys.pycache_prefix = d
        pid = os.getpid()
        atexit.register(lambda: os.getpid() == pid and shutil.rmtree(d, ignore_errors=True))
    sys.path.insert(0, tree)
    import warnings
    warnings.simplefilter('ignore')
    import astropy
    astropy.log.setLevel('CRITICAL')
    import pydl
    where = os.path.realpath(os.path.dirname(pydl.__file__))
    if where != os.path.join(tree, 'pydl'):
        print('HARNESS-ERROR: pydl imported from %s, expected %s/pydl' % (where, tree))
        sys.exit(2)
    import warnings
    warnings.simplefilter('ignore')
    import numpy as np
    np.seterr(all='ignore')
    _pydl_ready = True


def tree_commit():
    tree = os.environ.get('PYDL_TREE', '/repo')
    try:
        h = subprocess.run(['git', '-C', tree, 'rev-parse', 'HEAD'], capture_output=True, text=True).stdout.strip()
        d = subprocess.run(['git', '-C', tree, 'status', '--porcelain', '--untracked-files=no'],
                           capture_output=True, text=True).stdout.strip()
        return h + ('+dirty' if d else '')
    except Exception:
        return 'unknown'


# --------------------------------------------------------------------------
# accumulator
# --------------------------------------------------------------------------
def stable_hash(key):
    """64-bit hash of a canonical (repr-able) case key; independent of PYTHONHASHSEED."""
    return int.from_bytes(hashlib.blake2b(repr(key).encode(), digest_size=8).digest(), 'little')


class Acc:
    """Per-shard accumulator; merged in the parent."""

    def __init__(self):
        self.evaluations = 0
        self.nontrivial = set()
        self.hist = collections.Counter()
        self.skipped = collections.Counter()
        self.violations = []          # dicts {sig, case, msg}
        self.viol_count = collections.Counter()
        self.samples = []
        self.extra = collections.Counter()   # free counters (states, transitions, ...)
        self._dig = hashlib.blake2b(digest_size=16)

    # -- one case -----------------------------------------------------------
    def case(self, key, nontrivial, outcome, sample=None):
        self.evaluations += 1
        if nontrivial:
            self.nontrivial.add(stable_hash(key))
        self.hist[outcome] += 1
        self._dig.update(repr((key, outcome)).encode())
        if sample is not None and len(self.samples) < 2:
            self.samples.append(sample)

    # -- many cases at once (vectorised checks) -------------------------------
    def bulk(self, hashes, nontrivial_mask, outcome, n=None):
        import numpy as np
        hashes = np.asarray(hashes, dtype=np.uint64)
        n = len(hashes) if n is None else n
        self.evaluations += int(n)
        nt = hashes[np.asarray(nontrivial_mask, dtype=bool)] if nontrivial_mask is not True else hashes
        self.nontrivial.update(int(v) for v in np.unique(nt))
        self.hist[outcome] += int(n)
        self._dig.update(hashes.tobytes())
        self._dig.update(outcome.encode())

    def skip(self, reason, n=1):
        self.skipped[reason] += n

    def violation(self, sig, case, msg):
        self.viol_count[sig] += 1
        if self.viol_count[sig] <= MAX_VIOL_PER_SIG_PER_TASK:
            self.violations.append({'sig': sig, 'case': case, 'msg': str(msg)[:600]})
        self._dig.update(('V' + sig).encode())

    def sample(self, s):
        if len(self.samples) < 2:
            self.samples.append(s)

    def digest(self):
        return self._dig.hexdigest()

    def pack(self):
        import numpy as np
        return {'evaluations': self.evaluations,
                'nontrivial': np.fromiter(self.nontrivial, dtype=np.uint64, count=len(self.nontrivial)),
                'hist': dict(self.hist), 'skipped': dict(self.skipped),
                'violations': self.violations, 'viol_count': dict(self.viol_count),
                'samples': self.samples, 'extra': dict(self.extra), 'digest': self.digest()}


def jsonable(o):
    import numpy as np
    if isinstance(o, dict):
        return {str(k): jsonable(v) for k, v in o.items()}
    if isinstance(o, (list, tuple, set, frozenset)):
        return [jsonable(v) for v in o]
    if isinstance(o, np.ndarray):
        return jsonable(o.tolist())
    if isinstance(o, (np.integer,)):
        return int(o)
    if isinstance(o, (np.floating,)):
        return jsonable(float(o))
    if isinstance(o, (np.bool_,)):
        return bool(o)
    if isinstance(o, bytes):
        return {'__bytes__': o.decode('latin-1')}
    if isinstance(o, float):
        if o != o:
            return {'__float__': 'nan'}
        if o in (float('inf'), float('-inf')):
            return {'__float__': 'inf' if o > 0 else '-inf'}
        return o
    if isinstance(o, (str, int, bool)) or o is None:
        return o
    return repr(o)


def unjson(o):
    if isinstance(o, dict):
        if set(o) == {'__bytes__'}:
            return o['__bytes__'].encode('latin-1')
        if set(o) == {'__float__'}:
            return float(o['__float__'])
        return {k: unjson(v) for k, v in o.items()}
    if isinstance(o, list):
        return [unjson(v) for v in o]
    return o


# --------------------------------------------------------------------------
# worker side
# --------------------------------------------------------------------------
_mod = None


def _load(prop):
    global _mod
    import_pydl()
    if _mod is None or _mod.PROP != prop:
        _mod = importlib.import_module('mc.props.' + prop.lower())
    return _mod


def _worker(args):
    prop, idx, task = args
    try:
        mod = _load(prop)
        env0 = dict(os.environ)
        cwd0 = os.getcwd()
        acc = mod.run_task(task)
        os.chdir(cwd0)
        if dict(os.environ) != env0:
            os.environ.clear()
            os.environ.update(env0)
        pack = acc.pack()
        for v in pack['violations']:
            v['task'] = idx
        return idx, pack, None
    except BaseException:
        return idx, None, traceback.format_exc()


def load_known():
    p = os.path.join(VERIF, 'known_findings.json')
    if not os.path.exists(p):
        return {'known': [], 'fixed': []}
    with open(p) as f:
        return json.load(f)


# --------------------------------------------------------------------------
# parent side
# --------------------------------------------------------------------------
def main(argv=None):
    ap = argparse.ArgumentParser()
    ap.add_argument('prop')
    ap.add_argument('--tier', default=os.environ.get('VERIF_TIER', 'quick'), choices=['quick', 'thorough'])
    ap.add_argument('--replay')
    ap.add_argument('--one-task', type=int)
    ap.add_argument('--workers', type=int, default=int(os.environ.get('VERIF_WORKERS', min(16, os.cpu_count() or 1))))
    ap.add_argument('--no-evidence', action='store_true')
    a = ap.parse_args(argv)
    prop = a.prop.upper()
    try:
        seed = int(os.environ.get('VERIF_SEED', '0'))
    except ValueError:
        seed = 0
    if os.environ.get('PYTHONHASHSEED') != '0':
        os.environ['PYTHONHASHSEED'] = '0'
        os.execv(sys.executable, [sys.executable, '-m', 'mc.core'] + (argv or sys.argv[1:]))
    t0 = time.time()
    mod = _load(prop)

    if a.replay:
        return do_replay(mod, a.replay)

    tasks = mod.tasks(a.tier)
    if a.one_task is not None:
        acc = mod.run_task(tasks[a.one_task])
        print('DIGEST', acc.digest())
        for s_ in sorted(acc.viol_count):
            print('SIG', s_)
        return 0

    order = list(range(len(tasks)))
    random.Random(seed).shuffle(order)
    jobs = [(prop, i, tasks[i]) for i in order]
    packs = {}
    nw = max(1, min(a.workers, len(jobs)))
    ctx = multiprocessing.get_context('fork')
    with ctx.Pool(nw, maxtasksperchild=1) as pool:   # one fresh fork per shard: a shard's result depends on nothing but the shard
        for idx, pack, err in pool.imap_unordered(_worker, jobs, chunksize=1):
            if err is not None:
                print('HARNESS-ERROR: task %d of %s crashed:\n%s' % (idx, prop, err))
                pool.terminate()
                return 2
            packs[idx] = pack

    # determinism self-test: shard 0 again, in a fresh process
    probe = getattr(mod, 'DETERMINISM_TASK', 0)
    r = subprocess.run([sys.executable, '-m', 'mc.core', prop, '--tier', a.tier, '--one-task', str(probe)],
                       capture_output=True, text=True, cwd=VERIF)
    dig = [ln.split()[1] for ln in r.stdout.splitlines() if ln.startswith('DIGEST ')]
    if r.returncode != 0 or not dig or dig[0] != packs[probe]['digest']:
        print('HARNESS-ERROR: nondeterministic shard %d of %s (pool %s, fresh process %s)\n%s'
              % (probe, prop, packs[probe]['digest'], dig, r.stderr[-2000:]))
        return 2

    import numpy as np
    evaluations = sum(p['evaluations'] for p in packs.values())
    allnt = np.concatenate([p['nontrivial'] for p in packs.values()]) if packs else np.zeros(0, np.uint64)
    distinct = int(len(np.unique(allnt)))
    hist = collections.Counter()
    skipped = collections.Counter()
    extra = collections.Counter()
    viol_count = collections.Counter()
    violations = []
    samples = []
    for i in sorted(packs):
        p = packs[i]
        hist.update(p['hist'])
        skipped.update(p['skipped'])
        extra.update(p['extra'])
        viol_count.update(p['viol_count'])
        violations.extend(p['violations'])
        if len(samples) < 4:
            samples.extend(p['samples'][:1])

    if not samples and tasks:
        samples = [{'shard': tasks[0]}]
    known = load_known()
    known_sigs = {k['sig']: k for k in known.get('known', []) if k['property_id'] == prop}
    new = [v for v in violations if v['sig'] not in known_sigs]
    seen_known = collections.OrderedDict()
    for v in violations:
        if v['sig'] in known_sigs:
            seen_known.setdefault(v['sig'], v)

    status = 0
    lines = []
    for sig, v in seen_known.items():
        lines.append('KNOWN-FINDING: property=%s %s [%s; %d case(s) this run, e.g. %s]'
                     % (prop, known_sigs[sig]['what'], sig, viol_count[sig], json.dumps(jsonable(v['case']))[:300]))
    # confirm + write replays for new violations (one per signature first, then up to the cap)
    new.sort(key=lambda v: (v['sig'], len(json.dumps(jsonable(v['case'])))))
    reported = 0
    shard_sigs = {}
    per_sig = collections.Counter()
    for v in new:
        if reported >= MAX_REPORTED or per_sig[v['sig']] >= 3:
            continue
        per_sig[v['sig']] += 1
        case = unjson(json.loads(json.dumps(jsonable(v['case']))))
        ok = True
        for _ in range(2):
            try:
                res = mod.replay(case)
            except Exception:
                res = [('replay-crash', traceback.format_exc())]
            if not any(s == v['sig'] for s, _m in res):
                ok = False
        history = False
        if not ok:
            # The case does not fail in isolation: the failure may depend on what the shard executed before it
            # (state leaking between calls is itself a history-dependent defect).  Re-run the whole shard in a
            # fresh process; if the same signature appears again the violation is real and its replay is the shard.
            key = ('shard', v.get('task'))
            if key not in shard_sigs:
                rr = subprocess.run([sys.executable, '-m', 'mc.core', prop, '--tier', a.tier, '--one-task', str(v.get('task'))],
                                    capture_output=True, text=True, cwd=VERIF)
                shard_sigs[key] = set(ln[4:] for ln in rr.stdout.splitlines() if ln.startswith('SIG '))
            if v['sig'] in shard_sigs[key]:
                history = True
            else:
                print('HARNESS-ERROR: violation %s of %s did not reproduce on replay: %s'
                      % (v['sig'], prop, json.dumps(jsonable(v['case']))[:500]))
                status = 2
                continue
        rdir = os.path.join(os.environ.get('VERIF_REPLAY_DIR') or os.path.join(VERIF, 'replays'), prop)
        os.makedirs(rdir, exist_ok=True)
        blob = {'property_id': prop, 'sig': v['sig'], 'case': jsonable(v['case']), 'msg': v['msg'],
                'pydl_commit': tree_commit()}
        if history:
            blob['needs_history'] = True
            blob['tier'] = a.tier
            blob['shard'] = jsonable(tasks[v['task']])
            blob['msg'] += ' [fails only after the preceding cases of its shard: replay re-runs the shard]'
        name = hashlib.blake2b(json.dumps(blob['case'], sort_keys=True).encode() + v['sig'].encode(),
                               digest_size=6).hexdigest() + '.json'
        path = os.path.join(rdir, name)
        with open(path, 'w') as f:
            json.dump(blob, f, indent=1)
        lines.append('VIOLATION property=%s replay=%s' % (prop, path))
        lines.append('  sig=%s  %s' % (v['sig'], v['msg'].replace('\n', ' | ')[:300]))
        reported += 1
        if status == 0:
            status = 1
    n_new = sum(c for s, c in viol_count.items() if s not in known_sigs)

    # vacuity self-check
    min_outcomes = getattr(mod, 'MIN_OUTCOMES', 2)
    if len(hist) < min_outcomes and status == 0:
        print('HARNESS-ERROR: vacuous exploration for %s: %d distinct outcome(s) %s' % (prop, len(hist), dict(hist)))
        status = 2

    wall = time.time() - t0
    coverage = {
        'evaluations': int(evaluations), 'distinct_nontrivial': distinct, 'rule': mod.RULE,
        'samples': jsonable(samples), 'exhaustive': True,
        'outcome_histogram': dict(hist.most_common(40)),
        'distinct_outcomes': len(hist),
        'skipped': dict(skipped), 'shards': len(tasks), 'workers': nw,
        'known_finding_cases': {s: viol_count[s] for s in seen_known},
        'pydl_commit': tree_commit(), 'determinism_selftest': 'shard %d digest equal in a fresh process' % probe,
    }
    coverage.update({k: int(v) for k, v in extra.items()})
    if hasattr(mod, 'finish'):
        coverage.update(mod.finish(a.tier, coverage))
    ev = {'property_id': prop, 'tier': a.tier, 'seed': seed, 'level': mod.LEVEL, 'coverage': coverage,
          'assumptions': list(mod.ASSUMPTIONS), 'wall_s': round(wall, 2), 'violations': int(n_new)}
    if not a.no_evidence:
        os.makedirs(os.path.join(VERIF, 'evidence'), exist_ok=True)
        with open(os.path.join(VERIF, 'evidence', prop + '.json'), 'w') as f:
            json.dump(ev, f, indent=1)
    for ln in lines:
        print(ln)
    for s_, c_ in sorted(viol_count.items()):
        print('  signature %-70s cases=%d%s' % (s_, c_, ' (known finding)' if s_ in known_sigs else ''))
    print('%s tier=%s seed=%d evaluations=%d distinct_nontrivial=%d outcomes=%d skipped=%d new_violations=%d '
          'known=%d wall=%.1fs %s' % (prop, a.tier, seed, evaluations, distinct, len(hist), sum(skipped.values()),
                                      n_new, sum(viol_count[s] for s in seen_known), wall,
                                      ' '.join('%s=%d' % kv for kv in sorted(extra.items()))))
    return status


def do_replay(mod, path):
    with open(path) as f:
        blob = json.load(f)
    case = unjson(blob['case'])
    if blob.get('needs_history'):
        acc = mod.run_task(unjson(blob['shard']))
        res = [(v['sig'], v['msg']) for v in acc.violations if v['sig'] == blob['sig']][:1]
    else:
        res = mod.replay(case)
    known = load_known()
    known_sigs = {k['sig'] for k in known.get('known', []) if k['property_id'] == mod.PROP}
    bad = [(s, m) for s, m in res if s not in known_sigs]
    for s, m in res:
        print(('KNOWN-FINDING' if s in known_sigs else 'REPRODUCED') + ' sig=%s %s' % (s, str(m)[:500]))
    if bad:
        print('VIOLATION property=%s replay=%s' % (mod.PROP, os.path.abspath(path)))
        return 1
    print('replay: no violation on this tree')
    return 0


if __name__ == '__main__':
    try:
        rc = main()
    except SystemExit:
        raise
    except BaseException:
        # a crash of the harness itself is never a verdict about the property
        print('HARNESS-ERROR: uncaught exception in the runner:\n' + traceback.format_exc())
        rc = 2
    sys.exit(rc)
