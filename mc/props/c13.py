"""C13 - trace sets: textbook bases, weighted least-squares fits, fit/evaluate consistency.

Four case families, every one a complete product of explicit menus:

  basis   (function, order m, form of the abscissa argument, abscissa values)  vs exact rational recurrences
  fit     (function, grid, ncoeff, zero-weight subset, weight values, fixed mask, inputans, right-hand side)
          vs a dense weighted lstsq on the free columns
  trace   xy2traceset -> traceset2xy on (function, ncoeff, nTrace, nx, x layout, xmin/xmax mode, weights, jump)
  tsfits  TraceSet built from a FITS record (coefficient matrix given) evaluated on its default grid
"""
import itertools
from fractions import Fraction

import numpy as np

from mc.core import Acc

PROP = 'C13'
LEVEL = 'exploration'
ENGINE = 'E1'
TECHNIQUE = 'model checking: bounded-exhaustive product enumeration (E1) against exact-rational and dense-lstsq reference models'
LEVEL_TEXT = ('every basis/fit/trace-set case of the stated finite menus was executed and compared with an independent reference model; '
              'the property is decided on that lattice only')
LEVEL_NOTE = ('trusts numpy.linalg.lstsq/svd and Python Fraction arithmetic; continuous domains are represented by dyadic lattices, '
              'ill-conditioned fits (cond > 1e4) are skipped and counted')
RULE = ('basis: every (function, order 1..12, argument form, abscissa set) with abscissae k/8, +-1/3, +-0.999 as float64/float32/int arrays, '
        '0-d arrays and Python/numpy scalars; fit: every (function, grid, ncoeff, subset of zero-weight points leaving >= ncoeff good points, '
        'weight pattern, fixed mask in {T,F}^ncoeff, inputans, right-hand side); trace: every (function, ncoeff, nTrace, nx, x layout, range mode, '
        'weight kind, jump). Non-trivial: basis order >= 3; fit with a zero weight, a fixed coefficient or non-uniform weights; trace set with '
        'ncoeff >= 2. Distinct = distinct case tuples.')
ASSUMPTIONS = ['abscissae and grids are lattice points of [-1,1] (dyadic plus +-1/3, +-0.999); nothing is claimed between lattice points',
               'bases: |error| <= 1e-10 (float64, int) or 5e-5 (float32) against exact rational recurrences; 1-D arrays and scalars only',
               'fits: "enough good points" is read as number of positive-weight points >= ncoeff and a weighted design matrix of the free '
               'columns with condition number <= 1e4; tolerance 1e-13*cond^2*(1+|c|)+1e-10',
               'trace sets: explicit xmin/xmax (including 0, 0.0 and negative limits, one or both given) always enclose the data strictly; '
               'a trace set built with explicit limits must report exactly those limits',
               'array layouts: the same values are passed Fortran-ordered, as a transposed view, strided, big-endian, read-only and as float32 '
               '(float32: tolerance 64*6e-8*cond^2 + 1e-5 and only fits with cond <= 30 are compared with the oracle); inputans also as int64; '
               'Python lists are not required for x/y/ia/inputans (every one of them is used through ndarray attributes)',
               'nearly equal rows: a shared grid near pixel 1000 displaced per trace by relative 0, 1e-9 .. 2.5e-4, with data changing by '
               '~10 % of their range per pixel, so an evaluation at a neighbouring trace positions is >= 100 x the 1e-9 tolerance',
               'trace sets: float64 positions, xmax > xmin; rejection thresholds are not set so the fit is a single weighted least-squares fit; '
               'the normalisation model is x -> 2(x + jfrac*xjumpval - xmid)/(xmax - xmin) as documented',
               'default grid: exactly xmin..xmax for integral xmax-xmin; for a non-integral range only "starts at xmin, unit steps, '
               'ends within one step below xmax" is required']

BASIS_FUNCS = ('flegendre', 'fchebyshev', 'fpoly', 'fchebyshev_split')
FIT_FUNCS = ('legendre', 'chebyshev', 'poly', 'chebyshev_split')
TRACE_FUNCS = ('legendre', 'chebyshev', 'poly')
ABSC = [k / 8.0 for k in range(-8, 9)] + [-1 / 3.0, 1 / 3.0, -0.999, 0.999]
INPUTANS = [2.5, -1.5, 0.5, 2.5, -1.5, 0.5]
COMBO = [1.0, -2.0, 3.0, -1.0, 2.0, -3.0]
BUMP = [3.0, -1.0, 4.0, 1.0, -5.0, 9.0, 2.0, 6.0, -5.0, 3.0, 5.0, 8.0, -9.0, 7.0, 9.0, -3.0, 2.0, 3.0, -8.0, 4.0, 6.0, -2.0, 6.0, 4.0]
GRIDS = {
    'u6': [-1.0, -0.6, -0.2, 0.2, 0.6, 1.0],
    'd7': [-1.0, -0.75, -0.5, 0.0, 0.125, 0.5, 1.0],
    'u8': [-1.0 + 2.0 * i / 7.0 for i in range(8)],
    'd9': [-1.0, -0.875, -0.5, -0.25, 0.0, 0.125, 0.375, 0.75, 1.0],
}
WVALS = {'unit': [1.0] * 12, 'varied': [0.5, 2.0, 1.0, 0.25, 4.0, 1.5, 0.5, 2.0, 1.0, 0.25, 4.0, 1.5]}


# ------------------------------------------------------------------ reference models
def ref_basis_exact(name, xs, m):
    """m x n list of Fractions: textbook three-term recurrences evaluated in exact rational arithmetic."""
    rows = []
    name = {'flegendre': 'legendre', 'fchebyshev': 'chebyshev', 'fpoly': 'poly', 'fchebyshev_split': 'chebyshev_split'}.get(name, name)
    for x in xs:
        x = Fraction(x)
        if name == 'poly':
            col = [x ** k for k in range(m)]
        elif name == 'legendre':
            col = [Fraction(1), x]
            for k in range(2, m):
                col.append(((2 * k - 1) * x * col[k - 1] - (k - 1) * col[k - 2]) / k)
            col = col[:m]
        elif name == 'chebyshev':
            col = [Fraction(1), x]
            for k in range(2, m):
                col.append(2 * x * col[k - 1] - col[k - 2])
            col = col[:m]
        elif name == 'chebyshev_split':
            t = [Fraction(1), x]
            for k in range(2, m):
                t.append(2 * x * t[k - 1] - t[k - 2])
            col = ([Fraction(1 if x >= 0 else 0)] + t)[:m]
        else:
            raise KeyError(name)
        rows.append(col)
    return [[rows[j][k] for j in range(len(xs))] for k in range(m)]


def ref_basis(name, x, m):
    """n x m float design matrix (same recurrences, float64)."""
    x = np.asarray(x, dtype=float)
    n = x.size
    B = np.ones((n, max(m, 2) + 1))
    if name == 'poly':
        for k in range(1, m):
            B[:, k] = B[:, k - 1] * x
    elif name == 'legendre':
        B[:, 1] = x
        for k in range(2, m):
            B[:, k] = ((2 * k - 1) * x * B[:, k - 1] - (k - 1) * B[:, k - 2]) / k
    elif name == 'chebyshev':
        B[:, 1] = x
        for k in range(2, m):
            B[:, k] = 2 * x * B[:, k - 1] - B[:, k - 2]
    elif name == 'chebyshev_split':
        T = ref_basis('chebyshev', x, max(m - 1, 1))
        B[:, 0] = (x >= 0).astype(float)
        B[:, 1:m] = T[:, :m - 1]
    else:
        raise KeyError(name)
    return B[:, :m].copy()


def ref_wls(B, y, w, free, ans):
    """Weighted least squares on the free columns; fixed columns carry `ans`. Returns (coeff, cond)."""
    nc = B.shape[1]
    res = np.zeros(nc)
    fixed = [k for k in range(nc) if k not in free]
    for k in fixed:
        res[k] = ans[k]
    good = np.asarray(w) > 0
    ysub = np.asarray(y, dtype=float) - B[:, fixed].dot(res[fixed]) if fixed else np.asarray(y, dtype=float)
    cond = 1.0
    if free:
        sw = np.sqrt(np.asarray(w, dtype=float)[good])
        A = B[good][:, free] * sw[:, None]
        s = np.linalg.svd(A, compute_uv=False)
        cond = float('inf') if s[-1] <= 0 else float(s[0] / s[-1])
        if cond <= 1e8:
            sol = np.linalg.lstsq(A, ysub[good] * sw, rcond=None)[0]
            res[free] = sol
    return res, cond


def ref_xnorm(x, xmin, xmax, jump):
    x = np.asarray(x, dtype=float)
    if jump is not None:
        lo, hi, val = jump
        jfrac = np.clip((x - lo) / (hi - lo), 0.0, 1.0)
        x = x + jfrac * val
    return 2.0 * (x - 0.5 * (xmin + xmax)) / (xmax - xmin)


# ------------------------------------------------------------------ case construction
def make_x_arg(form, xs):
    if form == 'arr64':
        return np.array(xs, dtype=np.float64)
    if form == 'arr32':
        return np.array(xs, dtype=np.float32)
    if form == 'int64':
        return np.array(xs, dtype=np.int64)
    if form == 'int32':
        return np.array(xs, dtype=np.int32)
    if form == '0d':
        return np.array(xs[0], dtype=np.float64)
    if form == 'py':
        return float(xs[0])
    if form == 'pyint':
        return int(xs[0])
    if form == 'np64':
        return np.float64(xs[0])
    if form == 'np32':
        return np.float32(xs[0])
    raise KeyError(form)


LAYOUTS_2D = ('F', 'T', 'strided', 'be', 'f32', 'ro')
LAYOUTS_1D = ('strided', 'be', 'f32', 'ro')
INTANS = [2, -1, 3, 2, -1, 3]


def lay(a, layout):
    """The same values in another memory layout / representation."""
    a = np.asarray(a)
    if layout == 'C':
        return np.ascontiguousarray(a).copy()
    if layout == 'F':                      # Fortran-ordered owner
        return np.asfortranarray(a).copy(order='F')
    if layout == 'T':                      # transposed view of an [nx, nTrace] C array
        return np.ascontiguousarray(a.T).T
    if layout == 'strided':                # every second element of a wider buffer
        big = np.full(a.shape[:-1] + (2 * a.shape[-1],), -777, dtype=a.dtype)
        big[..., ::2] = a
        return big[..., ::2]
    if layout == 'be':                     # big-endian, as read from a FITS file
        return a.astype(a.dtype.newbyteorder('>')) if a.dtype.kind == 'f' else a.copy()
    if layout == 'f32':
        return a.astype(np.float32) if a.dtype.kind == 'f' else a.copy()
    if layout == 'ro':
        b = a.copy()
        b.flags.writeable = False
        return b
    raise KeyError(layout)


def make_y(ykind, B, n):
    if ykind == 'combo':
        return B.dot(np.array(COMBO[:B.shape[1]]))
    if ykind == 'bump':
        return np.array(BUMP[:n])
    if ykind.startswith('unit:'):
        y = np.zeros(n)
        y[int(ykind[5:])] = 1.0
        return y
    raise KeyError(ykind)


# per-trace displacement of a shared grid, relative to |x| ~ 1000: identical rows, tiny (1e-9 .. 5e-6: below any "allclose"), 1e-4, large
NEAR_REL = (0.0, 1e-9, 1e-7, 1e-6, 5e-6, 1e-4, 2.5e-4)
RANGE_MODES = ('implicit', 'explicit', 'zero-lo', 'zero-lo-only', 'zero-hi', 'zero-hi-only', 'negative')


def range_mode(name, nx):
    """(shift applied to the positions, explicit xmin or None, explicit xmax or None); data always lie strictly inside explicit limits."""
    if name == 'implicit':
        return 0.0, None, None
    if name == 'explicit':
        return 0.0, -2.0, float(nx + 2)
    if name == 'zero-lo':          # pixels 5.. with xmin = 0 (a Python int) and xmax beyond the data
        return 5.0, 0, float(nx + 9)
    if name == 'zero-lo-only':     # only xmin given (0.0); xmax taken from the data
        return 5.0, 0.0, None
    if name == 'zero-hi':          # negative positions with xmax = 0.0
        return -float(nx + 4), -float(nx + 9), 0.0
    if name == 'zero-hi-only':     # only xmax given (int 0)
        return -float(nx + 4), None, 0
    if name == 'around-1000':      # explicit limits around a grid that starts at pixel 1000
        return 0.0, 990.0, float(1010 + nx)
    if name == 'negative':         # both limits negative
        return -float(nx + 20), -float(nx + 25), -10.0
    raise KeyError(name)


def trace_inputs(case):
    nt, nx = case['ntrace'], case['nx']
    base = np.arange(nx, dtype=float)
    if case['xkind'] == 'pixel':
        xpos = np.tile(base, (nt, 1))
    elif case['xkind'] == 'offset':
        xpos = np.array([base + 0.25 * i for i in range(nt)])
    elif case['xkind'].startswith('near:'):
        # the same grid near x = 1000 for every trace, trace i displaced by the relative amount i*rel (rel = 0: identical rows)
        rel = float(case['xkind'][5:])
        xpos = np.array([(base + 1000.0) * (1.0 + i * rel) for i in range(nt)])
    else:  # 'nonuni': dyadic, strictly increasing, different per trace
        xpos = np.array([base + 0.125 * ((np.arange(nx) * (3 + i)) % 5) for i in range(nt)])
    if case['xkind'].startswith('near:'):
        # steep in x (about 10 % of its range per pixel) so that a displacement of 1e-6 pixel is far above the tolerance
        u = xpos - 1000.0
        ypos = np.array([50.0 + 20.0 * i + 100.0 * u[i] - 3.0 * u[i] ** 2 + 0.2 * u[i] ** 3 + 0.01 * np.array(BUMP[i:i + nx])
                         for i in range(nt)])
    else:
        t = xpos / float(nx)
        ypos = np.array([10.0 * (i + 1) + 3.0 * t[i] - 2.0 * t[i] ** 2 + 0.5 * t[i] ** 3 + 0.01 * np.array(BUMP[i:i + nx])
                         for i in range(nt)])
    kw = {}
    w = np.ones((nt, nx))
    if case['wkind'] == 'zeros':
        w = np.array([[0.0 if (j + 2 * i) % 4 == 1 else 1.0 + 0.5 * ((j + i) % 3) for j in range(nx)] for i in range(nt)])
        kw['invvar'] = w.copy()
    elif case['wkind'] == 'inmask':
        m = np.array([[(j + i) % 5 != 2 for j in range(nx)] for i in range(nt)])
        kw['inmask'] = m.copy()
        w = m.astype(float)
    elif case['wkind'] == 'varied':
        w = np.array([[0.5 + ((j * 3 + i) % 4) for j in range(nx)] for i in range(nt)])
        kw['invvar'] = w.copy()
    shift, lo, hi = range_mode(case['range'], nx)
    xpos = xpos + shift
    if lo is not None:
        kw['xmin'] = lo
    if hi is not None:
        kw['xmax'] = hi
    xmin = float(lo) if lo is not None else float(xpos.min())
    xmax = float(hi) if hi is not None else float(xpos.max())
    if case['jump'] is not None:
        kw['xjumplo'], kw['xjumphi'], kw['xjumpval'] = case['jump']
    return xpos, ypos, w, kw, xmin, xmax


def fits_record(case):
    from astropy.io import fits
    nt, nc = case['ntrace'], case['nc']
    coeff = np.array([[((3 * i + 2 * k) % 7) - 3.0 + 0.5 * k for k in range(nc)] for i in range(nt)])
    fmt = case['fmt']
    cols = [fits.Column(name='FUNC', format='%dA' % len(case['func']), array=np.array([case['func']])),
            fits.Column(name='XMIN', format=fmt, array=np.array([case['xmin']])),
            fits.Column(name='XMAX', format=fmt, array=np.array([case['xmax']])),
            fits.Column(name='COEFF', format='%d%s' % (nt * nc, fmt), dim='(%d,%d)' % (nc, nt), array=coeff.reshape(1, nt, nc))]
    if case['jump'] is not None:
        for nm, v in zip(('XJUMPLO', 'XJUMPHI', 'XJUMPVAL'), case['jump']):
            cols.append(fits.Column(name=nm, format=fmt, array=np.array([v])))
    return fits.BinTableHDU.from_columns(cols).data, coeff


# ------------------------------------------------------------------ the checks
def _exc_sig(entry, e, trig=''):
    return '%s:exception:%s%s' % (entry, type(e).__name__, (':' + trig) if trig else '')


def check_basis(case):
    from pydl.goddard.math import flegendre
    from pydl.pydlutils import trace
    fn = {'flegendre': flegendre, 'fchebyshev': trace.fchebyshev, 'fpoly': trace.fpoly,
          'fchebyshev_split': trace.fchebyshev_split}[case['func']]
    form, m = case['form'], case['m']
    xarg = make_x_arg(form, case['x'])
    xs_used = [float(v) for v in np.atleast_1d(np.asarray(xarg)).astype(np.float64)]   # values as actually passed (float32 rounded)
    trig = 'int-dtype' if form in ('int64', 'int32') else ''
    bad = []
    try:
        got = fn(xarg, m)
    except Exception as e:
        return [(_exc_sig(case['func'], e, trig or form), repr(e))], 'exc'
    exp = ref_basis_exact(case['func'], xs_used, m)
    expf = np.array([[float(v) for v in row] for row in exp])
    got = np.asarray(got)
    if got.shape != expf.shape:
        return [('%s:shape%s' % (case['func'], ':' + trig if trig else ''), 'got %s expected %s' % (got.shape, expf.shape))], 'shape'
    tol = 5e-5 if form in ('arr32', 'np32') else 1e-10
    err = np.abs(got.astype(np.float64) - expf)
    if not np.all(err <= tol):
        k, j = np.unravel_index(int(np.argmax(err)), err.shape)
        bad.append(('%s:value%s' % (case['func'], ':' + trig if trig else ''),
                    'order %d at x=%r: got %r, textbook %r' % (k, xs_used[j], got[k, j].item(), expf[k, j])))
    return bad, 'ok:%s:%s' % (case['func'], form)


def check_fit(case):
    from pydl.pydlutils.trace import func_fit
    func, nc = case['func'], case['nc']
    layout = case.get('layout', 'C')
    f32 = layout == 'f32'
    xl = lay(np.array(case['x'], dtype=float), layout)
    x = np.asarray(xl, dtype=np.float64)              # the values actually passed (float32-rounded for 'f32')
    n = len(x)
    wl = lay(np.array(case['w'], dtype=float), layout)
    w = np.asarray(wl, dtype=np.float64)
    B = ref_basis(func, x, nc)
    yl = lay(make_y(case['ykind'], B, n), layout)
    y = np.asarray(yl, dtype=np.float64)
    ia = case['ia']
    free = [k for k in range(nc) if ia is None or ia[k]]
    ans_given = case['ans']
    ansdtype = case.get('ansdtype', 'float')
    ans = np.array(ans_given if ans_given is not None else [0.0] * nc, dtype=float)
    ngood = int((w > 0).sum())
    trigs = []
    if ngood == 1:
        trigs.append('ngood=1')
    if not free:
        trigs.append('all-fixed')
    if ansdtype == 'int' and ans_given is not None:
        trigs.append('int-inputans')
    if layout != 'C':
        trigs.append('layout=' + layout)
    trig = ','.join(trigs)
    tsuf = (':' + trig) if trig else ''
    exp, cond = ref_wls(B, y, w, free, ans)
    if cond > 1e4:
        return None, 'skip:ill-conditioned:' + func
    if f32 and cond > 30:
        return None, 'skip:float32-ill-conditioned'
    if f32:
        tol = (64 * 6e-8 * cond * cond + 1e-5) * (1.0 + float(np.abs(exp).max()) + float(np.abs(y).max()))
    else:
        tol = 1e-13 * cond * cond * (1.0 + float(np.abs(exp).max())) + 1e-10

    def call(yy):
        kw = {'invvar': wl, 'function_name': func}
        if ia is not None:
            kw['ia'] = np.array(ia, dtype=bool)
        if ans_given is not None:
            kw['inputans'] = np.array(ans_given, dtype=np.int64 if ansdtype == 'int' else (np.float32 if f32 else np.float64))
        return func_fit(xl, yy, nc, **kw)
    bad = []
    keep = (x.copy(), y.copy(), w.copy())
    try:
        res, yfit = call(yl)
    except Exception as e:
        return [(_exc_sig('func_fit', e, trig), repr(e))], 'exc'
    res = np.asarray(res, dtype=float)
    yfit = np.asarray(yfit, dtype=float)
    if res.shape != (nc,) or yfit.shape != (n,):
        return [('func_fit:shape' + tsuf, 'res %s yfit %s' % (res.shape, yfit.shape))], 'shape'
    fixed = [k for k in range(nc) if k not in free]
    if fixed and not np.all(np.abs(res[fixed] - ans[fixed]) <= 1e-12):
        bad.append(('func_fit:fixed-not-kept' + tsuf, 'ia=%s inputans=%s returned %s' % (ia, ans.tolist(), res.tolist())))
    if free and not np.all(np.abs(res[free] - exp[free]) <= tol):
        bad.append(('func_fit:wls-coeff' + tsuf, 'got %s expected %s (cond %.3g)' % (res.tolist(), exp.tolist(), cond)))
    ytol = tol * (1.0 + float(np.abs(B).sum(axis=1).max()))
    if not bad and not np.all(np.abs(yfit - B.dot(exp)) <= ytol):
        bad.append(('func_fit:yfit' + tsuf, 'got %s expected %s' % (yfit.tolist(), B.dot(exp).tolist())))
    if case['ykind'] == 'combo' and not fixed:
        c = np.array(COMBO[:nc])
        if not np.all(np.abs(res - c) <= tol):
            bad.append(('func_fit:exact-combination-not-recovered' + tsuf, 'got %s expected %s' % (res.tolist(), c.tolist())))
    if ngood < n:
        y2 = y.copy()
        y2[w <= 0] += 1000.0 * (1 + np.arange(n)[w <= 0])
        rt = 1e-6 if f32 else 1e-12
        try:
            res2, yfit2 = call(lay(y2, layout))
            if not (np.all(np.abs(np.asarray(res2) - res) <= rt * (1 + np.abs(res))) and
                    np.all(np.abs(np.asarray(yfit2) - yfit) <= rt * (1 + np.abs(yfit)))):
                bad.append(('func_fit:zero-weight-point-has-influence' + tsuf, 'y changed at w=0 points: %s -> %s' % (res.tolist(), np.asarray(res2).tolist())))
        except Exception as e:
            bad.append((_exc_sig('func_fit', e, trig), repr(e)))
    label = 'ok:fit:%s:free%d%s%s%s' % (func, len(free), ':zw' if ngood < n else '', ':intans' if 'int-inputans' in trigs else '',
                                      (':' + layout) if layout != 'C' else '')
    return bad, label


def check_trace(case):
    from pydl.pydlutils.trace import xy2traceset, traceset2xy
    func, nc = case['func'], case['nc']
    layout = case.get('layout', 'C')
    where = case.get('where', 'fit+eval')
    f32 = layout == 'f32'
    xpos, ypos, w, kw, xmin, xmax = trace_inputs(case)
    flay = layout if where == 'fit+eval' else 'C'       # layout of the arrays given to the fit
    xfit, yfit_in = lay(xpos, flay), lay(ypos, flay)
    for k in ('invvar', 'inmask'):
        if k in kw:
            kw[k] = lay(kw[k], flay)
    xeval = lay(xpos, layout)                            # layout of the positions given to the evaluation
    if f32:
        # values as actually passed; the limits follow the rounded positions when they are implicit
        xpos = np.asarray(xfit if flay == 'f32' else xpos, dtype=np.float64)
        ypos = np.asarray(yfit_in, dtype=np.float64)
        if 'xmin' not in kw:
            xmin = float(xpos.min())
        if 'xmax' not in kw:
            xmax = float(xpos.max())
    jump = case['jump']
    jt = ('jump' if jump is not None else 'nojump') + ((':layout=' + layout) if layout != 'C' else '')
    bad = []
    try:
        tset = xy2traceset(xfit, yfit_in, func=func, ncoeff=nc, **kw)
    except Exception as e:
        return [(_exc_sig('xy2traceset', e, jt), repr(e))], 'exc'
    scale = 1.0 + float(np.abs(ypos).max())
    rtol = 1e-5 if f32 else 1e-9
    # (0) explicit limits are the limits of the trace set
    for nm, want in (('xmin', kw.get('xmin')), ('xmax', kw.get('xmax'))):
        if want is not None:
            try:
                have = float(getattr(tset, nm))
            except Exception:
                have = float('nan')
            if not have == float(want):
                bad.append(('xy2traceset:%s-not-as-requested%s' % (nm, ':limit=0' if float(want) == 0 else ''),
                            'requested %s=%r, trace set has %r' % (nm, want, have)))
    # (a) evaluating at the same positions returns the fitted values, through both entry points
    try:
        outs = [traceset2xy(tset, xeval), tset.xy(xeval)]
        if jump is None:
            outs.append(traceset2xy(tset, xeval, ignore_jump=True))
    except Exception as e:
        return [(_exc_sig('traceset2xy', e, jt), repr(e))], 'exc'
    fitted = np.asarray(tset.yfit, dtype=np.float64)
    xeval64 = np.asarray(xeval, dtype=np.float64)
    for xo, yo in outs:
        yo = np.asarray(yo, dtype=np.float64)
        if yo.shape != ypos.shape or not np.all(np.abs(yo - fitted) <= rtol * scale):
            bad.append(('traceset2xy:differs-from-yfit:' + jt, 'max |diff| %r' % (float(np.abs(yo - fitted).max())
                                                                                if yo.shape == ypos.shape else yo.shape,)))
            break
        if np.shape(xo) != xeval64.shape or not np.array_equal(np.asarray(xo, dtype=np.float64), xeval64):
            bad.append(('traceset2xy:x-changed:' + jt, ''))
            break
    # (b) the fit is the weighted least-squares fit in the documented normalised coordinate
    for i in range(case['ntrace']):
        xn = ref_xnorm(xpos[i], xmin, xmax, jump)
        B = ref_basis(func, xn, nc)
        exp, cond = ref_wls(B, ypos[i], w[i], list(range(nc)), np.zeros(nc))
        if cond > 1e4:
            return None, 'skip:ill-conditioned'
        if f32 and cond > 30:
            break                                       # float32 normal equations: nothing meaningful can be demanded
        tol = ((64 * 6e-8 * cond * cond + 1e-5) if f32 else (1e-13 * cond * cond + 1e-10)) * scale
        got = np.asarray(tset.coeff, dtype=np.float64)[i]
        if np.shape(tset.coeff) != (case['ntrace'], nc) or not np.all(np.abs(got - exp) <= tol):
            bad.append(('xy2traceset:coeff-not-wls:' + jt, 'trace %d got %s expected %s' % (i, np.asarray(got).tolist(), exp.tolist())))
            break
        if not np.all(np.abs(fitted[i] - B.dot(exp)) <= tol * (1 + np.abs(B).sum(axis=1).max())):
            bad.append(('xy2traceset:yfit-not-wls:' + jt, 'trace %d' % i))
            break
    # (c) default grid
    bad += default_grid_check(tset, case['ntrace'], xmin, xmax, jt, 1e-5 if f32 else 1e-9)
    return bad, 'ok:trace:%s:%s:%s:%s%s' % (func, jt, case['range'], case['wkind'], (':' + where) if layout != 'C' else '')


def default_grid_check(tset, nt, xmin, xmax, jt, vtol=1e-9):
    bad = []
    try:
        xd, yd = tset.xy()
    except Exception as e:
        return [(_exc_sig('traceset2xy-default-grid', e, jt), repr(e))]
    xd = np.asarray(xd, dtype=float)
    rng = xmax - xmin
    integral = float(rng) == int(rng)
    ok = xd.ndim == 2 and xd.shape[0] == nt and xd.shape[1] >= 1 and np.shape(yd) == xd.shape
    if ok:
        ok = bool(np.all(np.abs(xd[:, 0] - xmin) <= 1e-9) and np.all(np.abs(np.diff(xd, axis=1) - 1.0) <= 1e-9))
    if ok:
        last = xd[:, -1]
        ok = bool(np.all(np.abs(last - xmax) <= 1e-9)) if integral else bool(np.all((last <= xmax + 1e-9) & (last > xmax - 1 - 1e-9)))
    if not ok:
        bad.append(('traceset2xy:default-grid:' + jt, 'xmin %r xmax %r: grid shape %s first row %s' %
                    (xmin, xmax, xd.shape, xd[0][:4].tolist() + ['...'] + xd[0][-2:].tolist() if xd.ndim == 2 and xd.size else xd.tolist())))
    else:
        # evaluating explicitly at the default grid gives the same values
        x2, y2 = tset.xy(xd.copy())
        if not np.all(np.abs(np.asarray(y2, dtype=np.float64) - np.asarray(yd, dtype=np.float64)) <= vtol * (1 + np.abs(np.asarray(yd, dtype=np.float64)))):
            bad.append(('traceset2xy:default-grid-values:' + jt, ''))
    return bad


def check_tsfits(case):
    from pydl.pydlutils.trace import TraceSet
    jt = 'jump' if case['jump'] is not None else 'nojump'
    rec, coeff = fits_record(case)
    try:
        tset = TraceSet(rec)
    except Exception as e:
        return [(_exc_sig('TraceSet-fits', e, jt), repr(e))], 'exc'
    bad = []
    if tset.nTrace != case['ntrace'] or tset.ncoeff != case['nc'] or not np.allclose(np.asarray(tset.coeff, dtype=float), coeff):
        bad.append(('TraceSet-fits:coeff-shape:' + jt, '%r' % (np.shape(tset.coeff),)))
        return bad, 'bad'
    bad += default_grid_check(tset, case['ntrace'], float(case['xmin']), float(case['xmax']), jt)
    return bad, 'ok:tsfits:%s:%s:%s' % (case['func'], jt, 'int' if float(case['xmax'] - case['xmin']).is_integer() else 'frac')


def check_case(case):
    f = case['f']
    if f == 'basis':
        return check_basis(case)
    if f == 'fit':
        return check_fit(case)
    if f == 'trace':
        return check_trace(case)
    if f == 'tsfits':
        return check_tsfits(case)
    raise KeyError(f)


def replay(case):
    bad, _ = check_case(case)
    return bad or []


# ------------------------------------------------------------------ enumeration
def tasks(tier):
    T = tier == 'thorough'
    t = []
    for func in BASIS_FUNCS:
        for m in range(1 if func != 'fchebyshev_split' else 2, 13):
            t.append({'f': 'basis', 'func': func, 'm': m, 'T': T})
    fitgrids = [('u6', 5), ('d7', 3)] if not T else [('u6', 5), ('d7', 5), ('u8', 4), ('d9', 3)]
    for func in FIT_FUNCS:
        for g, maxnc in fitgrids:
            for nc in range(1 if func != 'chebyshev_split' else 2, maxnc + 1):
                t.append({'f': 'fit', 'func': func, 'grid': g, 'nc': nc, 'T': T})
    for func in TRACE_FUNCS:
        for nc in range(1, 6 if T else 5):
            for jk in range(5):
                t.append({'f': 'trace', 'func': func, 'nc': nc, 'jk': jk, 'T': T})
    for func in TRACE_FUNCS:
        t.append({'f': 'tsfits', 'func': func, 'T': T})
    for func in TRACE_FUNCS:
        for nc in ((2, 3, 4) if not T else (1, 2, 3, 4, 5)):
            t.append({'f': 'tracenear', 'func': func, 'nc': nc, 'T': T})
    for func in TRACE_FUNCS:
        for layout in LAYOUTS_2D:
            t.append({'f': 'tracelayout', 'func': func, 'layout': layout, 'T': T})
    for func in FIT_FUNCS:
        for layout in LAYOUTS_1D:
            t.append({'f': 'fitlayout', 'func': func, 'layout': layout, 'T': T})
    # shard 0 (determinism probe) is basis/flegendre/m=1: small
    return t


def _key(case):
    return tuple(sorted((k, repr(v)) for k, v in case.items()))


def _do(acc, case, nontrivial):
    bad, label = check_case(case)
    if bad is None:
        acc.skip(label)
        return
    acc.case(_key(case), nontrivial, label if not bad else 'bad:' + bad[0][0], sample=case)
    for sig, msg in bad:
        acc.violation(sig, case, msg)


def jump_menu(nx, jk):
    """jk 0: none; 1: inside the range; 2: negative jump inside; 3: starts at the lower edge; 4: ends at the upper edge."""
    if jk == 0:
        return None
    if jk == 1:
        return [nx / 2.0 - 1.0, nx / 2.0 + 1.0, 0.5]
    if jk == 2:
        return [nx / 4.0, nx / 4.0 + 0.5, -0.75]
    if jk == 3:
        return [0.0, 2.0, 1.25]
    return [nx - 3.0, nx - 1.0, 0.5]


def run_task(task):
    acc = Acc()
    f, T = task['f'], task['T']
    if f == 'basis':
        func, m = task['func'], task['m']
        nt = m >= 3
        arrays = [ABSC, ABSC[::-1], ABSC[::2]]
        if T:
            arrays += [[k / 64.0 for k in range(-64, 65)]] + [list(p) for p in itertools.combinations(ABSC, 2)]
        for xs in arrays:
            for form in ('arr64', 'arr32'):
                _do(acc, {'f': 'basis', 'func': func, 'm': m, 'form': form, 'x': list(xs)}, nt)
        for a in ABSC:
            for form in ('arr64', 'arr32', '0d', 'py', 'np64', 'np32'):
                _do(acc, {'f': 'basis', 'func': func, 'm': m, 'form': form, 'x': [a]}, nt)
        ints = [-1, 0, 1]
        for r in (1, 2, 3):
            for xs in itertools.permutations(ints, r):
                for form in ('int64', 'int32'):
                    _do(acc, {'f': 'basis', 'func': func, 'm': m, 'form': form, 'x': list(xs)}, nt)
        for a in ints:
            _do(acc, {'f': 'basis', 'func': func, 'm': m, 'form': 'pyint', 'x': [a]}, nt)
    elif f == 'fit':
        func, nc = task['func'], task['nc']
        x = GRIDS[task['grid']]
        n = len(x)
        ykinds = ['combo', 'bump'] + ['unit:%d' % j for j in (range(n) if (T and n <= 7) else (0, n // 2, n - 1) if T else (0, n // 2))]
        for nzero in range(0, n - nc + 1):
            for zeros in itertools.combinations(range(n), nzero):
                for wk in ('unit', 'varied'):
                    w = [0.0 if i in zeros else WVALS[wk][i] for i in range(n)]
                    for ia in itertools.product((True, False), repeat=nc):
                        allfree = all(ia)
                        for ans in ((None,) if allfree else (None, INPUTANS[:nc], INTANS[:nc])):
                            for yk in ykinds:
                                case = {'f': 'fit', 'func': func, 'x': x, 'nc': nc, 'w': w,
                                        'ia': None if (allfree and wk == 'unit') else list(ia), 'ans': ans, 'ykind': yk}
                                if ans is not None and ans == INTANS[:nc]:
                                    case['ansdtype'] = 'int'       # inputans passed as an int64 array
                                _do(acc, case, nzero > 0 or not allfree or wk != 'unit')
    elif f == 'trace':
        func, nc, jk = task['func'], task['nc'], task['jk']
        for ntr in (1, 2, 3):
            for nx in ((8, 12) if not T else (8, 9, 12, 16, 20)):
                for xkind in ('pixel', 'offset', 'nonuni'):
                    for rng in RANGE_MODES:
                        jump = jump_menu(nx, jk)
                        if jump is not None:      # the jump moves with the positions
                            sh = range_mode(rng, nx)[0]
                            jump = [jump[0] + sh, jump[1] + sh, jump[2]]
                        for wkind in ('ones', 'zeros', 'inmask', 'varied'):
                            case = {'f': 'trace', 'func': func, 'nc': nc, 'ntrace': ntr, 'nx': nx, 'xkind': xkind,
                                    'range': rng, 'wkind': wkind, 'jump': jump}
                            _do(acc, case, nc >= 2)
    elif f == 'fitlayout':
        func, layout = task['func'], task['layout']
        for g in (('u6',) if not T else ('u6', 'd7')):
            x = GRIDS[g]
            n = len(x)
            for nc in range(1 if func != 'chebyshev_split' else 2, 4):
                for nzero in range(0, n - nc + 1):
                    for zeros in itertools.combinations(range(n), nzero):
                        w = [0.0 if i in zeros else WVALS['varied'][i] for i in range(n)]
                        for ia in itertools.product((True, False), repeat=nc):
                            for ans in ((None,) if all(ia) else (INPUTANS[:nc], INTANS[:nc])):
                                for yk in ('combo', 'bump'):
                                    case = {'f': 'fit', 'func': func, 'x': x, 'nc': nc, 'w': w, 'ia': list(ia), 'ans': ans, 'ykind': yk,
                                            'layout': layout}
                                    if ans is not None and ans == INTANS[:nc]:
                                        case['ansdtype'] = 'int'
                                    _do(acc, case, True)
    elif f == 'tracenear':
        func, nc = task['func'], task['nc']
        for jk in (0, 1):
            for ntr in (1, 2, 3):
                for nx in ((8, 12) if not T else (8, 12, 20)):
                    for rel in NEAR_REL:
                        for rng in ('implicit', 'around-1000'):
                            jump = jump_menu(nx, jk)
                            if jump is not None:
                                jump = [jump[0] + 1000.0, jump[1] + 1000.0, jump[2]]
                            for wkind in ('ones', 'zeros'):
                                case = {'f': 'trace', 'func': func, 'nc': nc, 'ntrace': ntr, 'nx': nx, 'xkind': 'near:%g' % rel,
                                        'range': rng, 'wkind': wkind, 'jump': jump}
                                _do(acc, case, ntr >= 2)
    elif f == 'tracelayout':
        func, layout = task['func'], task['layout']
        for nc in ((2, 3) if not T else (1, 2, 3, 4)):
            for jk in ((0, 1) if not T else (0, 1, 4)):
                for ntr in (1, 2, 3):
                    for nx in ((8,) if not T else (8, 12)):
                        for xkind in ('pixel', 'offset', 'nonuni'):
                            for rng in ('implicit', 'zero-lo'):
                                jump = jump_menu(nx, jk)
                                if jump is not None:
                                    sh = range_mode(rng, nx)[0]
                                    jump = [jump[0] + sh, jump[1] + sh, jump[2]]
                                for wkind in ('ones', 'zeros', 'inmask'):
                                    for where in ('fit+eval', 'eval-only'):
                                        case = {'f': 'trace', 'func': func, 'nc': nc, 'ntrace': ntr, 'nx': nx, 'xkind': xkind, 'range': rng,
                                                'wkind': wkind, 'jump': jump, 'layout': layout, 'where': where}
                                        _do(acc, case, True)
    elif f == 'tsfits':
        func = task['func']
        ranges = [(0.0, 10.0), (0.0, 2047.0), (5.0, 12.0), (-3.0, 4.0), (0.0, 10.5), (2.25, 9.25), (0.0, 1.0)]
        for ntr in (1, 2, 3):
            for nc in (1, 2, 3, 4) if not T else (1, 2, 3, 4, 5, 6):
                for xmin, xmax in ranges:
                    for jump in (None, [xmin + 1.0, xmin + 2.0, 0.5], [xmax - 1.0, xmax, -0.25]):
                        for fmt in ('D', 'E'):
                            case = {'f': 'tsfits', 'func': func, 'ntrace': ntr, 'nc': nc, 'xmin': xmin, 'xmax': xmax,
                                    'jump': jump, 'fmt': fmt}
                            _do(acc, case, nc >= 2)
    return acc
