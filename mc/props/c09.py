"""C09 - bspline.fit is the weighted least-squares optimum; cholesky_band/cholesky_solve; failure is a status code.

Part F: well-posed fits   - every zero-weight subset of small grids x orders x knot options x weight patterns,
                            right-hand sides = every unit vector, every monomial below the order, a generic vector and
                            its perturbation at zero-weight points; oracle = dense lstsq on an own Cox-de Boor design matrix.
Part I: ill-posed fits    - every subset that is NOT well-posed: fit, and refit while status is -1 (what iterfit does);
                            only the status-code contract is demanded.
Part C: banded Cholesky   - every A = L L^T with small-integer banded L; each made indefinite at each pivot and
                            non-finite at each band position.
"""
import itertools
import traceback
import warnings

import numpy as np

from mc.core import Acc
from mc.props import _bsp

PROP = 'C09'
LEVEL = 'exploration'
ENGINE = 'E1'
TECHNIQUE = 'model checking: bounded-exhaustive enumeration of weight patterns, right-hand-side bases and small banded matrices against dense least squares and direct matrix identities'
LEVEL_TEXT = ('every zero-weight subset of 8..12-point grids x orders 1..5 x 8 knot options x 2 weight patterns is classified by an independent rank/condition test; '
              'well-posed ones are fitted for every unit vector, monomial and a generic right-hand side and compared with dense lstsq, all others are driven '
              'through fit/refit until a terminal status; every small-integer banded Cholesky factor of bandwidth 1..3 (n<=5; fixed patterns for 4..6) is '
              'multiplied out, factorised, solved for every unit vector, and made indefinite / non-finite at every position; '
              'every well-posed problem is also fitted five times on ONE object (y changed, interior x moved and moved back), and every chain that ends with status 0 is compared with dense least squares on the surviving breakpoints')
LEVEL_NOTE = ('holds for the enumerated menus only; "every segment supported" is read as: every breakpoint interval holds a positively weighted abscissa and the weighted '
              'design matrix has full rank with condition number <= 1e4 - anything else is only held to the status-code contract; trusted: numpy.linalg.lstsq, '
              'the reference recursion in mc/props/_bsp.py; tolerance (1e-11 + 1e-13*cond^2) * scale')
RULE = ('case = one call: (grid, order, knot option, zero-weight subset, weight pattern, right-hand side) for fits, one five-fit sequence on one object per (grid, order, knots, subset, weights), (grid, order, knots, subset) for ill-posed chains, '
        '(bandwidth, n, factor entries, variant) for Cholesky. Non-trivial: fit cases whose expected coefficient vector is non-zero; every ill-posed chain; '
        'every matrix with a non-zero off-diagonal or a damaged entry. Distinct = distinct case tuples.')
ASSUMPTIONS = ['float64 data on the enumerated grids (uniform and quadratically clustered), sorted abscissae, npoly=1, knots taken from the constructed object (their placement is C08)',
               'well-posed := every breakpoint interval holds >=1 positively weighted abscissa, the weighted design matrix (both knot-side conventions) has full column rank and cond <= 1e4',
               'for order 1 a data point on an interior knot may be counted to either neighbouring interval (both least-squares solutions are accepted)',
               'indefinite matrices are made so by a margin of 0.5 at one pivot (no decision at the semi-definite boundary); "signalled" := first returned item is not the integer -1',
               'documented statuses: -2, -1, 0 or a positive integer; -1 must come with at least one newly masked breakpoint, other statuses with an unchanged mask',
               'status 0 is read as "success": whenever the least-squares problem on the surviving breakpoints is unique and well conditioned (oracle: full rank, cond <= 1e4) the returned spline must be that solution - also when a segment is empty but the rank is full through its neighbours, and after breakpoints were dropped',
               'repeated fits on one object: interior abscissae moved by +0.3/-0.2 of the local gap, same length and end points; each fit is judged against the dense solution of its own data']
ASSUMPTIONS += ['zero-weight data outside the breakpoint range: breakpoints laid over the positively weighted points only (as iterfit does) with 0..3 leading and 0..3 trailing zero weights; such points have no say in the fit',
                'y is finite everywhere; at zero-weight points it is altered by +1000 and replaced by huge finite sentinels (+-1e20, 1e25, +-1e30, +-float64 max, -9999), on all zero-weight points and on each one alone; NaN/inf at zero weight is outside the claim (HEAD raises ValueError from scipy there - see findings/C09.md)',
                'x, y and invvar are also handed over as strided views, columns of 2-D arrays, negative-stride views, big-endian, float32 (oracle on the rounded values, cond <= 100, tolerance 1e-5 + 3e-7*cond^2) and read-only arrays, one argument at a time and all three together']

COND_MAX = 1e4
SENTINELS = {'1e20': 1e20, '-1e20': -1e20, '1e25': 1e25, '1e30': 1e30, '-1e30': -1e30,
             'max': float(np.finfo(np.float64).max), '-max': -float(np.finfo(np.float64).max), '-9999': -9999.0}


# ------------------------------------------------------------------ menus
def data_x(fam, n):
    i = np.arange(n, dtype=np.float64)
    if fam == 'uni':
        return i
    if fam == 'clu':
        return i * i / float(n - 1)
    raise ValueError(fam)


KNOTS = [['nbkpts', 2], ['nbkpts', 3], ['nbkpts', 4], ['nbkpts', 5], ['nbkpts', 8],
         ['grid', [0, 1, 5]], ['grid', [0, 2, 3, 5]], ['grid', [0, 1, 2, 4, 5]]]


def knot_kwargs(x, spec):
    if spec[0] == 'nbkpts':
        return {'nbkpts': int(spec[1])}
    a, b = float(x.min()), float(x.max())
    return {'bkpt': np.array([a + (b - a) * j / 5.0 for j in spec[1]], dtype=np.float64)}


def weights(n, zero, wpat):
    w = np.ones(n)
    if wpat == 1:
        w = np.array([(0.25, 4.0, 1.0)[i % 3] for i in range(n)])
    w[list(zero)] = 0.0
    return w


def rhs_vector(spec, x, w):
    kind = spec[0]
    n = len(x)
    if kind == 'unit':
        y = np.zeros(n)
        y[spec[1]] = 1.0
    elif kind == 'mono':
        y = (x / max(1.0, float(np.max(np.abs(x))))) ** spec[1]
    elif kind == 'generic':
        y = np.array([((7 * i + 3) % 11) - 5.0 for i in range(n)])
    elif kind == 'perturbed':
        y = np.array([((7 * i + 3) % 11) - 5.0 for i in range(n)])
        y[w <= 0] += 1000.0
    elif kind == 'sentinel':
        # huge finite placeholder values at zero-weight points: ['sentinel', name, 'all' | j]  (j-th zero-weight point only)
        y = np.array([((7 * i + 3) % 11) - 5.0 for i in range(n)])
        zw = np.nonzero(w <= 0)[0]
        tgt = zw if spec[2] == 'all' else zw[[spec[2]]]
        y[tgt] = SENTINELS[spec[1]]
    else:
        raise ValueError(kind)
    return y


def make_sset(case):
    from pydl.pydlutils.bspline import bspline
    x = data_x(case['fam'], case['n'])
    if case.get('kfrom') == 'good':
        # breakpoints laid over the positively weighted points only (what iterfit does): zero-weight data at the ends
        # then lie OUTSIDE the breakpoint range at fit time
        xg = x[weights(len(x), case['zero'], case['wpat']) > 0]
        return x, bspline(xg.copy(), nord=case['k'], **knot_kwargs(xg, case['knots']))
    return x, bspline(x.copy(), nord=case['k'], **knot_kwargs(x, case['knots']))


OUTSIDE = ':zero-weight-data-outside-breakpoint-range'


def _tag_outside(case, bad):
    return [(sg + OUTSIDE, msg) for sg, msg in bad] if case.get('kfrom') == 'good' else bad


def classify(t, k, x, w):
    """-> (wellposed, cond, (A_right, A_left)) by an independent test."""
    g = w > 0
    Ar = _bsp.design_for_fit(t, k, x, 'right')
    Al = _bsp.design_for_fit(t, k, x, 'left')
    segs = _bsp.segments(t, k)
    xg = x[g]
    supported = all(np.any((xg >= a) & (xg <= b)) for a, b in segs)
    conds = []
    for A in (Ar, Al):
        _c, rank, cond = _bsp.wlsq(A, np.zeros(len(x)), w)
        conds.append(cond if rank == A.shape[1] else np.inf)
    cond = max(conds)
    return bool(supported and cond <= COND_MAX), cond, (Ar, Al)


def where_raised(tb):
    """Name of the innermost function of bspline.py in a traceback."""
    name = '?'
    for fr in traceback.extract_tb(tb):
        if fr.filename.endswith('bspline.py'):
            name = fr.name
    return name


def _status_kind(st):
    if isinstance(st, (bool, np.bool_)):
        return None
    if isinstance(st, (int, np.integer)):
        st = int(st)
        if st in (-2, -1, 0) or st > 0:
            return st
    return None


# ------------------------------------------------------------------ part F
@_bsp.guarded(lambda bad: (bad, 'bad:check-exception', True, None))
def check_fit(case, pre=None):
    """One well-posed fit.  -> (list of (sig, msg), outcome, nontrivial)"""
    x, s = make_sset(case)
    k = case['k']
    t = np.asarray(s.breakpoints, dtype=np.float64)
    w = weights(len(x), case['zero'], case['wpat'])
    well, cond, (Ar, Al) = pre if pre is not None else classify(t, k, x, w)
    if not well:
        return [('replay:not-well-posed', '')], 'skip', False, None
    y = rhs_vector(case['rhs'], x, w)
    keep = (x.copy(), y.copy(), w.copy())
    bad = []
    try:
        with warnings.catch_warnings():
            warnings.simplefilter('ignore')
            st, yfit = s.fit(x, y, w)
    except Exception as e:
        return _tag_outside(case, [('fit:well-posed:exception:%s@%s' % (type(e).__name__, where_raised(e.__traceback__)), repr(e))]), 'bad:exception', True, None
    if not (_status_kind(st) == 0):
        return _tag_outside(case, [('fit:well-posed:status!=0', 'status %r (cond %.3g)' % (st, cond))]), 'bad:status', True, None
    c = np.asarray(s.coeff, dtype=np.float64)
    yf = np.asarray(yfit, dtype=np.float64)
    g = w > 0
    # for order 1 a datum on an interior knot may belong to either neighbouring interval: try both conventions
    verdicts = []
    for A in ((Ar, Al) if k == 1 else (Ar,)):
        ref = _bsp.wlsq(A, y, w)[0]
        scale = max(1.0, float(np.max(np.abs(y[w > 0]))), float(np.max(np.abs(ref))))      # zero-weight y must not widen the tolerance
        tol = (1e-11 + 1e-13 * cond * cond) * scale
        err = float(np.max(np.abs(c - ref))) if (c.shape == ref.shape and np.all(np.isfinite(c))) else np.inf
        v = []
        if not err <= tol:
            v.append(('fit:coeff!=lstsq', 'max diff %.3g tol %.3g cond %.3g; got %s expected %s' % (err, tol, cond, c.tolist(), ref.tolist())))
        else:
            if yf.shape != y.shape or not np.all(np.abs(yf - A.dot(ref))[g] <= tol * 4):
                v.append(('fit:yfit!=spline-at-data', 'yfit %s expected %s' % (yf.tolist(), A.dot(ref).tolist())))
            if case['rhs'][0] == 'mono' and case['rhs'][1] < k:
                if not np.all(np.abs(A.dot(c) - y)[g] <= max(tol, 1e-9)):
                    v.append(('fit:polynomial-not-reproduced', 'degree %d order %d max err %.3g' % (case['rhs'][1], k, np.max(np.abs(A.dot(c) - y)[g]))))
        verdicts.append((v, ref))
    verdicts.sort(key=lambda vr: len(vr[0]))
    bad.extend(verdicts[0][0])
    refs = [verdicts[0][1]]
    if not (np.array_equal(x, keep[0]) and np.array_equal(y, keep[1]) and np.array_equal(w, keep[2])):
        bad.append(('fit:input-modified', ''))
    nontrivial = bool(np.any(np.abs(refs[0]) > 1e-9))
    label = case['rhs'][0] + (':' + str(case['rhs'][1]) if case['rhs'][0] == 'sentinel' else '')
    if bad and case['rhs'][0] == 'sentinel' and bad[0][0] == 'fit:coeff!=lstsq':
        bad[0] = ('fit:coeff!=lstsq:huge-y-at-zero-weight', bad[0][1])
    bad = _tag_outside(case, bad)
    return bad, ('ok:fit:' + label + (':outside' if case.get('kfrom') else ':zw' if len(case['zero']) else ':full')) if not bad else 'bad:' + bad[0][0], nontrivial, c


def linear_verdict(case, cond, cg, cp, csum):
    """cg/cp: coefficients for the generic / perturbed vector; csum: sum_i y_i * coefficients for e_i."""
    bad = []
    tol = (1e-11 + 1e-13 * cond * cond) * max(1.0, float(np.max(np.abs(cg)))) * 10
    if not np.max(np.abs(csum - cg)) <= tol:
        bad.append(('fit:not-linear-in-y', 'sum of unit responses differs by %.3g' % np.max(np.abs(csum - cg))))
    if len(case['zero']) and not np.max(np.abs(cp - cg)) <= tol:
        bad.append(('fit:depends-on-zero-weight-y', 'diff %.3g' % np.max(np.abs(cp - cg))))
    return bad, 'ok:linear' + (':zw' if len(case['zero']) else ':full') if not bad else 'bad:' + bad[0][0]


@_bsp.guarded(lambda bad: bad)
def check_linear(case):
    """Replay form: response to the generic vector == sum of responses to unit vectors; zero-weight y irrelevant."""
    x, s = make_sset(case)
    k = case['k']
    t = np.asarray(s.breakpoints, dtype=np.float64)
    n = len(x)
    w = weights(n, case['zero'], case['wpat'])
    well, cond, _A = classify(t, k, x, w)
    if not well:
        return [('replay:not-well-posed', '')]

    def run(y):
        _x, s2 = make_sset(case)
        with warnings.catch_warnings():
            warnings.simplefilter('ignore')
            st, _yf = s2.fit(x, y, w)
        return np.asarray(s2.coeff, dtype=np.float64)
    try:
        yg = rhs_vector(['generic'], x, w)
        cg = run(yg)
        cp = run(rhs_vector(['perturbed'], x, w))
        csum = np.zeros_like(cg)
        for i in range(n):
            if w[i] > 0:
                e = np.zeros(n)
                e[i] = 1.0
                csum += yg[i] * run(e)
    except Exception as e:
        return [('fit:well-posed:exception:%s@%s' % (type(e).__name__, where_raised(e.__traceback__)), repr(e))]
    return linear_verdict(case, cond, cg, cp, csum)[0]


# ------------------------------------------------------------------ part I
def status0_optimal(s, k, x, y, w, stage):
    """Status 0 claims success: if the least-squares problem on the surviving (unmasked) breakpoints has a unique,
    well-conditioned solution (full column rank, cond <= COND_MAX, by the oracle), the returned spline must be it.
    Compared through value() at the positively weighted abscissae.  No claim otherwise."""
    m = np.asarray(s.mask, dtype=bool)
    ts = np.asarray(s.breakpoints, dtype=np.float64)[m]
    if len(ts) < 2 * k or np.any(np.diff(ts) < 0):
        return []
    g = w > 0
    conds, refs = [], []
    for side in (('right', 'left') if k == 1 else ('left',)):
        A = _bsp.design_for_fit(ts, k, np.clip(x, ts[k - 1], ts[len(ts) - k]), side)
        c, rank, cond = _bsp.wlsq(A, y, w)
        conds.append(cond if rank == A.shape[1] else np.inf)
        refs.append(A.dot(c))
    cond = max(conds)
    if not cond <= COND_MAX:
        return []
    try:
        with warnings.catch_warnings():
            warnings.simplefilter('ignore')
            v, _vm = s.value(x.copy())
    except Exception as e:
        return [('fit:status0:value-raises:%s@%s:%s' % (type(e).__name__, where_raised(e.__traceback__), stage), repr(e))]
    v = np.asarray(v, dtype=np.float64)
    scale = max(1.0, float(np.max(np.abs(y[g]))))
    tol = (1e-10 + 1e-13 * cond * cond) * scale
    if not any(np.all(np.abs(v - r)[g] <= tol) for r in refs):
        return [('fit:status0-but-not-lstsq-on-surviving-breakpoints:' + stage,
                 'breakpoint mask %s cond %.3g max diff %.3g' % (m.astype(int).tolist(), cond, min(float(np.max(np.abs(v - r)[g])) for r in refs)))]
    return []


# ------------------------------------------------------------------ part Y: memory layout / dtype of x, y, invvar
@_bsp.guarded(lambda bad: (bad, 'bad:check-exception', None))
def check_layout(case):
    """fit() with x, y or invvar (or all three) handed over as a strided view, a column of a 2-D array, a negative-stride
    view, big-endian, float32 or read-only.  Same values => same dense-lstsq coefficients; inputs untouched.
    -> (bad, outcome, skip_reason)"""
    x0, s = make_sset(case)
    k = case['k']
    t = np.asarray(s.breakpoints, dtype=np.float64)
    w0 = weights(len(x0), case['zero'], case['wpat'])
    y0 = rhs_vector(['generic'], x0, w0)
    name, which = case['layout']
    arrs = {}
    for key, a in (('x', x0), ('y', y0), ('w', w0)):
        arrs[key] = _bsp.layout(a, name) if which in (key, 'all') else a.copy()
    xe, ye, we = (np.asarray(arrs[key], dtype=np.float64) for key in ('x', 'y', 'w'))     # the values actually passed
    well, cond, (Ar, Al) = classify(t, k, xe, we)
    f32x = name == 'float32' and which in ('x', 'all')
    if not well or (f32x and cond > 100):
        return [], 'skip', 'layout layer: not well-posed (or cond > 100 with float32 abscissae)'
    keep = {key: (arrs[key].tobytes(), arrs[key].dtype, arrs[key].strides) for key in arrs}
    tag = 'fit:layout:%s:%s' % (name, which)
    try:
        with warnings.catch_warnings():
            warnings.simplefilter('ignore')
            st, yfit = s.fit(arrs['x'], arrs['y'], arrs['w'])
    except Exception as e:
        return [('%s:exception:%s@%s' % (tag, type(e).__name__, where_raised(e.__traceback__)), repr(e))], 'bad:exception', None
    if _status_kind(st) != 0:
        return [(tag + ':status!=0', 'status %r' % (st,))], 'bad:status', None
    bad = []
    c = np.asarray(s.coeff, dtype=np.float64)
    errs = []
    for A in ((Ar, Al) if k == 1 else (Ar,)):
        ref = _bsp.wlsq(A, ye, we)[0]
        scale = max(1.0, float(np.max(np.abs(ye[we > 0]))), float(np.max(np.abs(ref))))
        errs.append((float(np.max(np.abs(c - ref))) if c.shape == ref.shape and np.all(np.isfinite(c)) else np.inf) / scale)
    tol = (1e-5 + 3e-7 * cond * cond) if f32x else (1e-11 + 1e-13 * cond * cond)
    if not min(errs) <= tol:
        bad.append((tag + ':coeff!=lstsq', 'relative diff %.3g tol %.3g cond %.3g' % (min(errs), tol, cond)))
    for key in arrs:
        if (arrs[key].tobytes(), arrs[key].dtype, arrs[key].strides) != keep[key]:
            bad.append((tag + ':input-modified:' + key, ''))
    return bad, ('ok:layout:%s:%s' % (name, which)) if not bad else 'bad:' + bad[0][0], None


# ------------------------------------------------------------------ part R: several fits on one object
def moved_x(x):
    """Same length, same end points, interior abscissae moved (still strictly inside their old gaps)."""
    x2 = np.array(x, dtype=np.float64)
    for i in range(1, len(x) - 1, 2):
        x2[i] = x[i] + 0.3 * (x[i + 1] - x[i])
    for i in range(2, len(x) - 1, 4):
        x2[i] = x[i] - 0.2 * (x[i] - x[i - 1])
    return x2


@_bsp.guarded(lambda bad: (bad, 'bad:check-exception'))
def check_refit(case):
    """fit() repeatedly on ONE bspline object: y changed, interior x moved, and back.  Every fit that is well-posed
    (by the oracle) must return 0 and the dense-lstsq coefficients of ITS OWN data."""
    x1, s = make_sset(case)
    k = case['k']
    t = np.asarray(s.breakpoints, dtype=np.float64)
    n = len(x1)
    w = weights(n, case['zero'], case['wpat'])
    x2 = moved_x(x1)
    ya = rhs_vector(['generic'], x1, w)
    yb = 1.0 + 0.5 * ya[::-1]
    steps = [('first', x1, ya), ('y-changed', x1, yb), ('interior-x-moved', x2, yb), ('x-moved-back', x1, yb), ('x-moved-y-changed', x2, ya)]
    bad = []
    done = []
    for name, xs, y in steps:
        well, cond, (Ar, Al) = classify(t, k, xs, w)
        if not well:
            done.append(name + ':not-well-posed')
            continue
        try:
            with warnings.catch_warnings():
                warnings.simplefilter('ignore')
                st, _yf = s.fit(xs.copy(), y.copy(), w.copy())
        except Exception as e:
            bad.append(('fit:same-object:%s:exception:%s@%s' % (name, type(e).__name__, where_raised(e.__traceback__)), repr(e)))
            break
        if _status_kind(st) != 0:
            bad.append(('fit:same-object:%s:status!=0' % name, 'status %r' % (st,)))
            break
        c = np.asarray(s.coeff, dtype=np.float64)
        errs = []
        for A in ((Ar, Al) if k == 1 else (Ar,)):
            ref = _bsp.wlsq(A, y, w)[0]
            scale = max(1.0, float(np.max(np.abs(y))), float(np.max(np.abs(ref))))
            errs.append((float(np.max(np.abs(c - ref))) if c.shape == ref.shape and np.all(np.isfinite(c)) else np.inf) / scale)
        if not min(errs) <= (1e-11 + 1e-13 * cond * cond):
            bad.append(('fit:same-object:%s:coeff!=lstsq' % name, 'relative diff %.3g after %s' % (min(errs), done)))
            break
        done.append(name)
    nskip = sum(1 for d in done if d.endswith('not-well-posed'))
    return bad, ('ok:same-object:%dfits' % (len(done) - nskip)) if not bad else 'bad:' + bad[0][0]


@_bsp.guarded(lambda bad: (bad, 'bad:check-exception'))
def check_illposed(case, pre=None):
    x, s = make_sset(case)
    k = case['k']
    t = np.asarray(s.breakpoints, dtype=np.float64)
    w = weights(len(x), case['zero'], case['wpat'])
    if pre is None:
        pre = classify(t, k, x, w)
    if pre[0]:
        return [('replay:well-posed', '')], 'skip'
    y = rhs_vector(['generic'], x, w) + (x / max(1.0, float(x.max()))) ** (k - 1)
    chain = []
    bad = []
    g = w > 0
    trig = 'all-weights-zero' if not g.any() else ('fewer-good-points-than-order' if g.sum() < k else 'unsupported-segment-or-rank-deficient')
    for step in range(len(t) + 2):
        before = s.mask.copy()
        try:
            with warnings.catch_warnings():
                warnings.simplefilter('ignore')
                ret = s.fit(x, y, w)
        except Exception as e:
            bad.append(('fit:ill-posed:exception:%s@%s' % (type(e).__name__, where_raised(e.__traceback__)), '%r after statuses %s' % (e, chain)))
            break
        if not (isinstance(ret, tuple) and len(ret) == 2) or _status_kind(ret[0]) is None:
            bad.append(('fit:ill-posed:undocumented-return', repr(ret)[:200]))
            break
        st = _status_kind(ret[0])
        chain.append(st)
        c = np.asarray(s.coeff, dtype=np.float64)
        if not np.all(np.isfinite(c)):
            bad.append(('fit:ill-posed:non-finite-coefficients', 'status %s coeff %s' % (chain, c.tolist())))
            break
        if not np.all(np.isfinite(np.asarray(ret[1], dtype=np.float64))):
            bad.append(('fit:ill-posed:non-finite-yfit', 'status %s' % chain))
            break
        mask = np.asarray(s.mask)
        if mask.shape != before.shape or mask.dtype != bool:
            bad.append(('fit:ill-posed:mask-corrupted', 'mask %r' % (mask,)))
            break
        dropped = int(before.sum() - mask.sum())
        if np.any(mask & ~before) or (st == -1) != (dropped > 0):
            bad.append(('fit:ill-posed:mask-inconsistent-with-status', 'status %d, %d breakpoints newly masked' % (st, dropped)))
            break
        if st != -1:
            if st == 0:
                bad.extend(status0_optimal(s, k, x, y, w, 'first-fit' if len(chain) == 1 else 'after-dropping-breakpoints'))
            break
    else:
        bad.append(('fit:ill-posed:refit-chain-does-not-terminate', str(chain)))
    bad = _tag_outside(case, bad)
    out = 'ok:ill:' + ('outside:' if case.get('kfrom') else '') + trig[:12] + ':' + ','.join(str(v) for v in chain[:4]) if not bad else 'bad:' + bad[0][0]
    return bad, out


# ------------------------------------------------------------------ part C
def to_band(A, bw):
    n = len(A)
    l = np.zeros((bw, n + bw), dtype=np.float64)
    for k in range(bw):
        for j in range(n - k):
            l[k, j] = A[j + k, j]
    return l


def from_band(Lb, n):
    bw = Lb.shape[0]
    L = np.zeros((n, n))
    for k in range(bw):
        for j in range(n - k):
            L[j + k, j] = Lb[k, j]
    return L


def factor_from_case(case):
    n, bw = case['n'], case['bw']
    L = np.diag(np.array(case['diag'], dtype=np.float64))
    if 'off' in case:
        it = iter(case['off'])
        for k in range(1, bw):
            for j in range(n - k):
                L[j + k, j] = next(it)
    else:
        p = case['pattern']
        for k in range(1, bw):
            for j in range(n - k):
                L[j + k, j] = ((3 * j + 5 * k + p) % 3) - 1
    return L


def is_success(first):
    return isinstance(first, (int, np.integer)) and not isinstance(first, (bool, np.bool_)) and int(first) == -1


@_bsp.guarded(lambda bad: bad)
def check_chol(case):
    from pydl.pydlutils.bspline import cholesky_band, cholesky_solve
    n, bw = case['n'], case['bw']
    L = factor_from_case(case)
    A = L.dot(L.T)
    var = case['variant']
    bad = []
    if var[0] == 'spd':
        lb = to_band(A, bw)
        keep = lb.copy()
        try:
            with warnings.catch_warnings():
                warnings.simplefilter('ignore')
                r = cholesky_band(lb)
        except Exception as e:
            return [('cholesky_band:spd:exception:' + type(e).__name__, repr(e))]
        if not (isinstance(r, tuple) and len(r) == 2 and is_success(r[0])):
            return [('cholesky_band:spd:reported-as-bad', repr(r[0]))]
        Lb = np.asarray(r[1], dtype=np.float64)
        if Lb.shape != lb.shape:
            return [('cholesky_band:spd:shape', str(Lb.shape))]
        Lg = from_band(Lb, n)
        if not np.all(np.abs(Lg.dot(Lg.T) - A) <= 1e-12 * np.max(np.abs(A))):
            bad.append(('cholesky_band:spd:LLt!=A', 'L %s A %s' % (Lg.tolist(), A.tolist())))
            return bad
        if not np.array_equal(lb, keep):
            bad.append(('cholesky_band:input-modified', ''))
        Ainv = np.linalg.inv(A)
        for i in range(n):
            b = np.zeros(n + bw)
            b[i] = 1.0
            try:
                xs = np.asarray(cholesky_solve(r[1], b), dtype=np.float64)
            except Exception as e:
                bad.append(('cholesky_solve:exception:' + type(e).__name__, repr(e)))
                break
            if xs.shape != b.shape:
                bad.append(('cholesky_solve:shape', str(xs.shape)))
                break
            tol = 1e-10 * max(1.0, float(np.max(np.abs(Ainv))))
            if not (np.all(np.abs(A.dot(xs[:n]) - b[:n]) <= tol * np.max(np.abs(A))) and np.all(xs[n:] == 0)):
                bad.append(('cholesky_solve:Ax!=b', 'x %s' % xs.tolist()))
                break
        return bad
    if var[0] == 'indef':
        j = var[1]
        B = A.copy()
        B[j, j] -= L[j, j] ** 2 + 0.5
        trig = 'positive-diagonal' if np.all(np.diag(B) > 0) else 'non-positive-diagonal'
        lb = to_band(B, bw)
    else:
        _v, k, j, what = var
        lb = to_band(A, bw)
        lb[k, j] = {'nan': np.nan, 'inf': np.inf, '-inf': -np.inf}[what]
        trig = what + ('-on-diagonal' if k == 0 else '-off-diagonal')
    try:
        with warnings.catch_warnings():
            warnings.simplefilter('ignore')
            r = cholesky_band(lb)
    except Exception as e:
        return [('cholesky_band:%s:exception:%s:%s' % (var[0], type(e).__name__, trig), repr(e))]
    if not (isinstance(r, tuple) and len(r) == 2) or is_success(r[0]):
        bad.append(('cholesky_band:%s:not-signalled:%s' % (var[0], trig), repr(r)[:200]))
    return bad


# ------------------------------------------------------------------ enumeration
def tasks(tier):
    T = tier == 'thorough'
    t = [{'part': 'C', 'bw': 1, 'n': 3}]
    for bw in (1, 2, 3):
        for n in range(bw, 6):
            if bw == 3 and n == 5:
                if T:
                    for d0 in itertools.product((1, 2), repeat=2):
                        for o0 in (-1, 0, 1):
                            t.append({'part': 'C', 'bw': 3, 'n': 5, 'dfix': list(d0), 'ofix': o0})
                continue
            if {'part': 'C', 'bw': bw, 'n': n} not in t:
                t.append({'part': 'C', 'bw': bw, 'n': n})
    for bw in (4, 5, 6):
        t.append({'part': 'C', 'bw': bw, 'pattern': True})
    for n in ([8, 10, 12] if T else [8, 10]):
        for fam in ('uni', 'clu'):
            for k in range(1, 6):
                for kn in KNOTS:
                    d = {'part': 'F', 'fam': fam, 'n': n, 'k': k, 'knots': kn, 'tier': tier}
                    if n == 12:
                        if fam == 'uni' and KNOTS.index(kn) % 2 == 1:
                            for z0 in range(4):
                                t.append(dict(d, maxzero=n, z0=z0, wpats=[0]))
                    elif T:
                        t.append(dict(d, maxzero=n, wpats=[0, 1]))
                    elif n == 8:
                        t.append(dict(d, maxzero=4, runs=True, wpats=[0, 1]))     # quick: every subset of <= 4 zero weights plus every run; thorough: all 2^8
                    elif (KNOTS.index(kn) + k) % 2 == (fam == 'clu'):
                        # quick, n = 10: each (order, knot option) on one of the two grid families (thorough runs both, all subsets)
                        t.append(dict(d, maxzero=2, runs=True, wpats=[0, 1]))
    for fam in ('uni', 'clu'):
        for k in range(1, 6):
            for kn in (KNOTS if T else KNOTS[1 + (k + (fam == 'clu')) % 2::4]):
                t.append({'part': 'F', 'fam': fam, 'n': 16, 'k': k, 'knots': kn, 'maxzero': 2 if T else 1, 'runs': True,
                          'wpats': [0, 1] if T else [0], 'tier': tier})
    return t


def _chol_cases(task):
    bw = task['bw']
    if task.get('pattern'):
        for n in range(bw, 8):
            for diag in itertools.product((1, 2), repeat=n):
                for p in (0, 1, 2):
                    yield {'part': 'C', 'bw': bw, 'n': n, 'diag': list(diag), 'pattern': p}
        return
    n = task['n']
    noff = sum(n - k for k in range(1, bw))
    for diag in itertools.product((1, 2), repeat=n):
        if 'dfix' in task and list(diag[:2]) != task['dfix']:
            continue
        for off in itertools.product((-1, 0, 1), repeat=noff):
            if 'ofix' in task and off[0] != task['ofix']:
                continue
            yield {'part': 'C', 'bw': bw, 'n': n, 'diag': list(diag), 'off': list(off)}


def run_task(task):
    acc = Acc()
    if task['part'] == 'C':
        for base in _chol_cases(task):
            n, bw = base['n'], base['bw']
            nz = ('off' in base and any(base['off'])) or ('pattern' in base)
            variants = [['spd']] + [['indef', j] for j in range(n)]
            for k in range(bw):
                for j in range(n - k):
                    for what in ('nan', 'inf', '-inf'):
                        variants.append(['nonfinite', k, j, what])
            for var in variants:
                case = dict(base, variant=var)
                bad = check_chol(case)
                acc.case(_bsp.ckey(case), bool(nz or var[0] != 'spd'),
                         ('ok:chol:' + var[0] + (':' + var[3] if var[0] == 'nonfinite' else '')) if not bad else 'bad:' + bad[0][0], sample=case)
                for sig, msg in bad:
                    acc.violation(sig, case, msg)
        return acc
    # ---- fits
    fam, n, k = task['fam'], task['n'], task['k']
    x = data_x(fam, n)
    knots = [task['knots']]
    subsets = []
    for r in range(0, task['maxzero'] + 1):
        for z in itertools.combinations(range(n), r):
            subsets.append(z)
    if task.get('runs'):
        for start in range(n):
            for ln in range(3, n - start + 1):
                subsets.append(tuple(range(start, start + ln)))
    subsets = list(dict.fromkeys(subsets))          # a short run is also a small subset: enumerate it once
    if 'z0' in task:
        # split the 2^n subsets of a 12-point grid over 4 shards by membership of points 0 and 1
        want = (bool(task['z0'] & 1), bool(task['z0'] & 2))
        subsets = [z for z in subsets if ((0 in z), (1 in z)) == want]
    for kn in knots:
        base0 = {'fam': fam, 'n': n, 'k': k, 'knots': kn}
        try:
            _x, s0 = make_sset(dict(base0))
            t = np.asarray(s0.breakpoints, dtype=np.float64)
        except Exception as e:      # constructor trouble is C08's subject; record and move on
            case = dict(base0, part='I', zero=[], wpat=0)
            acc.case(_bsp.ckey(case), True, 'bad:constructor', sample=case)
            acc.violation('fit:constructor-exception:' + type(e).__name__, case, repr(e))
            continue
        for z in subsets:
            for wpat in task['wpats']:
                if wpat == 1 and len(z) > (4 if task.get('tier') == 'thorough' else 2):
                    continue
                w = weights(n, z, wpat)
                pre = classify(t, k, x, w)
                base = dict(base0, zero=list(z), wpat=wpat)
                if not pre[0]:
                    case = dict(base, part='I')
                    bad, out = check_illposed(case, pre)
                    acc.case(_bsp.ckey(case), True, out, sample=case)
                    for sig, msg in bad:
                        acc.violation(sig, case, msg)
                    continue
                rhs = [['mono', d] for d in range(k)] + [['generic'], ['perturbed']]
                if (wpat == 0 or len(z) <= 1) and (len(z) <= 2 or task.get('tier') == 'thorough'):
                    rhs = [['unit', i] for i in range(n) if w[i] > 0] + rhs        # linearity basis (the weight pattern does not enter the clause)
                if len(z):
                    Tt = task.get('tier') == 'thorough'
                    rhs += [['sentinel', v, 'all'] for v in (SENTINELS if Tt else ('1e30', '-1e20', 'max'))]
                    if len(z) > 1:
                        rhs += [['sentinel', v, j] for j in range(len(z)) for v in (('1e25', '-1e30', '-max') if Tt else ('1e25',))]
                    elif not Tt:
                        rhs += [['sentinel', '1e25', 0]]
                got = {}
                yg = rhs_vector(['generic'], x, w)
                csum = 0.0
                for r in rhs:
                    case = dict(base, part='F', rhs=r)
                    bad, out, nt, c = check_fit(case, pre)
                    acc.case(_bsp.ckey(case), nt, out, sample=case)
                    for sig, msg in bad:
                        acc.violation(sig, case, msg)
                    if r[0] == 'sentinel':
                        continue
                    if c is None:
                        csum = None
                    elif r[0] == 'unit' and csum is not None:
                        csum = csum + yg[r[1]] * c
                    else:
                        got[r[0]] = c
                if tuple(z) in ((), (2,), (0, n - 1)) or (task.get('tier') == 'thorough' and len(z) <= 2):
                    for name in _bsp.LAYOUTS[1:]:
                        for which in ('x', 'y', 'w', 'all'):
                            case = dict(base, part='Y', layout=[name, which])
                            bad, out, skip = check_layout(case)
                            if skip:
                                acc.skip(skip)
                                continue
                            acc.case(_bsp.ckey(case), True, out, sample=None)
                            for sig, msg in bad:
                                acc.violation(sig, case, msg)
                case = dict(base, part='R')
                bad, out = check_refit(case)
                acc.case(_bsp.ckey(case), True, out, sample=None)
                for sig, msg in bad:
                    acc.violation(sig, case, msg)
                if csum is not None and rhs[0][0] == 'unit' and 'generic' in got and 'perturbed' in got:
                    case = dict(base, part='L')
                    bad, out = linear_verdict(case, pre[1], got['generic'], got['perturbed'], csum)
                    acc.case(_bsp.ckey(case), True, out, sample=None)
                    for sig, msg in bad:
                        acc.violation(sig, case, msg)
        # ---- zero-weight data outside the breakpoint range: knots laid over the good points only, leading / trailing zero weights
        Tt = task.get('tier') == 'thorough'
        if task.get('z0', 0) != 0:
            continue
        for a, b in itertools.product(range(4), range(4)):
            if a + b == 0 or a + b > n - 2:
                continue
            ends = list(range(a)) + list(range(n - b, n))
            for z in [ends] + ([sorted(ends + [n // 2])] if Tt and n // 2 not in ends else []):
                for wpat in (0, 1):
                    w = weights(n, z, wpat)
                    if int((w > 0).sum()) < 2:
                        continue        # a single good point gives a zero-length breakpoint range (degenerate knots, not a fit question)
                    base = dict(base0, zero=list(z), wpat=wpat, kfrom='good')
                    try:
                        _x, s2 = make_sset(dict(base))
                        t2 = np.asarray(s2.breakpoints, dtype=np.float64)
                    except Exception as e:
                        acc.skip('outside-range layer: constructor raised ' + type(e).__name__)
                        continue
                    pre = classify(t2, k, x, w)
                    if not pre[0]:
                        case = dict(base, part='I')
                        bad, out = check_illposed(case, pre)
                        acc.case(_bsp.ckey(case), True, out, sample=None)
                        for sig, msg in bad:
                            acc.violation(sig, case, msg)
                        continue
                    for r in [['generic'], ['mono', k - 1], ['perturbed'], ['sentinel', '1e30', 'all']]:
                        case = dict(base, part='F', rhs=r)
                        bad, out, nt, c = check_fit(case, pre)
                        acc.case(_bsp.ckey(case), nt, out, sample=None)
                        for sig, msg in bad:
                            acc.violation(sig, case, msg)
    return acc


def replay(case):
    if case['part'] == 'C':
        return check_chol(case)
    if case['part'] == 'I':
        return check_illposed(case)[0]
    if case['part'] == 'Y':
        return check_layout(case)[0]
    if case['part'] == 'R':
        return check_refit(case)[0]
    if case['part'] == 'L':
        return check_linear(case)
    return check_fit(case)[0]
