"""C01 — yanny: tables and header pairs written to a new file read back unchanged (exhaustive small scope)."""
import itertools
import os

import numpy as np
from astropy.table import Table
from astropy.io import registry as _reg

from mc.core import Acc
from mc.props import _yanny as Y
from pydl.pydlutils.yanny import (yanny, write_ndarray_to_yanny, write_table_yanny, read_table_yanny, is_yanny)

PROP = 'C01'
LEVEL = 'exploration'
ENGINE = 'E1'
TECHNIQUE = 'model checking: bounded-exhaustive enumeration of tables/headers/struct names (small scope), write then read on the real code, input arrays as reference model'
LEVEL_TEXT = ('every table of <=3 columns over 11 column kinds and <=3 rows over extreme-value cell alphabets, every file of <=3 tables with '
              'colliding struct names, every ordered header of <=3 entries, both entry-point families and 9 refused dtypes is written and read '
              'back on the real code and compared bit-exactly with the input')
LEVEL_NOTE = ('holds inside the enumerated alphabets only (no claim for >3 columns/rows, floats outside the alphabet, strings >8 bytes, header '
              'values with leading/trailing blanks); trusted: numpy, astropy.table, the comparison code in mc/props/_yanny.py')
RULE = ('L7: tables of 255..2500 rows alone and followed by a second table; L6: 1..5 long-string columns (50-60 characters with blanks/tabs, rows up to ~330 characters) x all cell assignments, and 8..48-column tables; L1: each column kind alone / before an int anchor / after a string, rows 0..3, ALL cell tuples over the kind alphabet; L1b: all ordered pairs of scalar '
        'kinds x all cell pairs; L2: all ordered tuples of 1..3 kinds x rows 0..2 x all assignments of 2 representative cells; L3: all ordered '
        'lists of 1..3 of 4 tables x all ordered struct-name selections from 5 colliding names x all ordered headers of <=3 of 6 values; '
        'L4: Table writer/reader (function and registry; bytes and str columns; meta); L5: 9 unsupported dtypes in 3 positions must raise. '
        'Non-trivial: at least one data row or header pair, or a refusal case. Distinct: distinct case descriptions.')
ASSUMPTIONS = ['string cells include inner empty braces (a{}b, a{ }b), a trailing open brace (x{) and a header value with inner braces', 'header values carry no leading/trailing blanks (the format separates key and value by blanks and cannot express them)',
               'cell values come from the alphabets in mc/props/_yanny.py; documented inexpressible texts are not generated',
               'Table entry points are registered by the harness exactly as the module docstring prescribes']

_registered = False


def _register():
    global _registered
    if not _registered:
        _reg.register_identifier('yanny', Table, is_yanny, force=True)
        _reg.register_reader('yanny', Table, read_table_yanny, force=True)
        _reg.register_writer('yanny', Table, write_table_yanny, force=True)
        _registered = True


HDR_VALUES = ['abc', 42, 2.5, '', 'multi  blank   text', 'semi;colon x', 'br{}ace { } x{']
NAMES = ['a', 'ab', 'abc', 'flux', 'MyStruct', 'bc']      # a / ab / abc: beginnings of each other; bc: an ending of abc
REP_TABLES = [
    {'cols': [['flux', 'i4'], ['c1', 'f8']], 'rows': [[2147483647, 1.0 / 3.0], [-1, float('-inf')]]},
    {'cols': [['c0', 'S'], ['c1', 'i4[2]']], 'rows': [['a b', [1, -2147483648]]]},
    {'cols': [['e0', 'enum'], ['c1', 'f4']], 'rows': [['GREEN_X', float(np.float32(0.1))], ['B', float('nan')]]},
    {'cols': [['c0', 'S[2]'], ['c1', 'i2']], 'rows': []},
    {'cols': [['e0', 'i2'], ['c1', 'f8[2]']], 'rows': [[7, [0.5, -0.0]]]},     # numeric column named like the enum column elsewhere
]
REFUSED = ['u1', 'u2', 'u4', 'u8', 'i1', 'b1', 'f2', 'c8', 'c16']


# ------------------------------------------------------------------ one case
def _cmp_table(where, spec, rec, strict_width, bad):
    ecols, erows = Y.expected_table(spec['cols'], spec['rows'])
    try:
        acols, arows = Y.actual_table(rec)
    except Exception as e:  # unreadable result
        bad.append(('%s:unreadable:%s' % (where, type(e).__name__), repr(e)))
        return
    if [c[0] for c in acols] != [c[0] for c in ecols]:
        bad.append((where + ':column-order', 'got %s expected %s' % (acols, ecols)))
        return
    for a, e in zip(acols, ecols):
        if a[1] != e[1] or (e[2] is not None and a[2] != e[2]) or a[3] != e[3]:
            bad.append((where + ':column-type', 'column %s read as %s expected %s' % (a[0], a, e)))
            return
    if strict_width:
        w = Y.string_widths(rec)
        for n, k in spec['cols']:
            if Y.base_kind(k) == 'L' and w.get(n) != Y.LONGW:
                bad.append((where + ':string-width', 'column %s width %s expected %d' % (n, w.get(n), Y.LONGW)))
            if Y.base_kind(k) == 'S' and w.get(n) != Y.STRW:
                bad.append((where + ':string-width', 'column %s width %s expected %d' % (n, w.get(n), Y.STRW)))
    if len(arows) != len(erows):
        bad.append((where + ':row-count', 'got %d expected %d' % (len(arows), len(erows))))
        return
    for i, (a, e) in enumerate(zip(arows, erows)):
        if a != e:
            cls = 'cell'
            for (n, k), av, evv in zip(spec['cols'], a, e):
                if av != evv:
                    cls = {'S': 'string', 'L': 'string', 'enum': 'enum', 'enum2': 'enum', 'f4': 'float', 'f8': 'float'}.get(Y.base_kind(k), 'int')
                    if cls == 'string' and '{{}}' in ''.join(evv if isinstance(evv, tuple) else (evv,)):
                        cls = 'string:contains-{{}}'
                    break
            bad.append(('%s:%s-value' % (where, cls), 'row %d got %r expected %r' % (i, a, e)))
            return


def _cmp_pairs(where, hdr, keys, getter, bad):
    exp = [(k, str(v)) for k, v in (hdr or [])]
    try:
        got = [(k, getter(k)) for k in keys]
    except Exception as e:
        bad.append(('%s:pairs-unreadable:%s' % (where, type(e).__name__), repr(e)))
        return
    if got != exp:
        bad.append((where + ':pairs', 'got %r expected %r' % (got, exp)))


def check_case(case, d=None):
    own = d is None
    if own:
        td = Y.TempDir()
        d = td.__enter__()
    try:
        return _check_case(case, d)
    finally:
        if own:
            td.__exit__()


def _check_case(case, d):
    _register()
    Y.fix_clock()
    bad = []
    path = Y.fresh(os.path.join(d, 'case.par'))
    entry = case['entry']
    if entry == 'refuse':
        t = case['dtype']
        dt = {'alone': [('c0', t)], 'after': [('c0', 'i4'), ('c1', t)], 'array': [('c0', t, (2,))],
              'before': [('c0', t), ('c1', 'f8')]}[case['pos']]
        arr = np.zeros((2,), dtype=np.dtype(dt))
        try:
            write_ndarray_to_yanny(path, arr, structnames='abc')
        except Exception:
            if os.path.exists(path):
                # "refused with an exception, never written wrongly": a refused table must not be on disk afterwards
                bad.append(('refuse:file-left-behind:' + t, 'the refused write left a file: ' + open(path).read()[-200:]))
            return bad
        bad.append(('refuse:accepted:' + t, 'dtype %s in position %s was written without an exception' % (t, case['pos'])))
        return bad

    tables = case['tables']
    ustr = bool(case.get('ustr'))
    arrays = [Y.build_recarray(t['cols'], t['rows'], ustr) for t in tables]
    allcols = [c for t in tables for c in t['cols']]
    enums = Y.enums_for(allcols)
    hdr = case.get('hdr')
    hdrd = None
    if hdr:
        from collections import OrderedDict
        hdrd = OrderedDict((k, v) for k, v in hdr)
    names = [t['name'] for t in tables]
    results = []   # (where, object supporting [NAME], pairs keys, getter)
    try:
        if entry == 'ndarray':
            par = write_ndarray_to_yanny(path, arrays if len(arrays) > 1 or case.get('aslist') else arrays[0],
                                         structnames=names if len(names) > 1 or case.get('aslist') else names[0],
                                         enums=enums, hdr=hdrd)
            results.append(('returned', par))
        else:
            tab = Table(arrays[0])
            if hdrd:
                tab.meta = hdrd
            if entry == 'tablefn':
                write_table_yanny(tab, path, tablename=names[0])
            else:
                tab.write(path, format='yanny', tablename=names[0])
    except Exception as e:
        trig = _trigger(case)
        bad.append(('write:exception:%s%s' % (type(e).__name__, trig), repr(e)[:300]))
        return bad
    try:
        results.append(('reread', yanny(path)))
    except Exception as e:
        bad.append(('reread:exception:%s%s' % (type(e).__name__, _trigger(case)), repr(e)[:300]))
        return bad
    for where, par in results:
        exp_names = [n.upper() for n in names]
        if list(par.tables()) != exp_names:
            bad.append((where + ':table-names', 'got %s expected %s' % (par.tables(), exp_names)))
            continue
        for t in tables:
            _cmp_table(where, t, par[t['name'].upper()], strict_width=not ustr, bad=bad)
        _cmp_pairs(where, hdr, par.pairs(), lambda k, p=par: p[k], bad)
    if entry in ('tablefn', 'tableio'):
        try:
            if entry == 'tablefn':
                back = read_table_yanny(path, names[0])
            else:
                back = Table.read(path, format='yanny', tablename=names[0])
        except Exception as e:
            bad.append(('tableread:exception:%s%s' % (type(e).__name__, _trigger(case)), repr(e)[:300]))
            return bad
        _cmp_table('tableread', tables[0], back.as_array(), strict_width=not ustr, bad=bad)
        _cmp_pairs('tableread', hdr, list(back.meta.keys()), lambda k: back.meta[k], bad)
    return bad


def _trigger(case):
    """Name an identifiable trigger condition of a failing case (for specific signatures)."""
    trig = []
    for t in case['tables']:
        if not t['rows'] and any(Y.is_array(k) for n, k in t['cols']):
            trig.append('zero-row-array-column')
            break
    if any('{{}}' in c for t in case['tables'] for row in t['rows'] for cell in row
           for c in (cell if isinstance(cell, list) else [cell]) if isinstance(c, str)):
        trig.append('string-contains-{{}}')
    names = [t['name'].upper() for t in case['tables']]
    cols = [n.upper() for t in case['tables'] for n, k in t['cols']]
    if any(a != b and a in b for a in names for b in names):
        trig.append('struct-name-substring')
    if any(a in c for a in names for c in cols):
        trig.append('struct-name-in-column-name')
    return (':' + '+'.join(trig)) if trig else ''


# ------------------------------------------------------------------ enumeration
def cells_for(kind):
    if Y.is_array(kind):
        sc = Y.scalar_cells(kind, in_array=True)
        return [list(c) for c in itertools.product(sc, repeat=Y.arr_len(kind))]
    return Y.scalar_cells(kind)


POS = ['single', 'anchor', 'afterstr']


def layout(kind, pos):
    if pos == 'single':
        return [['c0', kind]]
    if pos == 'anchor':
        return [['c0', kind], ['c1', 'i4']]
    return [['s0', 'S'], ['c0', kind]]


def wrap_row(pos, cell):
    return {'single': [cell], 'anchor': [cell, 7], 'afterstr': ['x y', cell]}[pos]


def tasks(tier):
    T = tier == 'thorough'
    t = [{'layer': 'L5'}]
    for kind in Y.KINDS:
        for pos in POS:
            n = len(cells_for(kind))
            maxr = 3 if (n <= 13 and T) else 2
            if n > 30 and not T:
                maxr = 2
            for r in range(0, maxr + 1):
                if r >= 2 and n > 30:
                    firsts = [f for f in range(n) if T or pos == 'single' or f % 3 == 0]
                    # quick: every third first cell for the two non-single layouts
                    for c in range(0, len(firsts), 8):
                        t.append({'layer': 'L1', 'kind': kind, 'pos': pos, 'rows': r, 'first': firsts[c:c + 8]})
                else:
                    t.append({'layer': 'L1', 'kind': kind, 'pos': pos, 'rows': r, 'first': None})
    scal = [k for k in Y.KINDS if not Y.is_array(k)]
    for k1 in scal:
        t.append({'layer': 'L1b', 'k1': k1})
    for ncol in (1, 2, 3) if T else (1, 2):
        if ncol < 3:
            t.append({'layer': 'L2', 'ncol': ncol, 'first': None})
        else:
            for k in Y.KINDS:
                for k2 in Y.KINDS:
                    t.append({'layer': 'L2', 'ncol': 3, 'first': [k, k2]})
    for ntab in (1, 2, 3):
        for sel in itertools.permutations(range(len(REP_TABLES)), ntab):
            t.append({'layer': 'L3', 'sel': list(sel), 'maxhdr': 3 if T else 1})
    for ncol in (1, 2, 3, 4, 5) if T else (1, 2, 3, 4):
        t.append({'layer': 'L6', 'ncol': ncol})
    t.append({'layer': 'L6wide'})
    t.append({'layer': 'L7'})
    for ustr in (False, True):
        for entry in ('tablefn', 'tableio'):
            t.append({'layer': 'L4', 'entry': entry, 'ustr': ustr, 'ncol': 1})
            for k in Y.KINDS:
                t.append({'layer': 'L4', 'entry': entry, 'ustr': ustr, 'ncol': 2, 'first': k})
    return t


def _do(acc, case, d):
    bad = check_case(case, d)
    nrows = sum(len(t['rows']) for t in case.get('tables', []))
    nontrivial = case['entry'] == 'refuse' or nrows > 0 or bool(case.get('hdr'))
    if bad:
        outcome = 'bad:' + bad[0][0]
    elif case['entry'] == 'refuse':
        outcome = 'ok:refused'
    else:
        outcome = 'ok:%s:%dtab:%drows:%dhdr' % (case['entry'], len(case['tables']), min(nrows, 3), len(case.get('hdr') or []))
    acc.case(repr(case), nontrivial, outcome, sample=case)
    for sig, msg in bad:
        acc.violation(sig, case, msg)


def run_task(task):
    acc = Acc()
    with Y.TempDir() as d:
        L = task['layer']
        if L == 'L5':
            for t in REFUSED:
                for pos in ('alone', 'after', 'array', 'before'):
                    _do(acc, {'entry': 'refuse', 'dtype': t, 'pos': pos}, d)
        elif L == 'L1':
            kind, pos, r = task['kind'], task['pos'], task['rows']
            cells = cells_for(kind)
            cols = layout(kind, pos)
            if task['first'] is None:
                it = itertools.product(cells, repeat=r)
            else:
                it = ((cells[f],) + rest for f in task['first'] for rest in itertools.product(cells, repeat=r - 1))
            for combo in it:
                rows = [wrap_row(pos, c) for c in combo]
                _do(acc, {'entry': 'ndarray', 'tables': [{'name': 'abc', 'cols': cols, 'rows': rows}]}, d)
        elif L == 'L1b':
            k1 = task['k1']
            for k2 in [k for k in Y.KINDS if not Y.is_array(k)]:
                for c1 in cells_for(k1):
                    for c2 in cells_for(k2):
                        _do(acc, {'entry': 'ndarray', 'tables': [{'name': 'abc', 'cols': [['c0', k1], ['c1', k2]],
                                                                  'rows': [[c1, c2]]}]}, d)
        elif L == 'L2':
            ncol = task['ncol']
            first = task['first'] or []
            for rest in itertools.product(Y.KINDS, repeat=ncol - len(first)):
                kinds = list(first) + list(rest)
                cols = [['c%d' % i, k] for i, k in enumerate(kinds)]
                for r in (0, 1, 2):
                    for assign in itertools.product((0, 1), repeat=r * ncol):
                        rows = [[Y.rep_cells(kinds[j])[assign[i * ncol + j]] for j in range(ncol)] for i in range(r)]
                        _do(acc, {'entry': 'ndarray', 'tables': [{'name': 'abc', 'cols': cols, 'rows': rows}]}, d)
        elif L == 'L3':
            sel = task['sel']
            hdrs = [[], [['struct', 'abc']], [['enum', 42], ['k1', 'x y']], [['k0', 'v'], ['STRUCT', 'u'], ['Enum', 2.5]]]
            for n in range(1, task['maxhdr'] + 1):
                hdrs += [[['k%d' % i, HDR_VALUES[v]] for i, v in enumerate(p)]
                         for p in itertools.permutations(range(len(HDR_VALUES)), n)]
            for names in itertools.permutations(NAMES, len(sel)):
                for hdr in hdrs:
                    tables = [dict(REP_TABLES[s], name=nm) for s, nm in zip(sel, names)]
                    _do(acc, {'entry': 'ndarray', 'tables': tables, 'hdr': hdr or None, 'aslist': True}, d)
        elif L == 'L6':
            # long rows: n long-string columns (blanks, tabs, empty) and an int anchor; rows of 60..330 characters
            ncol = task['ncol']
            cols = [['c%d' % i, 'L'] for i in range(ncol)] + [['z', 'i4']]
            for r in (1, 2):
                for assign in itertools.product(range(len(Y.LONG_CELLS)), repeat=ncol):
                    rows = [[Y.LONG_CELLS[(a + i) % len(Y.LONG_CELLS)] for a in assign] + [i] for i in range(r)]
                    for entry in ('ndarray', 'tablefn'):
                        _do(acc, {'entry': entry, 'ustr': False, 'hdr': None,
                                  'tables': [{'name': 'abc', 'cols': cols, 'rows': rows}]}, d)
        elif L == 'L6wide':
            # many columns: 8..48 numeric/string columns in one row
            for ncol in (8, 16, 24, 32, 48):
                for pattern in (['f8'], ['i8', 'f8'], ['S', 'f8', 'i4[2]'], ['f4[2]', 'S[2]']):
                    kinds = [pattern[i % len(pattern)] for i in range(ncol)]
                    cols = [['c%d' % i, k] for i, k in enumerate(kinds)]
                    for r in (0, 1, 2):
                        rows = [[Y.rep_cells(k)[(i + j) % 2] for j, k in enumerate(kinds)] for i in range(r)]
                        _do(acc, {'entry': 'ndarray', 'tables': [{'name': 'abc', 'cols': cols, 'rows': rows}]}, d)
        elif L == 'L7':
            # long tables: row counts around round numbers (buffering / block boundaries), alone and followed by a second table
            for n in (255, 256, 257, 999, 1000, 1001, 2000, 2500):
                big = {'name': 'abc', 'cols': [['seq', 'i4'], ['s', 'S']], 'rows': [[i, 'r%d' % (i % 7)] for i in range(n)]}
                _do(acc, {'entry': 'ndarray', 'tables': [big]}, d)
                _do(acc, {'entry': 'ndarray', 'aslist': True,
                          'tables': [big, {'name': 'tail', 'cols': [['c0', 'f8']], 'rows': [[0.5], [-0.0], [1.0 / 3.0]]}]}, d)
        elif L == 'L4':
            ncol = task['ncol']
            first = [task['first']] if task.get('first') else []
            for rest in itertools.product(Y.KINDS, repeat=ncol - len(first)):
                kinds = first + list(rest)
                if 'enum' in kinds or 'enum2' in kinds:
                    continue   # the Table writer has no enum argument
                cols = [['c%d' % i, k] for i, k in enumerate(kinds)]
                for r in (0, 1, 2):
                    for assign in itertools.product((0, 1), repeat=r * ncol):
                        rows = [[Y.rep_cells(kinds[j])[assign[i * ncol + j]] for j in range(ncol)] for i in range(r)]
                        for hdr in (None, [['k0', 'v 0'], ['k1', 5]], [['comments', 'v 1'], ['keywords', 5]], [['zero', 0], ['fzero', 0.0], ['empty', '']]):   # 'comments': a meta keyword astropy's own ascii writers treat specially
                            _do(acc, {'entry': task['entry'], 'ustr': task['ustr'], 'hdr': hdr,
                                      'tables': [{'name': 'abc', 'cols': cols, 'rows': rows}]}, d)
            if ncol == 1 and not task['ustr']:
                # full string alphabet through the Table path
                for pos in ('single', 'anchor'):
                    for combo in itertools.product(Y.STR_CELLS, repeat=2):
                        rows = [wrap_row(pos, c) for c in combo]
                        _do(acc, {'entry': task['entry'], 'ustr': False, 'hdr': None,
                                  'tables': [{'name': 'abc', 'cols': layout('S', pos), 'rows': rows}]}, d)
    return acc


def replay(case):
    return check_case(case)
