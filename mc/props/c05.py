"""C05 -- spheregroup partitions points into friends-of-friends components (DESIGN.md section 3, C05).

Layer A: every ordered tuple (with repetition) of 2..5 sites over a per-scene alphabet (covers all input orders).
Layer B: chains of 6..12 sites spaced 0.8 L that cross several chunks along RA, along Dec, diagonally and over the
         pole, with every single link widened to 1.3 L in turn, in every rotation and reversal of the input order.
Layer S: serpentines and combs (2-4 parallel rows joined at alternating / equal ends, one bridge removed in turn) that
         force multi-level merges of provisional per-chunk groups, in six input orders.
Layer P: all 720 input orders of fixed 6-point configurations that span chunks, the RA seam and the pole.
Layer F: 2-3 well separated fields (different chunks), each a 3-4 chain in every input permutation (forcing provisional
         groups that are created and then merged) plus 1-2 isolated sites listed last / first / in the middle; both field orders.
Layer Z: points at Dec = +90 / -90 exactly (the statement has no |Dec| < 90 exclusion): the pole under two RAs with
         near-polar neighbours within / beyond L, both poles in one all-sky set, chains with a site on the pole (layer B
         'through-pole'); every ordered tuple.  Violations on such inputs carry the signature suffix ':point-at-pole'.
Layer M: linking lengths 1 mas, 10 mas, 0.1 arcsec, 1 arcsec: every ordered tuple (exact duplicates included) over six
         compact sites with separations 0, 0.5, 0.8, 1.3, 2.5 x L at five declinations, both poles and across RA 0/360.
Oracle: connected components of {sep <= L} by union-find on brute-force separations (_sphere.sep_deg).
"""
import itertools
import math

import numpy as np

from mc.core import Acc
from mc.props import _sphere as S

PROP = 'C05'
LEVEL = 'exploration'
ENGINE = 'E1'
TECHNIQUE = ('model checking: bounded-exhaustive enumeration of ordered point tuples, cut chains and input permutations on '
             'the real spheregroup against a union-find connected-components reference model')
LEVEL_TEXT = ('every ordered tuple of 2-5 sites over per-scene alphabets (equator, RA seam, both poles, mid latitudes, all '
              'sky), every single-cut chain crossing chunks in every rotation/reversal and all 720 orders of fixed 6-point '
              'configurations are grouped by the real code for each linking length and chunk size of the menu and all four '
              'returned arrays are compared with the reference partition')
LEVEL_NOTE = ('holds for the enumerated scenes, linking lengths 1 mas..30 deg, chunk sizes (including ones the code clamps to '
              '4 L) and list lengths <= 12; configurations whose partition changes within 1e-9 relative of the linking length '
              'are do-not-care. Trusted: the separation formula and union-find in mc/props/_sphere.py, numpy.')
RULE = ('Layer A: per (scene, linking length L, chunk size) all n^2+..+n^5 ordered tuples with repetition over the first n sites '
        '(n=7 thorough, 6 quick) placed at multiples of 0.37 L. Layer B: per (scene, direction, L, chunk) chains of N sites spaced '
        '0.8 L with no cut or one link widened to 1.3 L, in all N rotations x 2 directions of the input order. Layer S: 2-4 rows of '
        '6 or 10 sites joined as serpentine/comb (4 patterns), each bridge removed in turn, rows along RA or Dec, 6 input orders. Layer P: all 720 '
        'orders of two 6-point configurations. Layer F: 2-3 fields 40 deg apart (4 cell alignments), each a chain of 3-4 sites in all '
        'permutations (product over two fields) + 1-2 isolated sites placed last/first/middle, both field orders. '
        'Layer Z: alphabets of 7 sites containing Dec=+-90 exactly (pole under two RAs, neighbours at 0.4-2.5 L; both poles): all ordered '
        'tuples with repetition of 2-4 (thorough 2-5) sites. '
        'Layer M: L in {1 mas, 10 mas, 0.1 arcsec, 1 arcsec} x 7 compact scenes: all ordered '
        'tuples with repetition (2-3 sites quick, 2-5 thorough) over 6 sites whose separations are 0/0.5/0.8/1.3/2.5 x L. A case is non-trivial when at least two distinct positions are within the linking '
        'length of each other (a group that has to be found); distinct = distinct (coordinates in input order, L, chunk size).')
ASSUMPTIONS = ['a case is do-not-care when the components of {sep <= L(1-1e-9)-1e-12} and {sep <= L(1+1e-9)+1e-12} differ',
               'the next[] chain may visit the members of a group in any order (the statement fixes only its start, coverage and end)',
               'multgroup/firstgroup/nextgroup are checked against the partition given by the returned ingroup, ingroup against the reference',
               'configurations whose predicted cell count exceeds the guard are skipped and listed under skipped']
MIN_OUTCOMES = 3
GUARD = 4000


# ------------------------------------------------------------------ one call + oracle
def _pole_tag(dec):
    return ':point-at-pole' if bool(np.any(np.abs(np.asarray(dec, dtype=float)) == 90.0)) else ''


def check_arrays(ra, dec, L, chunk, sep=None):
    from pydl.pydlutils.spheregroup import spheregroup
    from pydl.pydlutils import PydlutilsException
    n = len(ra)
    info = {}
    if sep is None:
        sep = S.sep_matrix(ra, dec, ra, dec)
    b = S.band(L)
    exp = S.components(sep, L - b)
    if exp != S.components(sep, L + b):
        info['dontcare'] = True
        return [], info
    ng = max(exp) + 1
    info['ngroups'] = ng
    info['nontrivial'] = bool(np.any((sep <= L - b) & (sep > 0)))
    try:
        res = spheregroup(ra, dec, L, chunksize=chunk)
    except PydlutilsException as e:
        msg = str(e)
        if 'cosDecMin' in msg:
            g = S.chunk_geometry(ra, dec, S.effective_chunk(L, chunk, True), max_cells=0)
            trig = ':top-decBound-above-90' if g.get('top_above_90') else ''
            return [('spheregroup:exception:cosDecMin' + trig + _pole_tag(dec), msg)], info
        return [('spheregroup:exception:PydlutilsException' + _pole_tag(dec), msg)], info
    except Exception as e:     # noqa
        return [('spheregroup:exception:' + type(e).__name__ + _pole_tag(dec), repr(e))], info
    try:
        ing, mult, first, nxt = [np.asarray(x) for x in res]
        ok = all(x.shape == (n,) and x.dtype.kind in 'iu' for x in (ing, mult, first, nxt))
    except Exception:     # noqa
        ok = False
    if not ok:
        return [('spheregroup:malformed-result', repr(res)[:300])], info
    ing_l = ing.tolist()
    bad = []
    if ing_l != exp:
        if min(ing_l) < 0 or max(ing_l) > n - 1:
            bad.append(('spheregroup:ingroup-out-of-range', 'ingroup %s' % ing_l))
        else:
            split = merged = None
            for i in range(n):
                for j in range(i + 1, n):
                    if exp[i] == exp[j] and ing_l[i] != ing_l[j] and split is None:
                        split = (i, j)
                    if exp[i] != exp[j] and ing_l[i] == ing_l[j] and merged is None:
                        merged = (i, j)
            if split is not None:
                # an edge of the reference graph that the code did not honour names the trigger
                edge = None
                for i in range(n):
                    for j in range(n):
                        if i != j and sep[i, j] <= L - b and ing_l[i] != ing_l[j]:
                            edge = (i, j)
                            break
                    if edge:
                        break
                trig = ''
                if edge:
                    m = S.effective_chunk(L, chunk, True)
                    t = {S.lost_pair_trigger(ra, dec, a, ra[c], dec[c], L, m, 'unattributed', 200000)
                         for a, c in (edge, edge[::-1])}
                    t = {x.replace(':unattributed', '') for x in t if x != 'unattributed'}
                    if t:
                        trig = ':' + '+'.join(sorted(t))
                bad.append(('spheregroup:split' + trig,
                            'points %s are chained within L=%g (link %s sep %.12g) but got groups %s, expected %s'
                            % (split, L, edge, sep[edge] if edge else float('nan'), ing_l, exp)))
            if merged is not None:
                bad.append(('spheregroup:merged', 'points %s are not chained within L=%g but share a group: got %s, expected %s'
                            % (merged, L, ing_l, exp)))
            if split is None and merged is None:
                bad.append(('spheregroup:numbering', 'groups not numbered by first appearance: got %s, expected %s' % (ing_l, exp)))
    # the other three arrays must describe the partition given by ingroup
    if not bad or bad[0][0] != 'spheregroup:ingroup-out-of-range':
        for g in range(n):
            members = [i for i in range(n) if ing_l[i] == g]
            tail = ':tail' if not members else ''
            if int(mult[g]) != len(members):
                bad.append(('spheregroup:multgroup' + tail, 'multgroup[%d]=%d, group has %d member(s); ingroup %s multgroup %s'
                            % (g, mult[g], len(members), ing_l, mult.tolist())))
                break
        for g in range(n):
            members = [i for i in range(n) if ing_l[i] == g]
            want = members[0] if members else -1
            if int(first[g]) != want:
                bad.append(('spheregroup:firstgroup' + (':tail' if not members else ''),
                            'firstgroup[%d]=%d, expected %d; ingroup %s firstgroup %s' % (g, first[g], want, ing_l, first.tolist())))
                break
        for g in range(n):
            members = [i for i in range(n) if ing_l[i] == g]
            if not members:
                continue
            seen = []
            j = members[0]
            while j != -1 and len(seen) <= n:
                if j < 0 or j >= n:
                    break
                seen.append(j)
                j = int(nxt[j])
            if j != -1 or sorted(seen) != members:
                bad.append(('spheregroup:nextgroup', 'chain of group %d from %d visits %s (ends %d), members %s; nextgroup %s'
                            % (g, members[0], seen, j, members, nxt.tolist())))
                break
    if bad and bool(np.any(np.abs(dec) == 90.0)):
        bad = [(sg + ':point-at-pole', msg) for sg, msg in bad]      # the input contains Dec = +-90 exactly
    info['outcome'] = ('bad:' + bad[0][0]) if bad else 'ok:%s-pts:%s-groups' % (n if n < 6 else '6+', ng if ng < 4 else '4+')
    return bad, info


def make_case(ra, dec, L, chunk):
    return {'ra': [float(x) for x in ra], 'dec': [float(x) for x in dec], 'L': float(L),
            'chunk': None if chunk is None else float(chunk)}


def check_case(case):
    bad, _ = check_arrays(np.array(case['ra'], dtype=float), np.array(case['dec'], dtype=float), case['L'], case['chunk'])
    return bad


def replay(case):
    return check_case(case)


def _one(acc, cfg, order, ra, dec, L, chunk, sep=None):
    bad, info = check_arrays(ra, dec, L, chunk, sep=sep)
    if info.get('dontcare'):
        acc.skip('dont-care: partition changes within the band around L')
        return
    acc.case((cfg, order), info.get('nontrivial', False), info.get('outcome', 'bad:' + bad[0][0] if bad else '?'))
    for sig, msg in bad:
        acc.violation(sig, make_case(ra, dec, L, chunk), msg)


# ------------------------------------------------------------------ menus
LENGTHS = [1.0 / 3600.0, 0.01, 0.1, 1.0, 5.0, 15.0, 30.0]
Q_LEN = {'equator': [0.01, 5.0], 'seam': [1.0 / 3600.0, 1.0], 'npole': [0.1, 15.0], 'spole': [1.0, 30.0],
         'mid60': [0.1, 15.0], 'mid-75': [0.01, 5.0], 'allsky': [5.0, 30.0]}
T_CF = [None, 1.0, 2.0, 4.0, 4.5, 8.0, 20.0]
Q_CF = [None, 2.0, 4.5]
CLAMPED = (1.0, 2.0)      # chunk sizes below 4 L: the code clamps them to 4 L (same computation as cf=4), smaller alphabet
CHAIN_SCENES = ['equator', 'seam', 'mid60', 'mid-75', 'npole', 'spole']
DIRS = ['ra', 'dec', 'diag']


def _chunk(L, cf):
    return None if cf is None else cf * L


def tasks(tier):
    T = tier == 'thorough'
    t = [{'layer': 'A', 'scene': 'equator', 'L': 1.0, 'cf': None, 'n': 4}]      # small determinism shard
    nA = 7 if T else 6
    for scene in S.SCENES:
        for L in (LENGTHS if T else Q_LEN[scene]):
            if S.scene_sites(scene, L, nA) is None:
                continue
            for cf in (T_CF if T else Q_CF):
                t.append({'layer': 'A', 'scene': scene, 'L': L, 'cf': cf, 'n': 5 if cf in CLAMPED else nA})
    for scene in CHAIN_SCENES:
        for d in (DIRS if scene not in ('npole', 'spole') else ['over-pole', 'through-pole']):
            for L in (LENGTHS if T else [0.01, 1.0, 15.0]):
                for cf in ([None, 4.0, 4.5, 8.0] if T else [None, 4.5]):
                    t.append({'layer': 'B', 'scene': scene, 'dir': d, 'L': L, 'cf': cf,
                              'sizes': list(range(6, 13)) if T else [6, 9, 12]})
    for scene in SNAKE_BASE:
        for L in (LENGTHS if T else [0.1, 5.0]):
            for cf in ([None, 4.0, 4.5, 8.0] if T else [None, 4.5]):
                t.append({'layer': 'S', 'scene': scene, 'L': L, 'cf': cf})
    for scene in S.MICRO_SCENES:
        for L in S.MICRO_LENGTHS:
            for cf in ([None, 4.0, 8.0, 20.0] if T else [None, 4.5]):
                t.append({'layer': 'M', 'scene': scene, 'L': L, 'cf': cf,
                          'lens': ([2, 3, 4, 5] if cf in (None, 4.0) else [2, 3, 4]) if T else [2, 3]})
    for dec0 in ((10.0, 50.0) if T else (10.0,)):
        for L, cfs in (((0.01, [None, 4.0, 8.0]), (1.0, [None, 4.5, 8.0]), (1.0 / 3600.0, [None])) if T
                       else ((0.01, [None]), (1.0, [4.5]))):
            for cf in cfs:
                for shift in ((0, 1, 2, 3) if T else (0, 2)):
                    t.append({'layer': 'F', 'dec0': dec0, 'L': L, 'cf': cf, 'shift': shift, 'full': bool(T)})
    for sg in (1.0, -1.0):
        for L in ([1.0 / 3600.0, 0.1, 1.0, 5.0, 15.0] if T else [1.0 / 3600.0, 0.1, 5.0]):
            for cf in ([None, 4.0, 8.0] if T else [None, 4.5]):
                t.append({'layer': 'Z', 'kind': 'cap', 'pole': sg, 'L': L, 'cf': cf, 'lens': [2, 3, 4, 5] if T else [2, 3, 4]})
    for L in ([5.0, 15.0, 30.0] if T else [5.0, 30.0]):
        for cf in ([None, 4.5, 8.0] if T else [None]):
            t.append({'layer': 'Z', 'kind': 'both', 'pole': 0.0, 'L': L, 'cf': cf, 'lens': [2, 3, 4, 5] if T else [2, 3, 4]})
    for cfgname in ('seam-chain', 'pole-ring'):
        for L in (LENGTHS if T else [0.1, 5.0]):
            for cf in ([None, 4.0, 8.0] if T else [None]):
                t.append({'layer': 'P', 'config': cfgname, 'L': L, 'cf': cf})
    return t


# ------------------------------------------------------------------ layer A
def _run_A(acc, task):
    scene, L, cf, n = task['scene'], task['L'], task['cf'], task['n']
    chunk = _chunk(L, cf)
    sites = S.scene_sites(scene, L, 8)[:n]
    ra = np.array([p[0] for p in sites], dtype=float)
    dec = np.array([p[1] for p in sites], dtype=float)
    ncases = sum(n ** a for a in range(2, 6))
    cells = S.cell_count(ra, dec, S.effective_chunk(L, chunk, True))
    if cells > GUARD:
        acc.skip('resource-guard: %s L=%g chunk=%s -> %d cells per call' % (scene, L, chunk, cells), ncases)
        return
    full = S.sep_matrix(ra, dec, ra, dec)
    cfg = ('A', scene, L, cf)
    for ln in range(2, 6):
        for tup in itertools.product(range(n), repeat=ln):
            idx = np.array(tup)
            _one(acc, cfg, tup, ra[idx], dec[idx], L, chunk, sep=full[np.ix_(idx, idx)])
    acc.sample(make_case(ra[:3], dec[:3], L, chunk))


# ------------------------------------------------------------------ layer B: chains
def chain(scene, direction, L, npts, cut):
    """npts sites spaced 0.8 L (link number `cut` widened to 1.3 L; cut=0: none) or None if it leaves the sphere."""
    steps = [0.8 * L] * (npts - 1)
    if cut:
        steps[cut - 1] = 1.3 * L
    pos = [0.0]
    for st in steps:
        pos.append(pos[-1] + st)
    mid = 0.5 * pos[-1]
    pos = [p - mid for p in pos]
    if direction in ('over-pole', 'through-pole'):
        sg = 1.0 if scene == 'npole' else -1.0
        off = 0.11 * L          # 'over-pole': the chain does not put a site exactly on the pole
        if direction == 'through-pole':
            off = 0.0           # the middle site is at Dec = +-90 exactly (colatitude 0.0)
            zero = pos[npts // 2]
            pos = [p - zero for p in pos]
        pts = []
        for p in pos:
            p = p + off
            colat = abs(p)
            if colat >= 85.0:
                return None
            pts.append((30.0 if p < 0 else 210.0, sg * (90.0 - colat)))
        return pts
    ra0, dec0 = {'equator': (150.0, 0.3), 'seam': (0.0, 12.0), 'mid60': (200.0, 60.0), 'mid-75': (40.0, -75.0)}[scene]
    pts = []
    for p in pos:
        if direction == 'ra':
            dra, dd = p / math.cos(math.radians(dec0)), 0.0
        elif direction == 'dec':
            dra, dd = 0.0, p
        else:
            dd = p / math.sqrt(2.0)
            dra = p / math.sqrt(2.0) / math.cos(math.radians(dec0))
        if abs(dec0 + dd) >= 89.0 or abs(dra) >= 175.0:
            return None
        pts.append(((ra0 + dra) % 360.0, dec0 + dd))
    return pts


def _run_B(acc, task):
    scene, direction, L, cf = task['scene'], task['dir'], task['L'], task['cf']
    chunk = _chunk(L, cf)
    cfg = ('B', scene, direction, L, cf)
    for npts in task['sizes']:
        for cut in range(0, npts):
            pts = chain(scene, direction, L, npts, cut)
            if pts is None:
                acc.skip('not-applicable: chain %s/%s L=%g N=%d does not fit on the sphere' % (scene, direction, L, npts), 2 * npts)
                continue
            ra = np.array([p[0] for p in pts], dtype=float)
            dec = np.array([p[1] for p in pts], dtype=float)
            cells = S.cell_count(ra, dec, S.effective_chunk(L, chunk, True))
            if cells > GUARD:
                acc.skip('resource-guard: chain %s/%s L=%g chunk=%s -> %d cells' % (scene, direction, L, chunk, cells), 2 * npts)
                continue
            full = S.sep_matrix(ra, dec, ra, dec)
            for rev in (0, 1):
                base = list(range(npts))[::-1] if rev else list(range(npts))
                for rot in range(npts):
                    order = base[rot:] + base[:rot]
                    idx = np.array(order)
                    _one(acc, cfg, (npts, cut, rev, rot), ra[idx], dec[idx], L, chunk, sep=full[np.ix_(idx, idx)])
    pts = chain(scene, direction, L, task['sizes'][0], 1)
    if pts:
        acc.sample(make_case([p[0] for p in pts], [p[1] for p in pts], L, chunk))


# ------------------------------------------------------------------ layer P: all orders of fixed configurations
def fixed_config(name, L):
    u = 0.8 * L
    if name == 'seam-chain':
        # four sites chained across RA 0 along Dec 20, one hanging off the chain end in Dec, one isolated
        c = math.cos(math.radians(20.0))
        pts = [((360.0 + (k - 1.5) * u / c) % 360.0, 20.0) for k in range(4)]
        pts.append((pts[3][0], 20.0 + u))
        pts.append((pts[0][0], 20.0 - 2.6 * L))
        return pts
    if name == 'pole-ring':
        # three sites around the north pole linked across it, a linked pair further out, one far site
        r = 0.45 * L
        return [(0.0, 90.0 - r), (100.0, 90.0 - r), (200.0, 90.0 - r), (300.0, 90.0 - 3.2 * r), (320.0, 90.0 - 3.4 * r),
                (180.0, 90.0 - min(3.0 * L, 88.0))]
    raise ValueError(name)


def _run_P(acc, task):
    L, cf = task['L'], task['cf']
    chunk = _chunk(L, cf)
    pts = fixed_config(task['config'], L)
    ra = np.array([p[0] for p in pts], dtype=float)
    dec = np.array([p[1] for p in pts], dtype=float)
    cells = S.cell_count(ra, dec, S.effective_chunk(L, chunk, True))
    if cells > GUARD:
        acc.skip('resource-guard: %s L=%g chunk=%s -> %d cells' % (task['config'], L, chunk, cells), 720)
        return
    full = S.sep_matrix(ra, dec, ra, dec)
    cfg = ('P', task['config'], L, cf)
    for perm in itertools.permutations(range(6)):
        idx = np.array(perm)
        _one(acc, cfg, perm, ra[idx], dec[idx], L, chunk, sep=full[np.ix_(idx, idx)])
    acc.sample(make_case(ra, dec, L, chunk))


# ------------------------------------------------------------------ layer S: serpentines and combs (merge trees)
SNAKE_BASE = {'equator': (150.0, 0.3), 'seam': (359.0, 12.0), 'mid60': (200.0, 55.0)}
PATTERNS = ['snake-r', 'snake-l', 'comb-r', 'comb-l']


def snake(scene, L, arms, n, pattern, cut, orient):
    """`arms` parallel rows of n sites spaced 0.9 L, 1.5 L apart (not linked), consecutive rows joined at one end by a
    bridge site (bridge number `cut` left out; 0: none).  Rows run along RA ('ra') or along Dec ('dec')."""
    ra0, dec0 = SNAKE_BASE[scene]
    pts = []
    for k in range(arms):
        for i in range(n):
            pts.append((i * 0.9 * L, k * 1.5 * L))
    for k in range(arms - 1):
        right = {'snake-r': k % 2 == 0, 'snake-l': k % 2 == 1, 'comb-r': True, 'comb-l': False}[pattern]
        if cut == k + 1:
            continue
        pts.append(((n - 1) * 0.9 * L if right else 0.0, (k + 0.5) * 1.5 * L))
    out = []
    for (x, y) in pts:
        if orient == 'dec':
            x, y = y, x
        d = dec0 + y
        if abs(d) >= 89.0:
            return None
        dra = x / math.cos(math.radians(dec0))
        if dra >= 175.0:
            return None
        out.append(((ra0 + dra) % 360.0, d))
    return out


def _orders(N):
    base = list(range(N))
    return [base, base[::-1], base[0::2] + base[1::2], base[N // 3:] + base[:N // 3],
            base[2 * N // 3:] + base[:2 * N // 3], base[1::2][::-1] + base[0::2]]


def _run_S(acc, task):
    scene, L, cf = task['scene'], task['L'], task['cf']
    chunk = _chunk(L, cf)
    cfg = ('S', scene, L, cf)
    last = None
    for arms in (2, 3, 4):
        for n in (6, 10):
            for pattern in PATTERNS:
                for cut in range(0, arms):
                    for orient in ('ra', 'dec'):
                        pts = snake(scene, L, arms, n, pattern, cut, orient)
                        if pts is None:
                            acc.skip('not-applicable: %s serpentine L=%g %dx%d along %s does not fit' % (scene, L, arms, n, orient), 6)
                            continue
                        ra = np.array([p[0] for p in pts], dtype=float)
                        dec = np.array([p[1] for p in pts], dtype=float)
                        cells = S.cell_count(ra, dec, S.effective_chunk(L, chunk, True))
                        if cells > GUARD:
                            acc.skip('resource-guard: serpentine %s L=%g chunk=%s -> %d cells' % (scene, L, chunk, cells), 6)
                            continue
                        full = S.sep_matrix(ra, dec, ra, dec)
                        for oi, order in enumerate(_orders(len(pts))):
                            idx = np.array(order)
                            _one(acc, cfg, (arms, n, pattern, cut, orient, oi), ra[idx], dec[idx], L, chunk,
                                 sep=full[np.ix_(idx, idx)])
                        last = (ra, dec)
    if last is not None:
        acc.sample(make_case(last[0], last[1], L, chunk))


# ------------------------------------------------------------------ layer M: milli-arcsecond linking lengths
def _run_M(acc, task):
    """All ordered tuples (with repetition, so exact duplicates occur) over a compact site set whose separations are
    0, 0.5, 0.8, 1.3, 2.5 ... times a linking length of 1 mas .. 1 arcsec."""
    scene, L, cf = task['scene'], task['L'], task['cf']
    chunk = _chunk(L, cf)
    sites = S.micro_sites(scene, L, 6)
    ra = np.array([p[0] for p in sites], dtype=float)
    dec = np.array([p[1] for p in sites], dtype=float)
    lens = task['lens']
    cells = S.cell_count(ra, dec, S.effective_chunk(L, chunk, True))
    if cells > GUARD:
        acc.skip('resource-guard: micro %s L=%g chunk=%s -> %d cells per call' % (scene, L, chunk, cells),
                 sum(6 ** a for a in lens))
        return
    full = S.sep_matrix(ra, dec, ra, dec)
    cfg = ('M', scene, L, cf)
    for ln in lens:
        for tup in itertools.product(range(6), repeat=ln):
            idx = np.array(tup)
            _one(acc, cfg, tup, ra[idx], dec[idx], L, chunk, sep=full[np.ix_(idx, idx)])
    acc.sample(make_case(ra[:3], dec[:3], L, chunk))


# ------------------------------------------------------------------ layer F: merged chain + isolated points, in several chunks
def field_points(ra_c, dec0, L, clen, nlon):
    """A chain of `clen` sites spaced 0.8 L along RA and `nlon` isolated sites 1.5 L above / below its middle."""
    c = math.cos(math.radians(dec0))
    chain_pts = [((ra_c + (k - 0.5 * (clen - 1)) * 0.8 * L / c) % 360.0, dec0) for k in range(clen)]
    x = 0.0 if clen % 2 == 0 else 0.4 * L
    lon = [((ra_c + x / c) % 360.0, dec0 + sg * 1.5 * L) for sg in (1.0, -1.0)[:nlon]]
    return chain_pts, lon


def _field_orders(clen, nfields, full):
    """Chain permutations per field: the full product for two fields (and for three 3-chains), else the diagonal."""
    perms = list(itertools.permutations(range(clen)))
    if nfields == 2 and (full or clen == 4):
        return list(itertools.product(perms, repeat=2))
    if nfields == 3 and clen == 3 and full:
        return list(itertools.product(perms, repeat=3))
    return [tuple([pm] * nfields) for pm in perms]


def _run_F(acc, task):
    dec0, L, cf, shift, full = task['dec0'], task['L'], task['cf'], task['shift'], task['full']
    chunk = _chunk(L, cf)
    m = S.effective_chunk(L, chunk, True)
    cfg = ('F', dec0, L, cf, shift)
    c0 = math.cos(math.radians(dec0))
    last = None
    for nfields in (2, 3):
        centres = [100.0 + f * (40.0 + shift * 0.25 * m / c0) for f in range(nfields)]
        for clen in (4, 3):
            for nlon in ((1, 2) if full else (1,)):
                fields = [field_points(rc, dec0, L, clen, nlon) for rc in centres]
                allp = [p for ch, lo in fields for p in ch + lo]
                cells = S.cell_count(np.array([p[0] for p in allp]), np.array([p[1] for p in allp]), m)
                combos = _field_orders(clen, nfields, full)
                if cells > GUARD:
                    acc.skip('resource-guard: fields dec=%g L=%g chunk=%s -> %d cells' % (dec0, L, chunk, cells), len(combos) * 6)
                    continue
                for combo in combos:
                    for pos in ('last', 'first', 'middle'):
                        blocks = []
                        for f in range(nfields):
                            ch = [fields[f][0][k] for k in combo[f]]
                            lo = fields[f][1]
                            blocks.append(ch + lo if pos == 'last' else lo + ch if pos == 'first' else ch[:2] + lo + ch[2:])
                        for rev in (0, 1):
                            pts = [p for b in (blocks[::-1] if rev else blocks) for p in b]
                            ra = np.array([p[0] for p in pts], dtype=float)
                            dec = np.array([p[1] for p in pts], dtype=float)
                            _one(acc, cfg, (nfields, clen, nlon, combo, pos, rev), ra, dec, L, chunk)
                            last = (ra, dec)
    if last is not None:
        acc.sample(make_case(last[0], last[1], L, chunk))


# ------------------------------------------------------------------ layer Z: points at Dec = +90 / -90 exactly
def pole_sites(kind, sg, L):
    """Site alphabets containing the pole itself (listed under two different RAs: the same position)."""
    if kind == 'cap':
        return [(10.0, sg * 90.0), (250.0, sg * 90.0), (10.0, sg * (90.0 - 0.5 * L)), (200.0, sg * (90.0 - 0.4 * L)),
                (100.0, sg * (90.0 - 1.3 * L)), (10.0, sg * (90.0 - 1.2 * L)), (300.0, sg * (90.0 - 2.5 * L))]
    # 'both': both poles in one all-sky set
    return [(0.0, 90.0), (0.0, -90.0), (123.0, 90.0), (77.0, -90.0), (10.0, 90.0 - 0.8 * L), (200.0, -90.0 + 0.7 * L),
            (50.0, 0.0)]


def _run_Z(acc, task):
    kind, sg, L, cf = task['kind'], task['pole'], task['L'], task['cf']
    chunk = _chunk(L, cf)
    sites = pole_sites(kind, sg, L)
    n = len(sites)
    ra = np.array([p[0] for p in sites], dtype=float)
    dec = np.array([p[1] for p in sites], dtype=float)
    cells = S.cell_count(ra, dec, S.effective_chunk(L, chunk, True))
    if cells > GUARD:
        acc.skip('resource-guard: pole %s L=%g chunk=%s -> %d cells per call' % (kind, L, chunk, cells),
                 sum(n ** a for a in task['lens']))
        return
    full = S.sep_matrix(ra, dec, ra, dec)
    cfg = ('Z', kind, sg, L, cf)
    for ln in task['lens']:
        for tup in itertools.product(range(n), repeat=ln):
            idx = np.array(tup)
            _one(acc, cfg, tup, ra[idx], dec[idx], L, chunk, sep=full[np.ix_(idx, idx)])
    acc.sample(make_case(ra[[0, 2, 3]], dec[[0, 2, 3]], L, chunk))


def run_task(task):
    acc = Acc()
    {'A': _run_A, 'B': _run_B, 'P': _run_P, 'S': _run_S, 'M': _run_M, 'F': _run_F, 'Z': _run_Z}[task['layer']](acc, task)
    return acc
