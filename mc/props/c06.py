"""C06 - SDSS objID / specObjID packing: bounded-exhaustive check against the documented bit layout.

Every field is swept over its ENTIRE documented range while the other fields sit on corner
assignments (min/max); each tuple is packed through every calling convention (arrays, Python-int
scalars, run2d as int / decimal string / 'vN_M_P'), compared with a Python-int oracle
(sum of field * 2**shift), and unpacked again from int/uint arrays and decimal-string arrays.
Rejection (ValueError) is demanded for every value just outside a range, far outside (+-2**k),
for inconsistent array lengths and for simultaneous line and index.
"""
import itertools
import json

import numpy as np

from mc.core import Acc

PROP = 'C06'
LEVEL = 'exploration'
ENGINE = 'E1'
TECHNIQUE = ('model checking: bounded-exhaustive enumeration - every field swept over its whole documented range x corner '
             'assignments of the other fields x every calling convention, Python-int bit-layout oracle')
LEVEL_TEXT = ('every value of every objID/specObjID field (other fields at min/max corners) is packed by array, scalar and string '
              'conventions and unpacked again on the real code and compared bit-for-bit with an independent Python-int layout model; '
              'every just-outside and +-2**k-outside value, every length mismatch and line+index must raise ValueError; argument arrays must stay bit-identical and a repeated call on the same objects must agree')
LEVEL_NOTE = ('holds for one-field-swept / others-at-corners tuples, int64-representable values, integer input arrays (6 dtype profiles) and canonical '
              'vN_M_P strings (M,P <= 99); the full 2**63 product is not enumerated. Trusted: the layout tables in mc/props/c06.py '
              '(copied from the docstrings), Python int arithmetic, numpy array construction.')
RULE = ('sweep shards: for each field every value of its documented range x corner assignments (min/max) of all other fields, array calls in 6 integer dtype profiles (int64, int32, int16-where-it-fits, uint16/32, uint32, uint64) '
        '(thorough: all 2**k corners, quick: 4 of them - all-min, all-max, two alternating patterns); each tuple is one case per calling convention (array call, scalar '
        'call, scalar call with run2d as decimal string and as vN_M_P, unwrap from integer / U / S arrays with every option). '
        'reject shards: every value at distance 1, 2 and 2**k (k<=62) outside each range and negative values x corners x scalar / '
        'array position and narrower dtype that holds the values; every length-mismatch pattern; line+index. order shards: per field ALL arrays of length 1..4 (thorough 1..5) over a 3-value alphabet (min, typical, max; a,b,a / a,a,b / a,b,b,a included) with the other fields constant, array call vs oracle vs one scalar call per element, and the id arrays through every unwrap form/option. layouts: array calls are repeated with big-endian dtypes, non-contiguous strided views, read-only arrays and (single element) 0-d arrays; one zero-length shard (all four functions, every dtype/layout, must return an empty result). Every array call is made twice on the same argument objects: arguments must be bit-identical afterwards and the second result equal (one extra case per vector call). A case is non-trivial when at least two fields (camcol not '
        'counted) are non-zero, or when a rejection is demanded. Distinct = distinct (convention, packed id) resp. distinct argument tuples.')
ASSUMPTIONS = ['input arrays are integer arrays: int64 and the narrower/unsigned dtype profiles i4, i2 (int16 where the documented range fits, else int32), u2 (uint16/uint32), u4, u8, one profile for all columns of a call; numpy scalars, floats, bools are not generated',
               'numeric values are int64-representable (|v| <= 2**62); Python ints beyond int64 are outside the bound',
               'true MJD 50001..66383 is the in-range domain; MJD == 50000 (documented as "must be greater than 50000" but representable) is a don\'t-care and skipped',
               'run2d strings are canonical decimal strings or vN_M_P with 0 <= M,P <= 99 without zero padding; arrays of run2d strings are not generated',
               'unwrap_objid is given int64 (what sdss_objid returns) and unwrap_specobjid uint64 (what sdss_specobjid returns) or decimal strings (U and S dtype)',
               'an explicit scalar rerun=301 / skyversion=2 / firstfield=0 next to longer arrays is indistinguishable from the default and not used in length-mismatch cases',
               'line and index both given with at least one of them all zero: either ValueError or the packed value is accepted']

# ------------------------------------------------------------------ documented layouts (name, shift, width, lo, hi)
OBJ = (('skyversion', 59, 4, 0, 15), ('rerun', 48, 11, 0, 2047), ('run', 32, 16, 0, 65535), ('camcol', 29, 3, 1, 6),
       ('firstfield', 28, 1, 0, 1), ('field', 16, 12, 0, 4095), ('objnum', 0, 16, 0, 65535))
OBJ_COL = {'skyversion': 'skyversion', 'rerun': 'rerun', 'run': 'run', 'camcol': 'camcol', 'firstfield': 'firstfield',
           'field': 'frame', 'objnum': 'id'}
OBJ_DEFAULT = {'rerun': 301, 'skyversion': 2, 'firstfield': 0}
SPEC = (('plate', 50, 14, 0, 16383), ('fiber', 38, 12, 0, 4095), ('mjd', 24, 14, 50001, 66383), ('run2d', 10, 14, 0, 16383),
        ('low', 0, 10, 0, 1023))
OBJ_NAMES = [f[0] for f in OBJ]
SPEC_NAMES = [f[0] for f in SPEC]
OBJ_D = {f[0]: f for f in OBJ}
SPEC_D = {f[0]: f for f in SPEC}
K64 = np.uint64(0x9E3779B97F4A7C15)


def o_objid(t):
    return sum(t[n] * 2 ** s for n, s, _w, _lo, _hi in OBJ)


def o_specid(t):
    return t['plate'] * 2 ** 50 + t['fiber'] * 2 ** 38 + (t['mjd'] - 50000) * 2 ** 24 + t['run2d'] * 2 ** 10 + t['low']


def o_unobjid(i):
    return {n: (i // 2 ** s) % 2 ** w for n, s, w, _lo, _hi in OBJ}


def o_unspecid(i):
    d = {n: (i // 2 ** s) % 2 ** w for n, s, w, _lo, _hi in SPEC}
    d['mjd'] += 50000
    return d


def vstring(r):
    return 'v%d_%d_%d' % (r // 10000 + 5, (r % 10000) // 100, r % 100)


def parse_run2d(s):
    """Documented meaning of a run2d string: decimal integer, or vN_M_P -> (N-5)*10000 + M*100 + P."""
    if s.startswith('v'):
        n, m, p = s[1:].split('_')
        return (int(n) - 5) * 10000 + int(m) * 100 + int(p)
    return int(s)


def touched(diff, layout):
    out = [n for n, s, w, _lo, _hi in layout if (diff // 2 ** s) % 2 ** w]
    top = max(s + w for _n, s, w, _lo, _hi in layout)
    if diff // 2 ** top:
        out.append('bits>=%d' % top)
    return out


def _len(v):
    return len(v) if isinstance(v, list) else 1


def _vals(v):
    return v if isinstance(v, list) else [v]


# ------------------------------------------------------------------ expectations for one call
def expect_objid(args):
    n = _len(args['run'])
    full = {}
    mism = []
    for name in OBJ_NAMES:
        if name not in args:
            full[name] = [OBJ_DEFAULT[name]] * n
            continue
        v = args[name]
        if name in OBJ_DEFAULT and not isinstance(v, list) and v == OBJ_DEFAULT[name] and n != 1:
            return ('dontcare',)
        if _len(v) != n:
            mism.append(name)
        full[name] = _vals(v)
    if mism:
        return ('reject', 'length-mismatch', '+'.join(mism))
    oor = [name for name, _s, _w, lo, hi in OBJ if any(not (lo <= x <= hi) for x in full[name])]
    if oor:
        return ('reject', 'out-of-range', '+'.join(oor))
    return ('ok', [o_objid({name: full[name][i] for name in OBJ_NAMES}) for i in range(n)])


def expect_specid(args):
    n = _len(args['plate'])
    full = {}
    mism = []
    for name in ('plate', 'fiber', 'mjd', 'run2d'):
        v = args[name]
        if isinstance(v, str):
            v = parse_run2d(v)
        if _len(v) != n:
            mism.append(name)
        full[name] = _vals(v)
    both = 'line' in args and 'index' in args
    lows = []
    for name in ('line', 'index'):
        if name in args:
            if _len(args[name]) != n:
                mism.append(name)
            lows.append(_vals(args[name]))
    if both and all(any(x != 0 for x in lw) for lw in lows):
        return ('reject', 'line-and-index', 'line+index')
    if 50000 in full['mjd']:
        return ('dontcare',)
    if mism:
        return ('either',) if both else ('reject', 'length-mismatch', '+'.join(mism))
    oor = [name for name in ('plate', 'fiber', 'mjd', 'run2d')
           if any(not (SPEC_D[name][3] <= x <= SPEC_D[name][4]) for x in full[name])]
    for name, lw in zip([k for k in ('line', 'index') if k in args], lows):
        if any(not (0 <= x <= 1023) for x in lw):
            oor.append(name)
    if oor:
        return ('either',) if both else ('reject', 'out-of-range', '+'.join(oor))
    if both:
        return ('either',)
    low = lows[0] if lows else [0] * n
    return ('ok', [o_specid({'plate': full['plate'][i], 'fiber': full['fiber'][i], 'mjd': full['mjd'][i],
                             'run2d': full['run2d'][i], 'low': low[i]}) for i in range(n)])


# integer dtype menus for array arguments: every column gets the dtype the profile assigns to its documented range
PROFILES = ('i8', 'i4', 'i2', 'u2', 'u4', 'u8')


def field_dtype(profile, name):
    hi = (OBJ_D.get(name) or SPEC_D.get(name) or SPEC_D['low'])[4]
    if profile == 'i2':
        return np.int16 if hi <= 32767 else np.int32
    if profile == 'u2':
        return np.uint16 if hi <= 65535 else np.uint32
    return {'i8': np.int64, 'i4': np.int32, 'u4': np.uint32, 'u8': np.uint64}[profile]


def fits(profile, args):
    """Can every array argument hold its values in the dtype the profile gives it?"""
    for name, v in args.items():
        if isinstance(v, list):
            info = np.iinfo(field_dtype(profile, name))
            if any(not (info.min <= x <= info.max) for x in v):
                return False
    return True


LAYOUTS = ('native', 'be', 'strided', 'readonly', '0d')


def lay(a, layout):
    """The same values in another memory layout: big-endian dtype (what astropy delivers for FITS columns), a
    non-contiguous strided view, a read-only array, a 0-d array (single element only)."""
    if layout == 'native':
        return a
    if layout == 'be':
        return a.astype(a.dtype.newbyteorder('>'))
    if layout == 'strided':
        return np.repeat(a, 2)[::2]
    if layout == 'readonly':
        b = a.copy()
        b.setflags(write=False)
        return b
    if layout == '0d':
        return a.reshape(())
    raise ValueError(layout)


def _arg(v, name=None, profile='i8', layout='native'):
    if not isinstance(v, list):
        return v
    return lay(np.array(v, dtype=field_dtype(profile, name) if name else np.int64), layout)


def _snapshot(kw):
    return {k: (v.dtype.str, v.shape, v.tobytes()) for k, v in kw.items() if isinstance(v, np.ndarray)}


def _modified(kw, snap):
    return [k for k, b in snap.items() if (kw[k].dtype.str, kw[k].shape, kw[k].tobytes()) != b]


def _same_outcome(r1, e1, r2, e2):
    if (e1 is None) != (e2 is None):
        return False
    if e1 is not None:
        return type(e1) is type(e2)
    try:
        return _intlist(r1) == _intlist(r2)
    except Exception:  # noqa: BLE001
        return False


def _intlist(r):
    a = np.asarray(r)
    return [int(x) for x in a.ravel().tolist()]


def _call_spec(args):
    import pydl.pydlutils.sdss as S
    kw = {k: _arg(v) for k, v in args.items()}
    return S.sdss_specobjid(kw.pop('plate'), kw.pop('fiber'), kw.pop('mjd'), kw.pop('run2d'), **kw)


def _mjd_convention_decides(args, want_ok):
    """True when the same request, element by element with MJD as a Python int instead of an array, behaves correctly
    (right id when want_ok, ValueError otherwise) - i.e. the failure is triggered by the array form of MJD alone."""
    n = len(args['mjd'])
    for i in range(n):
        a = {k: (v if isinstance(v, str) else ([v[i]] if isinstance(v, list) else v)) for k, v in args.items()}
        a['mjd'] = args['mjd'][i]
        exp = expect_specid(a)
        try:
            got = _intlist(_call_spec(a))
            if not (want_ok and exp[0] == 'ok' and got == exp[1]):
                return False
        except ValueError:
            if want_ok:
                return False
        except Exception:  # noqa: BLE001
            return False
    return True


def _trigger_spec(args, sigbase):
    """Identifiable trigger conditions seen in the code (kept apart so that signatures do not lump defects)."""
    r = args.get('run2d')
    if isinstance(r, str) and r.startswith('v') and int(r[1:].split('_')[0]) < 5 and ':raised-' in sigbase:
        return sigbase + ':vN_M_P-with-N<5'
    if isinstance(args.get('mjd'), list) and all(_len(v) == len(args['mjd']) for v in args.values()):
        if sigbase.endswith(':in-range-refused:ValueError') and _mjd_convention_decides(args, True):
            return sigbase + ':array-mjd'
        if sigbase.endswith(':out-of-range-accepted:mjd') and _mjd_convention_decides(args, False):
            return sigbase + ':array-mjd'
    return sigbase


def wrong_value_sig(fn, args, got, exp):
    """[(sig, msg)] naming the fields whose bit ranges differ between the returned and the expected ids ([] if equal)."""
    name, layout = ('sdss_objid', OBJ) if fn == 'objid' else ('sdss_specobjid', SPEC)
    flds = []
    for g, e in zip(got, exp):
        if g != e:
            for f in (touched(g ^ e, layout) if g >= 0 else ['negative']):
                if f not in flds:
                    flds.append(f)
    if not flds:
        return []
    sig = '%s:layout:wrong-bits-in:%s' % (name, '+'.join(flds))
    if fn != 'objid':
        sig = _trigger_spec(args, sig)
    return [(sig, 'got %s expected %s for %s' % (got[:3], exp[:3], args))]


def _dtype_sig(sig, prof):
    parts = sig.split(':')
    if len(parts) > 1 and parts[1] == 'layout':
        return '%s:narrow-int-arrays:wrong-id:dtype-%s' % (parts[0], prof)
    return sig + ':dtype-' + prof


def check_pack(case):
    """One packing call (made twice on the same argument objects); None for a don't-care, else list of (sig, msg).
    A failure that disappears when the same arrays are given as int64 is reported under a dtype-specific signature."""
    res = _check_pack(case)
    prof = case.get('dtype', 'i8')
    layout = case.get('layout', 'native')
    if res:
        td = prof != 'i8' and not _check_pack(dict(case, dtype='i8'))
        tl = layout != 'native' and not _check_pack(dict(case, layout='native'))
        if td:
            res = [(_dtype_sig(sig, prof), msg) for sig, msg in res]
        if tl:
            res = [(sig + ':layout-' + layout, msg) for sig, msg in res]
    n = max([len(v) for v in case['args'].values() if isinstance(v, list)] or [0])
    if res and n > 1 and all(_len(v) == n for v in case['args'].values() if isinstance(v, list)):
        # computed trigger: every element alone (single-element arrays, same dtype) is handled correctly
        singles = [dict(case, args={k: ([v[i]] if isinstance(v, list) else v) for k, v in case['args'].items()}, tag='value')
                   for i in range(n)]
        if all(_check_pack(c) == [] for c in singles):
            res = [(sig + ':multi-element-array-only', msg) for sig, msg in res]
    return res


def _check_pack(case):
    import pydl.pydlutils.sdss as S
    fn = case['fn']
    args = case['args']
    if fn == 'objid':
        exp = expect_objid(args)
        name, layout = 'sdss_objid', OBJ
    else:
        exp = expect_specid(args)
        name, layout = 'sdss_specobjid', SPEC
    if exp[0] == 'dontcare':
        return None
    prof = case.get('dtype', 'i8')
    kw0 = {k: _arg(v, k, prof, case.get('layout', 'native')) for k, v in args.items()}
    snap = _snapshot(kw0)

    def call():
        kw = dict(kw0)
        try:
            if fn == 'objid':
                return S.sdss_objid(kw.pop('run'), kw.pop('camcol'), kw.pop('field'), kw.pop('objnum'), **kw), None
            return S.sdss_specobjid(kw.pop('plate'), kw.pop('fiber'), kw.pop('mjd'), kw.pop('run2d'), **kw), None
        except Exception as e:  # noqa: BLE001 - every exception class is classified below
            return None, e
    r, exc = call()
    side = []
    mod = _modified(kw0, snap)
    if mod:
        side.append(('%s:input-modified:%s' % (name, '+'.join(mod)), 'argument array(s) %s changed by the call %s' % (mod, args)))
    elif snap:
        r2, exc2 = call()
        if not _same_outcome(r, exc, r2, exc2):
            side.append(('%s:second-call-differs' % name, 'same argument objects, first %r/%r second %r/%r' % (r, exc, r2, exc2)))
    main = _classify_pack(fn, name, args, exp, r, exc)
    if case.get('tag') == 'order' and exp[0] == 'ok' and exc is None and not main:
        # array call vs. one scalar call per element (Python ints), element by element
        n = len(exp[1])
        got = _intlist(r)
        for i in range(n):
            kw = {k: (v[i] if isinstance(v, list) else v) for k, v in args.items()}
            try:
                if fn == 'objid':
                    ri = S.sdss_objid(kw.pop('run'), kw.pop('camcol'), kw.pop('field'), kw.pop('objnum'), **kw)
                else:
                    ri = S.sdss_specobjid(kw.pop('plate'), kw.pop('fiber'), kw.pop('mjd'), kw.pop('run2d'), **kw)
                gi = _intlist(ri)
            except Exception as e:  # noqa: BLE001
                gi = repr(e)
            if gi != [got[i]]:
                main.append(('%s:array-vs-scalar-differs' % name, 'element %d: array call %r, scalar call %r for %s' % (i, got[i], gi, args)))
                break
    return main + side


def _classify_pack(fn, name, args, exp, r, exc):
    trig = (lambda s: s) if fn == 'objid' else (lambda s: _trigger_spec(args, s))
    if exp[0] == 'either':
        if exc is not None and not isinstance(exc, ValueError):
            return [(trig('%s:line-and-index:raised-%s' % (name, type(exc).__name__)), repr(exc))]
        return []
    if exp[0] == 'ok':
        if exc is not None:
            zl = ':zero-length-arrays' if not exp[1] else ''
            return [(trig('%s:in-range-refused:%s%s' % (name, type(exc).__name__, zl)), '%r on %s' % (exc, args))]
        try:
            got = _intlist(r)
        except Exception as e:  # noqa: BLE001
            return [('%s:result-not-integer' % name, repr(e))]
        if len(got) != len(exp[1]):
            return [('%s:result-length' % name, 'got %d ids, expected %d' % (len(got), len(exp[1])))]
        if not exp[1]:
            want_dt = np.int64 if fn == 'objid' else np.uint64      # documented return types
            if np.asarray(r).dtype != want_dt:
                return [('%s:empty-call:result-dtype' % name, 'zero-length call returned dtype %s' % np.asarray(r).dtype)]
        return wrong_value_sig(fn, args, got, exp[1])
    _r, kind, fld = exp
    if exc is None:
        return [(trig('%s:%s-accepted:%s' % (name, kind, fld)), 'returned %s for %s' % (_intlist(r)[:3], args))]
    if not isinstance(exc, ValueError):
        return [(trig('%s:%s:%s:raised-%s' % (name, kind, fld, type(exc).__name__)), '%r on %s' % (exc, args))]
    return []


def _idarray(ids, form, signed, layout='native'):
    if form == 'int':
        return lay(np.array(ids, dtype=np.int64 if signed else np.uint64), layout)
    a = np.array([str(i) for i in ids], dtype='U%d' % max([len(str(i)) for i in ids] or [20]))
    return lay(a if form == 'U' else a.astype('S'), layout)


def unwrap_layouts(form, n=None):
    """Layouts applicable to an id array of the given form (bytes strings have no byte order; 0-d needs one element)."""
    out = ['native'] + (['be'] if form != 'S' else []) + ['strided', 'readonly']
    return out + (['0d'] if n == 1 else [])


def _col(u, c):
    return np.atleast_1d(u[c]).tolist()


def check_unwrap(case):
    """One unwrap call on explicit ids (made twice on the same array); list of (sig, msg).  A wrong field of a
    multi-element array whose elements are all unwrapped correctly one at a time gets a computed trigger suffix."""
    res = _check_unwrap(case)
    layout = case.get('layout', 'native')
    if res and layout != 'native' and not _check_unwrap(dict(case, layout='native')):
        res = [(sig + ':layout-' + layout, msg) for sig, msg in res]
    if res and len(case['ids']) > 1 and all(_check_unwrap(dict(case, ids=[i])) == [] for i in case['ids']):
        res = [(sig + ':multi-element-array-only', msg) for sig, msg in res]
    return res


def _check_unwrap(case):
    fn = case['fn']
    ids = case['ids']
    form = case['form']
    if fn == 'unwrap_objid':
        from pydl.photoop.photoobj import unwrap_objid
        a = _idarray(ids, form, True, case.get('layout', 'native'))
        call = lambda: unwrap_objid(a)  # noqa: E731
        before = a.copy()
        try:
            u = call()
        except Exception as e:  # noqa: BLE001
            return [('unwrap_objid:exception:%s:form-%s' % (type(e).__name__, form), '%r on %s' % (e, ids[:3]))]
        want = {OBJ_COL[n]: [o_unobjid(i)[n] for i in ids] for n in OBJ_NAMES}
    else:
        from pydl.pydlutils.sdss import unwrap_specobjid
        a = _idarray(ids, form, False, case.get('layout', 'native'))
        ri, li = bool(case.get('run2d_integer')), bool(case.get('specLineIndex'))
        call = lambda: unwrap_specobjid(a, run2d_integer=ri, specLineIndex=li)  # noqa: E731
        before = a.copy()
        try:
            u = call()
        except Exception as e:  # noqa: BLE001
            return [('unwrap_specobjid:exception:%s:form-%s' % (type(e).__name__, form), '%r on %s' % (e, ids[:3]))]
        dec = [o_unspecid(i) for i in ids]
        want = {'plate': [d['plate'] for d in dec], 'fiber': [d['fiber'] for d in dec], 'mjd': [d['mjd'] for d in dec],
                'run2d': [d['run2d'] if ri else vstring(d['run2d']) for d in dec],
                ('index' if li else 'line'): [d['low'] for d in dec]}
    wrong = []
    side = _unwrap_side(fn, form, a, before, u, call, list(want))
    try:
        if u.shape != before.shape:
            return [('%s:result-shape' % fn, 'got %s for input %s' % (u.shape, before.shape))] + side
        for col, w in want.items():
            if _col(u, col) != w:
                wrong.append(col)
    except Exception as e:  # noqa: BLE001
        return [('%s:result-columns:%s' % (fn, type(e).__name__), repr(e))] + side
    if wrong:
        return [(unwrap_sig(fn, wrong), 'ids %s form %s%s: got %s expected %s'
                 % (ids[:5], form, '' if fn == 'unwrap_objid' else ' run2d_integer=%s specLineIndex=%s' % (ri, li),
                    [_col(u, c)[:5] for c in wrong], [want[c][:5] for c in wrong]))] + side
    return side


def _unwrap_side(fn, form, a, before, u, call, cols):
    """The caller's ID array must be bit-identical after the call, and a second call on the SAME array object must
    return the same record array.  Restores `a` when it was modified."""
    out = []
    if a.dtype != before.dtype or a.shape != before.shape or a.tobytes() != before.tobytes():
        out.append(('%s:input-modified:form-%s' % (fn, form),
                    'caller array %s... became %s... after the call' % (before.ravel()[:2].tolist(), a.ravel()[:2].tolist())))
    try:
        u2 = call()
        same = u2.shape == u.shape and all(_col(u2, c) == _col(u, c) for c in cols)
        if not same:
            out.append(('%s:second-call-differs:form-%s' % (fn, form), 'second call on the same array object: first %s second %s'
                        % (np.atleast_1d(u)[:2].tolist(), np.atleast_1d(u2)[:2].tolist())))
    except Exception as e:  # noqa: BLE001
        out.append(('%s:second-call-differs:form-%s' % (fn, form), 'second call on the same array object raised %r' % (e,)))
    if out and (a.dtype == before.dtype and a.shape == before.shape) and a.flags.writeable:
        a[...] = before
    return out


def unwrap_sig(fn, wrong_cols):
    return '%s:wrong-field:%s' % (fn, '+'.join(wrong_cols))


def check_case(case):
    if case['fn'] in ('objid', 'specobjid'):
        return check_pack(case)
    if case['fn'] in ('unwrap_objid', 'unwrap_specobjid'):
        return check_unwrap(case)
    if case['fn'] == 'vector':
        acc = run_task(case['task'])
        return [(v['sig'], v['msg']) for v in acc.violations]
    raise ValueError('unknown case %r' % (case,))


# ------------------------------------------------------------------ corner menus
def corners_of(layout, swept, tier_all, pick):
    """All min/max assignments of the fields other than `swept`, simplest (all-min) first; quick keeps `pick` indices."""
    others = [f for f in layout if f[0] != swept]
    allc = [dict(zip([f[0] for f in others], combo))
            for combo in itertools.product(*[(f[3], f[4]) for f in others])]
    if tier_all:
        return allc
    n = len(allc)
    idx = sorted(set(i % n for i in pick))
    return [allc[i] for i in idx]


OBJ_PICK = (0, 63, 21, 42)       # quick: all-min, all-max and the two alternating min/max patterns (6 other fields)
SPEC_PICK = (0, 15, 5, 10)        # quick: likewise for the 4 other fields


def tasks(tier):
    T = tier == 'thorough'
    t = []
    target = 60000 if T else 40000
    # shard 0: small (skyversion sweep)
    for name, _s, _w, lo, hi in sorted(OBJ, key=lambda f: f[4] - f[3]):
        nc = 64 if T else len(OBJ_PICK)
        chunk = max(1, target // nc)
        for a in range(lo, hi + 1, chunk):
            t.append({'k': 'obj-sweep', 'field': name, 'lo': a, 'hi': min(hi + 1, a + chunk), 'all': T})
    for name, _s, _w, lo, hi in sorted(SPEC, key=lambda f: f[4] - f[3]):
        nc = (16 if T else len(SPEC_PICK)) * (2 if name == 'low' else 3)
        chunk = max(1, (target // 2) // nc)
        for a in range(lo, hi + 1, chunk):
            t.append({'k': 'spec-sweep', 'field': name, 'lo': a, 'hi': min(hi + 1, a + chunk), 'all': T})
    for name in OBJ_NAMES:
        t.append({'k': 'obj-reject', 'field': name, 'all': T})
    for name in ('plate', 'fiber', 'mjd', 'run2d', 'line', 'index'):
        t.append({'k': 'spec-reject', 'field': name, 'all': T})
    t.append({'k': 'obj-shape'})
    t.append({'k': 'spec-shape'})
    t.append({'k': 'spec-line-index'})
    t.append({'k': 'spec-run2d-str', 'all': T})
    t.append({'k': 'spec-mixed'})
    t.append({'k': 'obj-defaults'})
    t.append({'k': 'empty'})
    for fn, names in (('objid', OBJ_NAMES), ('specobjid', ('plate', 'fiber', 'mjd', 'run2d', 'line', 'index'))):
        for name in names:
            for base in (('min', 'mid', 'max') if T else ('min', 'mid')):
                t.append({'k': 'order', 'fn': fn, 'field': name, 'maxlen': 5 if T else 4, 'bases': [base]})
    return t


# ------------------------------------------------------------------ vector helpers
VALIDATE_PER_SIG = 3    # = mc.core.MAX_VIOL_PER_SIG_PER_TASK: the violations the runner may replay are all re-run singly


def _localise(acc, task, label, bad, mk_case, vec_msg):
    """Attribute the elements a vector call got wrong to single-element cases.

    `bad` maps element index -> [(sig, msg)] derived from the vector result, or None when nothing per-element is
    known (the whole call raised).  The first VALIDATE_PER_SIG elements of every signature (and every element without a
    derived signature) are re-run as single-element calls, so that every stored violation replays; the rest are counted
    under the derived signature.  If no single-element call reproduces, one vector-level violation is recorded."""
    found = False
    for i in sorted(bad):
        case = mk_case(i)
        derived = bad[i]
        if derived and all(acc.viol_count[sig] >= VALIDATE_PER_SIG for sig, _m in derived):
            found = True
            for sig, msg in derived:
                acc.violation(sig, case, msg)
            continue
        for sig, msg in (check_case(case) or []):
            found = True
            acc.violation(sig, case, msg)
    if bad and not found:
        acc.violation('%s:vector-call-only' % label, {'fn': 'vector', 'task': task}, vec_msg)


def _bulk(acc, hashes, nontriv, n, bad_idx, label):
    bad = np.zeros(n, dtype=bool)
    if bad_idx:
        bad[np.array(sorted(bad_idx), dtype=np.int64)] = True
    if (~bad).any():
        acc.bulk(hashes[~bad], nontriv[~bad], 'ok:' + label)
    if bad.any():
        acc.bulk(hashes[bad], nontriv[bad], 'bad:' + label)


PACK_COMBOS = (('i8', 'native'), ('i4', 'native'), ('i2', 'native'), ('u2', 'native'), ('u4', 'native'), ('u8', 'native'),
               ('i8', 'be'), ('i8', 'strided'), ('i8', 'readonly'), ('i4', 'be'), ('u8', 'be'))


def _vector_pack(fn, call, exp, mk_case, arrays, prof, layout, bads):
    """{index: derived [(sig, msg)] or None} for the elements of a vector packing call that disagree with exp, a message,
    and the vector-level side findings (argument arrays modified / second call on the same objects differs)."""
    name = 'sdss_objid' if fn == 'objid' else 'sdss_specobjid'
    snap = _snapshot(arrays)

    def run():
        try:
            return call(), None
        except Exception as e:  # noqa: BLE001
            return None, e
    r, exc = run()
    side = []
    mod = _modified(arrays, snap)
    if mod:
        side.append(('%s:input-modified:%s' % (name, '+'.join(mod)), 'argument array(s) %s changed by the vector call' % mod))
    else:
        r2, exc2 = run()
        if not _same_outcome(r, exc, r2, exc2):
            side.append(('%s:second-call-differs' % name, 'second vector call on the same argument objects differs'))
    bads[(prof, layout)] = set(range(len(exp)))
    if exc is not None:
        return {i: None for i in range(len(exp))}, repr(exc), side
    try:
        got = _intlist(r)
    except Exception as e:  # noqa: BLE001
        return {i: None for i in range(len(exp))}, repr(e), side
    if len(got) != len(exp):
        return {i: None for i in range(len(exp))}, 'result length %d != %d' % (len(got), len(exp)), side
    bad = {}
    for i, (g, e) in enumerate(zip(got, exp)):
        if g != e:
            d = wrong_value_sig(fn, mk_case(i)['args'], [g], [e])
            # same computed triggers as check_pack: right with int64 arrays (same layout) / right in the native layout (same dtype)
            if prof != 'i8' and i not in bads.get(('i8', layout), ()):
                d = [(_dtype_sig(sig, prof), msg) for sig, msg in d]
            if layout != 'native' and i not in bads.get((prof, 'native'), ()):
                d = [(sig + ':layout-' + layout, msg) for sig, msg in d]
            bad[i] = d
    bads[(prof, layout)] = set(bad)
    return bad, 'wrong values at %d positions' % len(bad), side


def _side(acc, task, label, side, mk_case, n):
    """Record the per-call side checks (inputs unchanged, repeatable) of one vector call as one case."""
    key = (json.dumps(task, sort_keys=True), label)
    if not side:
        acc.case(key, True, 'ok:inputs-unchanged+repeatable:' + label)
        return
    acc.case(key, True, 'bad:' + side[0][0])
    found = set()
    for i in range(min(3, n)):
        case = mk_case(i)
        for sig, msg in (check_case(case) or []):
            if ':input-modified' in sig or ':second-call-differs' in sig:
                found.add(sig)
                acc.violation(sig, case, msg)
    for sig, msg in side:
        if sig not in found:
            acc.violation(sig + ':vector-call-only', {'fn': 'vector', 'task': task}, msg)


def _vector_unwrap(fn, call, want, arr, form, layout='native', native_bad=None):
    """Like _vector_pack for an unwrap call; derived signatures of a non-native layout get the `:layout-` suffix when the
    same element was right in the native layout (native_bad is filled by the native call and read by the others)."""
    shape = arr.shape
    before = arr.copy()
    try:
        u = call()
    except Exception as e:  # noqa: BLE001
        return {i: None for i in range(shape[0])}, repr(e), []
    side = _unwrap_side(fn, form, arr, before, u, call, list(want))
    try:
        if u.shape != shape:
            return {i: None for i in range(shape[0])}, 'shape %s' % (u.shape,), side
        cols = {}
        for col, w in want.items():
            g = u[col].tolist()
            if g != w:
                for i, (x, y) in enumerate(zip(g, w)):
                    if x != y:
                        cols.setdefault(i, []).append((col, x, y))
        bad = {i: [(unwrap_sig(fn, [c for c, _x, _y in v])
                    + (':layout-' + layout if layout != 'native' and i not in (native_bad or ()) else ''),
                    'vector call, element %d: got/expected %s' % (i, v))]
               for i, v in cols.items()}
        if layout == 'native' and native_bad is not None:
            native_bad.clear()
            native_bad.update(bad)
        return bad, 'wrong fields at %d positions' % len(bad), side
    except Exception as e:  # noqa: BLE001
        return {i: None for i in range(shape[0])}, repr(e), side


def _columns(layout, swept, vals, corners):
    cols = {f[0]: [] for f in layout}
    nv = len(vals)
    for c in corners:
        for name in cols:
            if name == swept:
                cols[name].extend(vals)
            else:
                cols[name].extend([c[name]] * nv)
    return cols


def obj_sweep(acc, task):
    import pydl.pydlutils.sdss as S
    from pydl.photoop.photoobj import unwrap_objid
    f = task['field']
    vals = list(range(task['lo'], task['hi']))
    corners = corners_of(OBJ, f, task['all'], OBJ_PICK)
    cols = _columns(OBJ, f, vals, corners)
    n = len(cols[f])
    exp = [a * 2 ** 59 + b * 2 ** 48 + c * 2 ** 32 + d * 2 ** 29 + e * 2 ** 28 + g * 2 ** 16 + h
           for a, b, c, d, e, g, h in zip(*[cols[name] for name in OBJ_NAMES])]
    base = np.array(exp, dtype=np.uint64) * K64
    nz = sum((np.array(cols[name]) != 0).astype(int) for name in OBJ_NAMES if name != 'camcol')
    nontriv = nz >= 2

    def single(conv, prof='i8', layout='native'):
        def mk(i):
            t = {name: cols[name][i] for name in OBJ_NAMES}
            case = {'fn': 'objid', 'args': {k: ([v] if conv == 'array' else v) for k, v in t.items()}}
            if prof != 'i8':
                case['dtype'] = prof
            if layout != 'native':
                case['layout'] = layout
            return case
        return mk
    # array calls, one per integer dtype profile / memory layout
    bads = {}
    for pi, (prof, layout) in enumerate(PACK_COMBOS):
        arr = {name: lay(np.array(cols[name], dtype=field_dtype(prof, name)), layout) for name in OBJ_NAMES}
        tagp = prof + ('' if layout == 'native' else '-' + layout)
        bad, msg, side = _vector_pack('objid', lambda arr=arr: S.sdss_objid(arr['run'], arr['camcol'], arr['field'], arr['objnum'],
                                                                           rerun=arr['rerun'], skyversion=arr['skyversion'],
                                                                           firstfield=arr['firstfield']),
                                      exp, single('array', prof, layout), arr, prof, layout, bads)
        _localise(acc, task, 'sdss_objid:array-' + tagp, bad, single('array', prof, layout), msg)
        _side(acc, task, 'objid:array-' + tagp, side, single('array', prof, layout), n)
        _bulk(acc, base + np.uint64(1 if tagp == 'i8' else 40 + pi), nontriv, n, bad,
              'objid:array%s:sweep-%s' % ('' if tagp == 'i8' else '-' + tagp, f))
    # scalar calls
    bad = []
    c = [cols[name] for name in ('run', 'camcol', 'field', 'objnum', 'rerun', 'skyversion', 'firstfield')]
    fn = S.sdss_objid
    for i in range(n):
        try:
            r = fn(c[0][i], c[1][i], c[2][i], c[3][i], rerun=c[4][i], skyversion=c[5][i], firstfield=c[6][i])
            if r.size != 1 or int(r[0]) != exp[i]:
                bad.append(i)
        except Exception:  # noqa: BLE001
            bad.append(i)
    _localise(acc, task, 'sdss_objid:scalar', {i: None for i in bad}, single('scalar'), 'scalar loop')
    _bulk(acc, base + np.uint64(2), nontriv, n, bad, 'objid:scalar:sweep-' + f)
    # unwrap from int64 / decimal strings
    want = {OBJ_COL[name]: cols[name] for name in OBJ_NAMES}
    k = 0
    for form in ('int', 'U', 'S'):
        native_bad = set()
        for layout in unwrap_layouts(form):
            a = _idarray(exp, form, True, layout)
            mk = lambda i, form=form, layout=layout: dict({'fn': 'unwrap_objid', 'ids': [exp[i]], 'form': form},  # noqa: E731
                                                          **({} if layout == 'native' else {'layout': layout}))
            bad, msg, side = _vector_unwrap('unwrap_objid', lambda a=a: unwrap_objid(a), want, a, form, layout, native_bad)
            tagf = form + ('' if layout == 'native' else '-' + layout)
            _localise(acc, task, 'unwrap_objid:form-' + tagf, bad, mk, msg)
            _side(acc, task, 'unwrap_objid:' + tagf, side, mk, n)
            _bulk(acc, base + np.uint64((3 + k) if k < 3 and layout == 'native' else 80 + k), nontriv, n, bad,
                  'unwrap_objid:%s:sweep-%s' % (tagf, f))
            k += 1


def spec_sweep(acc, task):
    import pydl.pydlutils.sdss as S
    f = task['field']
    vals = list(range(task['lo'], task['hi']))
    corners = corners_of(SPEC, f, task['all'], SPEC_PICK)
    if f == 'low':
        groups = [('line', corners), ('index', corners)]
    else:
        groups = [('none', [c for c in corners if c['low'] == 0]),
                  ('line', [c for c in corners if c['low'] != 0]),
                  ('index', [c for c in corners if c['low'] != 0])]
    for gi, (kind, cs) in enumerate(groups):
        if not cs:
            continue
        cols = _columns(SPEC, f, vals, cs)
        n = len(cols[f])
        exp = [p * 2 ** 50 + q * 2 ** 38 + (m - 50000) * 2 ** 24 + r * 2 ** 10 + lw
               for p, q, m, r, lw in zip(*[cols[name] for name in SPEC_NAMES])]
        base = (np.array(exp, dtype=np.uint64) + np.uint64(gi * 7919)) * K64
        nz = sum((np.array(cols[name]) != (50000 if name == 'mjd' else 0)).astype(int) for name in SPEC_NAMES)
        nontriv = nz >= 2

        def single(conv, prof='i8', layout='native', kind=kind, cols=cols):
            def mk(i):
                a = {name: cols[name][i] for name in ('plate', 'fiber', 'mjd', 'run2d')}
                if kind != 'none':
                    a[kind] = cols['low'][i]
                if conv == 'array':
                    a = {k: [v] for k, v in a.items()}
                elif conv == 'dec':
                    a['run2d'] = str(a['run2d'])
                elif conv == 'v':
                    a['run2d'] = vstring(a['run2d'])
                case = {'fn': 'specobjid', 'args': a}
                if prof != 'i8':
                    case['dtype'] = prof
                if layout != 'native':
                    case['layout'] = layout
                return case
            return mk
        bads = {}
        for pi, (prof, layout) in enumerate(PACK_COMBOS):
            arr = {name: lay(np.array(cols[name], dtype=field_dtype(prof, name)), layout) for name in SPEC_NAMES}
            lowkw = {} if kind == 'none' else {kind: arr['low']}
            watched = {k: v for k, v in arr.items() if k != 'low' or kind != 'none'}
            tagp = prof + ('' if layout == 'native' else '-' + layout)
            bad, msg, side = _vector_pack('specobjid',
                                          lambda arr=arr, lowkw=lowkw: S.sdss_specobjid(arr['plate'], arr['fiber'], arr['mjd'],
                                                                                        arr['run2d'], **lowkw),
                                          exp, single('array', prof, layout), watched, prof, layout, bads)
            _localise(acc, task, 'sdss_specobjid:array-' + tagp, bad, single('array', prof, layout), msg)
            _side(acc, task, 'specobjid:array-%s:%s' % (tagp, kind), side, single('array', prof, layout), n)
            _bulk(acc, base + np.uint64(1 if tagp == 'i8' else 40 + pi), nontriv, n, bad,
                  'specobjid:array%s:%s:sweep-%s' % ('' if tagp == 'i8' else '-' + tagp, kind, f))
        fn = S.sdss_specobjid
        P, Q, M, R, L = [cols[name] for name in SPEC_NAMES]
        for ci, conv in enumerate(('int', 'dec', 'v')):
            bad = []
            for i in range(n):
                r2 = R[i] if conv == 'int' else (str(R[i]) if conv == 'dec' else vstring(R[i]))
                try:
                    if kind == 'none':
                        r = fn(P[i], Q[i], M[i], r2)
                    elif kind == 'line':
                        r = fn(P[i], Q[i], M[i], r2, line=L[i])
                    else:
                        r = fn(P[i], Q[i], M[i], r2, index=L[i])
                    if r.size != 1 or int(r[0]) != exp[i]:
                        bad.append(i)
                except Exception:  # noqa: BLE001
                    bad.append(i)
            _localise(acc, task, 'sdss_specobjid:scalar-' + conv, {i: None for i in bad},
                      single('scalar' if conv == 'int' else conv), 'scalar loop')
            _bulk(acc, base + np.uint64(2 + ci), nontriv, n, bad, 'specobjid:scalar-run2d-%s:%s:sweep-%s' % (conv, kind, f))
        k = 5
        vR = [vstring(r) for r in R]
        for form in ('int', 'U', 'S'):
            native_bad = {}
            for layout in unwrap_layouts(form):
                a = _idarray(exp, form, False, layout)
                # every option combination in the native layout; the other layouts with both options off and both on
                for ri, li in (((False, False), (False, True), (True, False), (True, True)) if layout == 'native'
                               else ((False, False), (True, True))):
                    want = {'plate': P, 'fiber': Q, 'mjd': M, 'run2d': R if ri else vR, ('index' if li else 'line'): L}
                    mk = lambda i, form=form, ri=ri, li=li, exp=exp, layout=layout: dict(  # noqa: E731
                        {'fn': 'unwrap_specobjid', 'ids': [exp[i]], 'form': form, 'run2d_integer': ri, 'specLineIndex': li},
                        **({} if layout == 'native' else {'layout': layout}))
                    nb = native_bad.setdefault((ri, li), set())
                    bad, msg, side = _vector_unwrap('unwrap_specobjid',
                                                    lambda a=a, ri=ri, li=li: S.unwrap_specobjid(a, run2d_integer=ri, specLineIndex=li),
                                                    want, a, form, layout, nb)
                    tagf = form + ('' if layout == 'native' else '-' + layout)
                    _localise(acc, task, 'unwrap_specobjid:form-' + tagf, bad, mk, msg)
                    _side(acc, task, 'unwrap_specobjid:%s:%s:%s:%s' % (tagf, ri, li, kind), side, mk, n)
                    _bulk(acc, base + np.uint64(k), nontriv, n, bad,
                          'unwrap_specobjid:%s:%s%s:sweep-%s' % (tagf, 'run2d-int' if ri else 'run2d-str', ':index' if li else '', f))
                    k += 1


# ------------------------------------------------------------------ individually enumerated cases
def _one(acc, case):
    key = (case['fn'], json.dumps(case.get('args', case.get('ids')), sort_keys=True), case.get('form'), case.get('dtype'), case.get('layout'))
    if case['fn'].startswith('unwrap'):
        key = key + (case.get('run2d_integer'), case.get('specLineIndex'))
    res = check_case(case)
    if res is None:
        acc.skip('dont-care (MJD == 50000 or explicit default next to longer arrays)')
        return
    if res:
        acc.case(key, True, 'bad:' + res[0][0], sample=case)
        for sig, msg in res:
            acc.violation(sig, case, msg)
        return
    if case['fn'].startswith('unwrap'):
        acc.case(key, True,
                 'ok:%s:%s%s:%s' % (case['fn'], case['form'], '-' + case['layout'] if case.get('layout') else '', case.get('tag', 'value')),
                 sample=case)
        return
    exp = expect_objid(case['args']) if case['fn'] == 'objid' else expect_specid(case['args'])
    conv = 'array' if any(isinstance(v, list) for v in case['args'].values()) else 'scalar'
    if case.get('dtype'):
        conv += '-' + case['dtype']
    if case.get('layout'):
        conv += '-' + case['layout']
    if exp[0] == 'ok':
        out = 'ok:%s:%s:%s' % (case['fn'], conv, case.get('tag', 'value'))
    elif exp[0] == 'either':
        out = 'ok:%s:%s:line+index-with-zero' % (case['fn'], conv)
    else:
        out = 'ok:raises-ValueError:%s:%s:%s:%s' % (case['fn'], exp[1], exp[2], conv)
    acc.case(key, True, out, sample=case)


def outside(lo, hi):
    """Values at distance 1, 2 and 2**k outside [lo, hi], negative values, 2**k themselves; int64-representable."""
    v = {lo - 1, lo - 2, hi + 1, hi + 2}
    for k in range(63):
        for x in (hi + 2 ** k, lo - 2 ** k, 2 ** k, -(2 ** k)):
            if not (lo <= x <= hi) and abs(x) <= 2 ** 62:
                v.add(x)
    return sorted(v, key=lambda x: (abs(x - (hi if x > hi else lo)), x))


def _valid_pair(layout_d, name):
    lo, hi = layout_d[name][3], layout_d[name][4]
    return lo, hi


def reject_task(acc, task, which):
    f = task['field']
    if which == 'obj':
        layout, layout_d, fn, pick = OBJ, OBJ_D, 'objid', OBJ_PICK
        lname = f
    else:
        layout, layout_d, fn, pick = SPEC, SPEC_D, 'specobjid', SPEC_PICK
        lname = 'low' if f in ('line', 'index') else f
    lo, hi = _valid_pair(layout_d, lname)
    bads = outside(lo, hi)
    if lname == 'mjd':
        bads = [b for b in bads if b != 50000]
    corners = corners_of(layout, lname, task['all'], pick)
    for b in bads:
        for c in corners:
            t = dict(c)
            t[lname] = b

            def build(vals_of):
                a = {}
                for name in [x[0] for x in layout]:
                    if name == 'low':
                        if which == 'spec':
                            kind = f if f in ('line', 'index') else ('line' if t['low'] else None)
                            if kind is not None:
                                a[kind] = vals_of(name)
                        continue
                    a[name] = vals_of(name)
                return a
            # scalar
            _one(acc, {'fn': fn, 'args': build(lambda name: t[name])})
            # arrays: n=1, and n=3 with the bad value at each position among valid values
            arrays = [build(lambda name: [t[name]])]
            for pos in range(3):
                def vals_of(name, pos=pos):
                    if name != lname:
                        return [t[name]] * 3
                    v = [lo, hi, lo]
                    v[pos] = b
                    return v
                arrays.append(build(vals_of))
            for a in arrays:
                _one(acc, {'fn': fn, 'args': a})
                # the same request in every narrower integer dtype that can hold the values
                for prof in ('i4', 'i2', 'u2', 'u4'):
                    if fits(prof, a):
                        _one(acc, {'fn': fn, 'args': a, 'dtype': prof})
            if which == 'spec' and f == 'run2d':
                a = build(lambda name: t[name])
                a['run2d'] = str(b)
                _one(acc, {'fn': fn, 'args': a})


def shape_task(acc, which):
    if which == 'obj':
        names, fn = OBJ_NAMES, 'objid'
        mid = {'skyversion': 7, 'rerun': 137, 'run': 3704, 'camcol': 3, 'firstfield': 1, 'field': 91, 'objnum': 146}
        variants = [names]
    else:
        fn = 'specobjid'
        mid = {'plate': 4055, 'fiber': 408, 'mjd': 55359, 'run2d': 700, 'line': 137, 'index': 137}
        variants = [['plate', 'fiber', 'mjd', 'run2d'], ['plate', 'fiber', 'mjd', 'run2d', 'line'],
                    ['plate', 'fiber', 'mjd', 'run2d', 'index']]
    for names_v in variants:
        for r in range(1, len(names_v)):
            for sub in itertools.combinations(names_v, r):
                for n in (1, 2, 3, 0):
                    for m in (0, 1, 2, 3, 4):
                        if m == n:
                            continue
                        args = {name: [mid[name]] * (m if name in sub else n) for name in names_v}
                        _one(acc, {'fn': fn, 'args': args})
                    if n >= 2:
                        # the subset given as Python scalars next to arrays of length n
                        args = {name: (mid[name] if name in sub else [mid[name]] * n) for name in names_v}
                        _one(acc, {'fn': fn, 'args': args})
        # consistent lengths 1..3 (must be accepted)
        for n in (1, 2, 3):
            _one(acc, {'fn': fn, 'args': {name: [mid[name]] * n for name in names_v}, 'tag': 'consistent-length'})


def line_index_task(acc):
    for c in corners_of(SPEC, 'low', True, ()):
        for line, index in itertools.product((0, 1, 1023), repeat=2):
            base = {k: v for k, v in c.items()}
            _one(acc, {'fn': 'specobjid', 'args': dict(base, line=line, index=index)})
            _one(acc, {'fn': 'specobjid', 'args': {k: [v] for k, v in dict(base, line=line, index=index).items()}})
            _one(acc, {'fn': 'specobjid', 'args': {k: [v, v] for k, v in dict(base, line=line, index=index).items()}})
            _one(acc, {'fn': 'specobjid', 'args': dict({k: [v, v] for k, v in base.items()}, line=[0, line], index=[index, 0])})


def run2d_str_task(acc, task):
    menu = (0, 1, 9, 10, 63, 83, 84, 99)
    ns = (5, 6, 4, 3, 2, 1, 0, 7, 8, 9, 10, 15, 99)
    corners = corners_of(SPEC, 'run2d', task['all'], SPEC_PICK)
    for nn in ns:
        for m in menu:
            for p in menu:
                s = 'v%d_%d_%d' % (nn, m, p)
                for c in corners:
                    a = {'plate': c['plate'], 'fiber': c['fiber'], 'mjd': c['mjd'], 'run2d': s}
                    if c['low']:
                        a['line'] = c['low']
                    _one(acc, {'fn': 'specobjid', 'args': a, 'tag': 'vN_M_P'})
    for c in corners:
        for s in ('-1', '-2', '16384', '16385', '-16384', '65536', '4611686018427387904', '-4611686018427387904'):
            a = {'plate': c['plate'], 'fiber': c['fiber'], 'mjd': c['mjd'], 'run2d': s}
            _one(acc, {'fn': 'specobjid', 'args': a})


def mixed_task(acc):
    for c in corners_of(SPEC, None, True, ()):
        for pat in itertools.product((False, True), repeat=5):
            for r2 in ('int', 'dec', 'v'):
                if pat[3] and r2 != 'int':
                    continue
                for kind in (('none',) if c['low'] == 0 else ('line', 'index')):
                    a = {}
                    for name, isarr in zip(('plate', 'fiber', 'mjd', 'run2d'), pat):
                        v = c[name]
                        if name == 'run2d' and r2 != 'int':
                            v = str(v) if r2 == 'dec' else vstring(v)
                        a[name] = [v] if isarr else v
                    if kind != 'none':
                        a[kind] = [c['low']] if pat[4] else c['low']
                    elif pat[4]:
                        continue
                    _one(acc, {'fn': 'specobjid', 'args': a, 'tag': 'mixed-scalar-array1'})
    for c in corners_of(OBJ, None, True, ()):
        for pat in itertools.product((False, True), repeat=7):
            a = {name: ([c[name]] if isarr else c[name]) for name, isarr in zip(OBJ_NAMES, pat)}
            _one(acc, {'fn': 'objid', 'args': a, 'tag': 'mixed-scalar-array1'})


def defaults_task(acc):
    for c in corners_of(OBJ, None, True, ()):
        for omit in itertools.product((False, True), repeat=3):
            drop = [n for n, o in zip(('rerun', 'skyversion', 'firstfield'), omit) if o]
            if not drop:
                continue
            for n in (0, 1, 3):
                a = {name: (c[name] if n == 0 else [c[name]] * n) for name in OBJ_NAMES if name not in drop}
                _one(acc, {'fn': 'objid', 'args': a, 'tag': 'defaults'})


ORDER_ALPHA = {'skyversion': (0, 2, 15), 'rerun': (0, 301, 2047), 'run': (0, 3704, 65535), 'camcol': (1, 3, 6),
               'firstfield': (0, 1), 'field': (0, 91, 4095), 'objnum': (0, 146, 65535),
               'plate': (0, 4055, 16383), 'fiber': (0, 408, 4095), 'mjd': (50001, 55359, 66383), 'run2d': (0, 700, 16383),
               'line': (0, 137, 1023), 'index': (0, 137, 1023)}
ORDER_BASE = {'min': 0, 'mid': 1, 'max': -1}


def order_task(acc, task):
    """Array-ORDER layer: for one field, ALL arrays of length 1..maxlen over its 2-3 value alphabet (a,b,a / a,a,b /
    a,b,b,a ... included), the other fields constant; array call vs. oracle vs. one scalar call per element, and the
    resulting id arrays through every unwrap form/option vs. oracle vs. one-id-at-a-time calls."""
    fn, f = task['fn'], task['field']
    alpha = ORDER_ALPHA[f]
    for base in task['bases']:
        b = ORDER_BASE[base]
        if fn == 'objid':
            const = {name: ORDER_ALPHA[name][b] for name in OBJ_NAMES if name != f}
        else:
            const = {name: ORDER_ALPHA[name][b] for name in ('plate', 'fiber', 'mjd', 'run2d') if name != f}
            if f not in ('line', 'index') and base != 'min':
                const['line' if base == 'mid' else 'index'] = ORDER_ALPHA['line'][b]
        for n in range(1, task['maxlen'] + 1):
            for arr in itertools.product(alpha, repeat=n):
                args = {name: [v] * n for name, v in const.items()}
                args[f] = list(arr)
                for prof, layout in PACK_COMBOS + ((('i8', '0d'), ('i4', '0d')) if n == 1 else ()):
                    if prof not in ('i8', 'i4'):
                        continue
                    case = {'fn': fn, 'args': args, 'tag': 'order'}
                    if prof != 'i8':
                        case['dtype'] = prof
                    if layout != 'native':
                        case['layout'] = layout
                    _one(acc, case)
                exp = expect_objid(args) if fn == 'objid' else expect_specid(args)
                ids = exp[1]
                for form in ('int', 'U', 'S'):
                    for layout in unwrap_layouts(form, n):
                        extra = {} if layout == 'native' else {'layout': layout}
                        if fn == 'objid':
                            _one(acc, dict({'fn': 'unwrap_objid', 'ids': ids, 'form': form, 'tag': 'order'}, **extra))
                        else:
                            for ri in (False, True):
                                for li in (False, True):
                                    _one(acc, dict({'fn': 'unwrap_specobjid', 'ids': ids, 'form': form, 'run2d_integer': ri,
                                                    'specLineIndex': li, 'tag': 'order'}, **extra))


def empty_task(acc):
    """Zero-length array calls (a selection that matches no rows): nothing is out of range, so all four functions must
    return an empty result (documented dtype for the packers, shape (0,) record array for the unwrappers), not raise."""
    for prof, layout in PACK_COMBOS:
        for omit in itertools.product((False, True), repeat=3):
            drop = [nm for nm, o in zip(('rerun', 'skyversion', 'firstfield'), omit) if o]
            case = {'fn': 'objid', 'args': {name: [] for name in OBJ_NAMES if name not in drop}, 'tag': 'zero-length'}
            if prof != 'i8':
                case['dtype'] = prof
            if layout != 'native':
                case['layout'] = layout
            _one(acc, case)
        for kind in (None, 'line', 'index'):
            args = {name: [] for name in ('plate', 'fiber', 'mjd', 'run2d')}
            if kind:
                args[kind] = []
            case = {'fn': 'specobjid', 'args': args, 'tag': 'zero-length'}
            if prof != 'i8':
                case['dtype'] = prof
            if layout != 'native':
                case['layout'] = layout
            _one(acc, case)
    for form in ('int', 'U', 'S'):
        for layout in unwrap_layouts(form):
            extra = {} if layout == 'native' else {'layout': layout}
            _one(acc, dict({'fn': 'unwrap_objid', 'ids': [], 'form': form, 'tag': 'zero-length'}, **extra))
            for ri in (False, True):
                for li in (False, True):
                    _one(acc, dict({'fn': 'unwrap_specobjid', 'ids': [], 'form': form, 'run2d_integer': ri, 'specLineIndex': li,
                                    'tag': 'zero-length'}, **extra))


def run_task(task):
    acc = Acc()
    k = task['k']
    if k == 'obj-sweep':
        obj_sweep(acc, task)
    elif k == 'spec-sweep':
        spec_sweep(acc, task)
    elif k == 'obj-reject':
        reject_task(acc, task, 'obj')
    elif k == 'spec-reject':
        reject_task(acc, task, 'spec')
    elif k == 'obj-shape':
        shape_task(acc, 'obj')
    elif k == 'spec-shape':
        shape_task(acc, 'spec')
    elif k == 'spec-line-index':
        line_index_task(acc)
    elif k == 'spec-run2d-str':
        run2d_str_task(acc, task)
    elif k == 'spec-mixed':
        mixed_task(acc)
    elif k == 'obj-defaults':
        defaults_task(acc)
    elif k == 'order':
        order_task(acc, task)
    elif k == 'empty':
        empty_task(acc)
    else:
        raise ValueError(k)
    return acc


def replay(case):
    return check_case(case) or []
