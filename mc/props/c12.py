"""C12 -- Mangle window functions: membership, window lookup across storage formats, set_use_caps.

Bounded-exhaustive enumeration (DESIGN.md section 3, C12).  Layers:

  cap      is_in_cap on every (centre, cm) of the full alphabet x the structured point set x {xyz, radec}
  centres  caps whose centre is generated from an RA/Dec lattice; the centre and its antipode as points
  poly     is_in_polygon on every ordered tuple of 0..N caps from a 10-cap alphabet x every use-mask
           (plus bits above ncaps) x ncaps argument x {xyz, radec}
  window   is_in_window on every ordered list of <= 3 polygons from a menu, each list obtained through
           every storage route (in memory, copy constructor, .ply, FITS raw / converted incl. the one-cap
           layouts, window_read(balkans=True) with the cap table laid out cumulatively / in reversed or rotated
           polygon order / with unreferenced filler rows / with shared cap rows) x ncaps argument x {xyz, radec}
  usecaps  set_use_caps on every polygon of <= N caps from a duplicate-rich alphabet x every index list
           of length <= 3 x add/initial mask x allow_doubles x allow_neg_doubles

Oracle: the cap inequalities evaluated in exact rational arithmetic on the float64 vectors actually passed
(Cartesian input) or in 80-bit arithmetic from the float64 angles actually passed (RA/Dec input), with a
1e-12 don't-care band around every cap boundary; first-match index; Python-int bit algebra.
"""
import fractions
import itertools
import math
import os
import shutil
import tempfile

import numpy as np

from mc.core import Acc

PROP = 'C12'
LEVEL = 'exploration'
ENGINE = 'E1'
TECHNIQUE = 'model checking: bounded-exhaustive enumeration of cap tuples x use-masks x structured sphere points x storage formats, and of index lists for set_use_caps, against exact cap inequalities'
LEVEL_TEXT = 'every polygon of <= 3 (thorough: 4) caps over a 10-cap alphabet with every use-mask, every window of <= 3 polygons through every storage route, and every index list of length <= 3 were executed on the real code and decided by an independent exact-arithmetic reference'
LEVEL_NOTE = 'holds inside the stated alphabets only; points closer than 1e-12 (in 1 - x.p) to a cap boundary are not decided; .ply files carry shortest-round-trip decimals; trusted: fractions.Fraction, numpy longdouble, astropy FITS I/O used to write the fixtures'
RULE = ('cap/poly: one case = one call (cap tuple, use-mask, ncaps argument, point format) on the whole point set '
        '(8 cap centres and antipodes, +-1e-6 rad either side of 48 cap boundaries); non-trivial when at least one point is '
        'decided inside and one outside. centres: one case = one RA/Dec-generated cap with its own centre and antipode '
        'as points; non-trivial when the float64 self-dot of the centre differs from 1. window: one case = one '
        'is_in_window call (polygon list, mask mode, storage route, ncaps argument, point format); non-trivial when '
        'at least two different indices (incl. -1) are expected. usecaps: one case = one set_use_caps call; '
        'non-trivial when the index list is not an identity prefix or a duplicate has to be removed. '
        'Distinct = distinct case keys (all parameters of the call).')
ASSUMPTIONS = [
    'cap sizes cm are taken from {1e-6, 0.1, 0.5, 1, 1.5, 2, -0.1, -0.5, -1.5, 0, -2, -2.5}; cm > 2 and -0.0 are outside the bound',
    'a point whose 1 - x.p lies within 1e-12 of |cm| for a used cap is a don\'t-care for that cap (three-valued AND); the only '
    'boundary points decided are axis points on axis great-circle caps (cm = 1, Cartesian input), where 1 - x.p = cm holds '
    'exactly in float64 and the stated "<=" makes them inside',
    'Cartesian points are unit vectors to float64 rounding (|p| = 1 +- 3e-16); the inequality is evaluated on the vectors as given',
    'Mangle text files carry polygon numbers that are ascending, descending, all equal or non-monotone with repeats; the list '
    'returned by the reader must follow the file order in every case',
    'Mangle text files are written with shortest-round-trip decimals so that all storage routes hold bit-identical caps; '
    'the .ply format and the blist/bcaps tables carry no use-mask, so these routes are compared on all-caps masks only',
    'window polygons have 1..3 caps (the quantifier of the property); the zero-cap polygon is exercised in memory only',
    'degenerate caps cm = 0 (only the centre, which lies in the band), cm = -2 and cm = -2.5 (nothing) and cm = 2 (everything) are '
    'enumerated as used, masked-off and beyond-ncaps caps; positive cm > 2 is outside the bound',
    'set_use_caps: duplicates are exact copies (and sign-flipped copies unless allow_neg_doubles) as documented; '
    'near-duplicates at the tolerance are not generated; indices are < ncaps; default tol',
]

F = fractions.Fraction
LD = np.longdouble
PI_LD = LD(4) * np.arctan(LD(1))
BAND = 1e-12
BAND_F = F(1, 10 ** 12)
NEAR1 = 1e-15
TOL = 1.0e-10


# ---------------------------------------------------------------------------------------------
# alphabets
# ---------------------------------------------------------------------------------------------
def vec_from_radec64(ra, dec):
    """The usual float64 construction of a unit vector from RA/Dec (input generator, not an oracle)."""
    phi = math.radians(ra)
    theta = math.radians(90.0 - dec)
    st = math.sin(theta)
    return (math.cos(phi) * st, math.sin(phi) * st, math.cos(theta))


V3 = 1.0 / math.sqrt(3.0)
R_RADEC = (105.0, 15.0)          # its float64 vector has x.x = 1.0000000000000002
R_VEC = vec_from_radec64(*R_RADEC)

# name, vector, nominal RA/Dec
CENTRES = [
    ('+z', (0.0, 0.0, 1.0), (0.0, 90.0)),
    ('+x', (1.0, 0.0, 0.0), (0.0, 0.0)),
    ('+y', (0.0, 1.0, 0.0), (90.0, 0.0)),
    ('-z', (0.0, 0.0, -1.0), (0.0, -90.0)),
    ('-x', (-1.0, 0.0, 0.0), (180.0, 0.0)),
    ('-y', (0.0, -1.0, 0.0), (270.0, 0.0)),
    ('d', (V3, V3, V3), (45.0, math.degrees(math.atan2(V3, math.hypot(V3, V3))))),
    ('r', R_VEC, R_RADEC),
]
CVEC = {n: v for n, v, _r in CENTRES}
CMS = [0.5, 1.0, 0.1, 1.5, 1.0e-6, 2.0, -0.5, -0.1, -1.5, 0.0, -2.0, -2.5]    # the last three are degenerate (empty) caps
ABS_CMS = [0.5, 1.0, 0.1, 1.5, 1.0e-6, 2.0]

# 10-cap alphabet for polygons, simplest first
POLY_CAPS = [('+z', 0.5), ('+x', 1.0), ('+z', -0.1), ('-x', 1.5), ('+y', 0.1),
             ('d', 0.5), ('r', 1.0e-6), ('r', -0.5), ('-y', -1.5), ('-z', 2.0)]

# alphabet with degenerate caps: cm = 0 (only the centre), cm <= -2 (nothing), cm = 2 (everything)
DEG_CAPS = [('+z', 0.5), ('+x', 1.0), ('d', -0.5), ('+z', 0.0), ('+x', -2.0), ('d', -2.5), ('-z', 2.0)]
ALPHAS = {'std': POLY_CAPS, 'deg': DEG_CAPS}

# duplicate-rich alphabet for set_use_caps
USE_CAPS_ALPHA = [('+z', 0.5), ('+z', -0.5), ('+z', 0.3), ('+z', -0.3), ('+x', 0.5)]

# polygon menu for windows: (cap ids into POLY_CAPS, use-mask)
WIN_MENU = [
    ((0,), 1),                 # one cap around +z
    ((1, 2), 3),               # hemisphere +x minus a small hole at +z
    ((5, 0), 1),               # two caps, only the first used
    ((3, 8, 1), 5),            # three caps, middle one unused
    ((7,), 1),                 # everything but a cap around r
    ((6, 5), 3),               # tiny cap at r inside the cap around d
    ((4, 2), 2),               # only the negative cap used
    ((9, 6, 0), 6),            # first unused
    ((8, 3), 7),               # bit above ncaps set
]


# second menu: degenerate caps used / masked off / beyond an ncaps limit; a cap with its own complement; exact duplicates
WIN_MENU_DEG = [
    ([('+z', 0.5), ('+x', 0.0)], 1),                   # degenerate cap masked off
    ([('+x', 1.0), ('d', -2.0)], 3),                   # empty: a used cm = -2 cap (hemisphere when ncaps = 1)
    ([('d', -0.5), ('+z', -2.5), ('+x', 1.0)], 5),     # cm < -2 cap masked off in the middle
    ([('-z', 2.0), ('+y', 0.1)], 3),                   # whole-sphere cap used
    ([('+y', 0.1), ('+y', -2.0)], 1),                  # degenerate second cap masked off
    ([('+z', 0.0)], 1),                                # a single cm = 0 cap
    ([('+z', 0.5), ('+z', -0.5)], 3),                  # a cap and its complement: empty
    ([('+x', 1.0), ('+x', 1.0)], 3),                   # exact duplicate caps
    ([('d', 0.5), ('+z', 0.5), ('d', -0.5)], 7),       # complement pair around another cap
]


def cap_of(cid, alpha=POLY_CAPS):
    n, cm = alpha[cid]
    v = CVEC[n]
    return [v[0], v[1], v[2], cm]


def _perp(c):
    k = min(range(3), key=lambda i: (abs(c[i]), i))
    a = [0.0, 0.0, 0.0]
    a[k] = 1.0
    e = (c[1] * a[2] - c[2] * a[1], c[2] * a[0] - c[0] * a[2], c[0] * a[1] - c[1] * a[0])
    nrm = math.sqrt(e[0] ** 2 + e[1] ** 2 + e[2] ** 2)
    return (e[0] / nrm, e[1] / nrm, e[2] / nrm)


def radec_from_vec(p):
    ra = math.degrees(math.atan2(p[1], p[0])) % 360.0
    dec = math.degrees(math.atan2(p[2], math.hypot(p[0], p[1])))
    return (ra, dec)


def _build_points():
    pts = []
    for n, v, rd in CENTRES:
        pts.append(('centre:' + n, v, rd))
    for n, v, rd in CENTRES:
        pts.append(('antipode:' + n, (-v[0], -v[1], -v[2]), ((rd[0] + 180.0) % 360.0, -rd[1])))
    for n, v, rd in CENTRES:
        e = _perp(v)
        for a in ABS_CMS:
            th0 = math.acos(1.0 - a)
            for s in (-1.0, 1.0):
                th = th0 + s * 1.0e-6
                p = tuple(math.cos(th) * v[i] + math.sin(th) * e[i] for i in range(3))
                pts.append(('edge:%s:%g:%+g' % (n, a, s), p, radec_from_vec(p)))
    return pts


POINTS = _build_points()
PTS_XYZ = np.array([p[1] for p in POINTS], dtype=np.float64)
PTS_RADEC = np.array([p[2] for p in POINTS], dtype=np.float64)


def std_points(fmt):
    return PTS_XYZ if fmt == 'xyz' else PTS_RADEC


# ---------------------------------------------------------------------------------------------
# oracle
# ---------------------------------------------------------------------------------------------
def dots(c, pts, fmt):
    """x.p for one cap centre and all points: list of Fractions (xyz) or longdouble array (radec)."""
    if fmt == 'xyz':
        fc = [F(float(v)) for v in c]
        return [sum(F(float(u)) * w for u, w in zip(p, fc)) for p in pts]
    pts = np.asarray(pts, dtype=np.float64)
    ra = pts[:, 0].astype(LD) * PI_LD / LD(180)
    dec = pts[:, 1].astype(LD) * PI_LD / LD(180)
    cd = np.cos(dec)
    return cd * np.cos(ra) * LD(c[0]) + cd * np.sin(ra) * LD(c[1]) + np.sin(dec) * LD(c[2])


def decide(dotlist, cm, fmt):
    """-> (int8 array: 1 inside, 0 outside, -1 inside the don't-care band; float array of x.p)."""
    n = len(dotlist)
    out = np.empty(n, dtype=np.int8)
    if fmt == 'xyz':
        a = F(abs(float(cm)))
        for k, d in enumerate(dotlist):
            t = 1 - d - a
            if abs(t) <= BAND_F:
                out[k] = -1
            elif cm >= 0:
                out[k] = 1 if t < 0 else 0
            else:
                out[k] = 1 if t > 0 else 0
        return out, np.array([float(d) for d in dotlist]), float(cm)
    t = LD(1) - dotlist - LD(abs(float(cm)))
    if cm >= 0:
        out[:] = (t < 0)
    else:
        out[:] = (t > 0)
    out[np.abs(t) <= LD(BAND)] = -1
    return out, dotlist.astype(np.float64), float(cm)


_dot_cache = {}
_dec_cache = {}


def std_decision(centre_name, cm, fmt):
    key = (centre_name, cm, fmt)
    r = _dec_cache.get(key)
    if r is None:
        dk = (centre_name, fmt)
        d = _dot_cache.get(dk)
        if d is None:
            d = _dot_cache[dk] = dots(CVEC[centre_name], std_points(fmt), fmt)
        r = _dec_cache[key] = decide(d, cm, fmt)
    return r


def and3(decs, npts):
    any0 = np.zeros(npts, dtype=bool)
    anyb = np.zeros(npts, dtype=bool)
    for d, _dot, _cm in decs:
        any0 |= (d == 0)
        anyb |= (d == -1)
    return np.where(any0, 0, np.where(anyb, -1, 1)).astype(np.int8)


def used_indices(n, use, ncapsarg):
    neff = n if ncapsarg <= 0 else min(ncapsarg, n)
    return [i for i in range(neff) if (use >> i) & 1]


def near_tag(decs, k):
    """Trigger predicate for a point wrongly reported outside: does point k sit at the centre of a used cap with
    cm >= 0 or at the antipode of a used cap with cm < 0 (|x.p| within 1e-15 of 1, where x.p can round beyond 1)?"""
    tags = set()
    for _d, dot, cm in decs:
        if dot[k] >= 1.0 - NEAR1 and cm >= 0:
            tags.add('point-at-centre-of-cap')
        elif dot[k] <= -1.0 + NEAR1 and cm < 0:
            tags.add('point-at-antipode-of-negative-cap')
    return '+'.join(sorted(tags))


def o_use_caps(caps, idx, add, init, allow_doubles, allow_neg):
    n = len(caps)
    m = init if add else 0
    for i in idx:
        m |= 1 << i
    plain = m
    if not allow_doubles:
        for i in range(n):
            if (m >> i) & 1:
                for j in range(i + 1, n):
                    if (m >> j) & 1 and tuple(caps[i][:3]) == tuple(caps[j][:3]):
                        if caps[i][3] == caps[j][3] or (caps[i][3] == -caps[j][3] and not allow_neg):
                            m &= ~(1 << j)
    return m, plain


# ---------------------------------------------------------------------------------------------
# writers for the storage formats (fixtures; independent of pydl)
# ---------------------------------------------------------------------------------------------
# polygon-id menus of a Mangle text file: the number after "polygon" is a label (pixel / field number), the list order is
# the order in the file
PLY_IDS = {'ply': lambda k: k,                              # 0, 1, 2 (ascending, contiguous)
           'ply-desc': lambda k: 1000 - 7 * k,              # descending, non-contiguous
           'ply-same': lambda k: 407,                       # repeated id
           'ply-mixed': lambda k: [407, 122, 407, 35][k % 4]}   # non-monotone with a repeat


def ply_formats_for(specs):
    return ['ply'] + (['ply-desc', 'ply-same', 'ply-mixed'] if len(specs) >= 2 else ['ply-mixed'])


def write_ply(path, specs, ids='ply'):
    lines = ['%d polygons' % len(specs), 'snapped', 'balkanized']
    for k, s in enumerate(specs):
        lines.append('polygon %d ( %d caps, 1 weight, 0 pixel, 1.0 str):' % (PLY_IDS[ids](k), len(s['caps'])))
        for c in s['caps']:
            lines.append(' ' + ' '.join(repr(float(v)) for v in c))
    with open(path, 'w') as f:
        f.write('\n'.join(lines) + '\n')


def write_fits(path, specs, layout):
    """layout: 'std' (TDIM (3,m)), 'flat' (one-cap table as IDL/MWRFITS writes it: 3D and D without TDIM)."""
    from astropy.io import fits
    n = len(specs)
    m = max(len(s['caps']) for s in specs)
    X = np.zeros((n, m, 3))
    C = np.zeros((n, m))
    for k, s in enumerate(specs):
        for i, c in enumerate(s['caps']):
            X[k, i, :] = c[:3]
            C[k, i] = c[3]
    if layout == 'flat':
        assert m == 1
        cols = [fits.Column(name='XCAPS', format='3D', array=X[:, 0, :]),
                fits.Column(name='CMCAPS', format='D', array=C[:, 0])]
    else:
        cols = [fits.Column(name='XCAPS', format='%dD' % (3 * m), dim='(3,%d)' % m, array=X),
                fits.Column(name='CMCAPS', format='%dD' % m, array=C)]
    cols += [fits.Column(name='IFIELD', format='J', array=np.arange(n, dtype=np.int32)),
             fits.Column(name='NCAPS', format='J', array=np.array([len(s['caps']) for s in specs], dtype=np.int32)),
             fits.Column(name='WEIGHT', format='D', array=np.ones(n)),
             fits.Column(name='PIXEL', format='J', array=np.zeros(n, dtype=np.int32)),
             fits.Column(name='STR', format='D', array=np.ones(n)),
             fits.Column(name='USE_CAPS', format='J', bzero=2 ** 31,
                         array=np.array([s['use'] for s in specs], dtype=np.uint32))]
    fits.BinTableHDU.from_columns(cols).writeto(path, overwrite=True)


FILLER_CAP = [0.0, 0.0, 1.0, 1.0e-6]       # an unreferenced bcaps row; reading it would change almost every answer


def balkans_layout(specs, layout):
    """Rows of window_bcaps and the ICAP of each polygon for one storage layout of the same logical window.
    'cum': cap blocks back to back in blist order; 'rev' / 'rot': blocks stored in reversed / rotated polygon order;
    'fill': unreferenced rows before, between and after the blocks; 'shared': polygons with identical caps point
    at the same rows."""
    n = len(specs)
    blocks = [[[float(v) for v in c] for c in s['caps']] for s in specs]
    order = list(range(n))
    if layout == 'rev':
        order = order[::-1]
    elif layout == 'rot':
        order = order[1:] + order[:1]
    rows, icap = [], [None] * n
    if layout == 'shared':
        seen = {}
        for k in order:
            key = tuple(tuple(c) for c in blocks[k])
            if key not in seen:
                seen[key] = len(rows)
                rows.extend(blocks[k])
            icap[k] = seen[key]
        return rows, icap
    if layout == 'fill':
        rows.extend([FILLER_CAP, FILLER_CAP])
    for j, k in enumerate(order):
        icap[k] = len(rows)
        rows.extend(blocks[k])
        if layout == 'fill':
            rows.extend([FILLER_CAP] * (1 + j % 2))
    return rows, icap


def balkans_layouts_for(specs):
    """The layouts that differ from the cumulative one for this window."""
    n = len(specs)
    keys = [tuple(tuple(c) for c in s['caps']) for s in specs]
    out = ['balkans', 'balkans-fill']
    if n >= 2:
        out.append('balkans-rev')
    if n >= 3:
        out.append('balkans-rot')
    if len(set(keys)) < n:
        out.append('balkans-shared')
    return out


def write_balkans(d, specs, layout='cum'):
    from astropy.table import Table
    n = len(specs)
    nc = np.array([len(s['caps']) for s in specs], dtype=np.int32)
    rows, icap = balkans_layout(specs, layout)
    icap = np.array(icap, dtype=np.int32)
    bl = Table({'IPRIMARY': np.arange(n, dtype=np.int32), 'IBINDX': np.zeros(n, dtype=np.int32), 'NCAPS': nc,
                'ICAP': icap, 'WEIGHT': np.ones(n), 'STR': np.ones(n)})
    X = np.array([c[:3] for c in rows], dtype=np.float64).reshape(-1, 3)
    C = np.array([c[3] for c in rows], dtype=np.float64)
    bc = Table({'X': X, 'CM': C})
    bl.write(os.path.join(d, 'window_blist.fits'), overwrite=True)
    bc.write(os.path.join(d, 'window_bcaps.fits'), overwrite=True)


FORMATS_MASK = ['mem', 'copy', 'fits-conv', 'fits-raw']     # routes that carry a use-mask
FORMATS_NOMASK = []                                         # routes that imply all caps: ply_formats_for + balkans_layouts_for
ONECAP_FORMATS = ['fits1-conv', 'fits1-raw']                # MWRFITS one-cap layout (XCAPS 1-D per row)
READER = {'mem': 'ManglePolygon', 'copy': 'ManglePolygon', 'fits-conv': 'read_fits_polygons',
          'fits-raw': 'read_fits_polygons', 'fits1-conv': 'read_fits_polygons', 'fits1-raw': 'read_fits_polygons',
          'ply': 'read_mangle_polygons', 'ply-desc': 'read_mangle_polygons', 'ply-same': 'read_mangle_polygons',
          'ply-mixed': 'read_mangle_polygons', 'balkans': 'window_read', 'balkans-fill': 'window_read',
          'balkans-rev': 'window_read', 'balkans-rot': 'window_read', 'balkans-shared': 'window_read'}


def make_polygon(spec):
    import pydl.pydlutils.mangle as mng
    caps = spec['caps']
    if len(caps) == 0:
        if spec.get('ctor') == 'kw0':
            return mng.ManglePolygon(x=np.zeros((0, 3)), cm=np.zeros((0,)), use_caps=spec.get('use', 0))
        return mng.ManglePolygon()
    a = np.array(caps, dtype=np.float64)
    return mng.ManglePolygon(x=a[:, :3].copy(), cm=a[:, 3].copy(), use_caps=spec['use'])


def load_polys(fmt, specs, tmp):
    """Obtain the polygon list through one storage route.  tmp = an empty scratch directory."""
    import pydl.pydlutils.mangle as mng
    if fmt == 'mem':
        return [make_polygon(s) for s in specs]
    if fmt == 'copy':
        return mng.PolygonList([mng.ManglePolygon(make_polygon(s)) for s in specs])
    if fmt in ('fits-conv', 'fits-raw', 'fits1-conv', 'fits1-raw'):
        path = os.path.join(tmp, 'polygons.fits')
        write_fits(path, specs, 'flat' if fmt.startswith('fits1') else 'std')
        return mng.read_fits_polygons(path, convert=fmt.endswith('conv'))
    if fmt.startswith('ply'):
        path = os.path.join(tmp, 'polygons.ply')
        write_ply(path, specs, fmt)
        return mng.read_mangle_polygons(path)
    if fmt.startswith('balkans'):
        from pydl.photoop.window import window_read
        write_balkans(tmp, specs, fmt.split('-')[1] if '-' in fmt else 'cum')
        old = os.environ.get('PHOTO_RESOLVE')
        os.environ['PHOTO_RESOLVE'] = tmp
        try:
            return window_read(balkans=True)['balkans']
        finally:
            if old is None:
                del os.environ['PHOTO_RESOLVE']
            else:
                os.environ['PHOTO_RESOLVE'] = old
    raise ValueError(fmt)


# ---------------------------------------------------------------------------------------------
# checks (shared by the explorer and by replay)
# ---------------------------------------------------------------------------------------------
POINT_LAYOUTS = ['be', 'strided', 'fortran', 'readonly']      # same float64 numbers in another memory layout


def relayout(a, layout):
    a = np.asarray(a, dtype=np.float64)
    if layout == 'be':
        return a.astype('>f8')
    if layout == 'strided':
        b = np.zeros((a.shape[0], 2 * a.shape[1]))
        b[:, ::2] = a
        return b[:, ::2]
    if layout == 'fortran':
        return np.asfortranarray(a)
    if layout == 'readonly':
        b = a.copy()
        b.setflags(write=False)
        return b
    return a


def _membership(entry, caps, use, ncapsarg, fmt, pts, decs, ctor=None, playout=None):
    """One call of is_in_cap / is_in_polygon.  decs[i] = (decision, dot) of cap i on pts.
    -> (list of (sig, msg, point index), expected int8 array)."""
    import pydl.pydlutils.mangle as mng
    npts = len(pts)
    if entry == 'is_in_cap':
        used = [0]
    else:
        used = used_indices(len(caps), use, ncapsarg)
    exp = and3([decs[i] for i in used], npts)
    if playout:
        v, _e = _membership(entry, caps, use, ncapsarg, fmt, pts, decs, ctor)
        cpts = relayout(pts, playout)
        try:
            if entry == 'is_in_cap':
                got = mng.is_in_cap(np.array(caps[0][:3], dtype=np.float64), float(caps[0][3]), cpts)
            else:
                got = mng.is_in_polygon(make_polygon({'caps': caps, 'use': use, 'ctor': ctor}), cpts, ncaps=ncapsarg)
        except Exception as e:  # noqa: BLE001
            return v + [('%s:exception:%s:point-layout=%s' % (entry, type(e).__name__, playout), repr(e), 0)], exp
        got = np.asarray(got)
        bad = np.nonzero((exp >= 0) & (got != (exp == 1)))[0] if got.shape == (npts,) else np.array([0])
        if len(bad) and not v:
            k = int(bad[0])
            v = v + [('%s:membership:point-layout=%s' % (entry, playout),
                      'point %s (%s) handed over as a %s array gives a different answer' % (pts[k].tolist(), fmt, playout), k)]
        if not np.array_equal(np.asarray(cpts, dtype=np.float64), pts):
            v = v + [('%s:points-modified:point-layout=%s' % (entry, playout), 'caller array changed', 0)]
        return v, exp
    try:
        if entry == 'is_in_cap':
            got = mng.is_in_cap(np.array(caps[0][:3], dtype=np.float64), float(caps[0][3]), pts)
        else:
            poly = make_polygon({'caps': caps, 'use': use, 'ctor': ctor})
            got = mng.is_in_polygon(poly, pts, ncaps=ncapsarg)
    except Exception as e:  # noqa: BLE001
        return [('%s:exception:%s' % (entry, type(e).__name__), repr(e), 0)], exp
    got = np.asarray(got)
    if got.shape != (npts,) or got.dtype != np.bool_:
        return [('%s:result-shape-or-dtype' % entry, 'shape %s dtype %s' % (got.shape, got.dtype), 0)], exp
    bad = np.nonzero((exp >= 0) & (got != (exp == 1)))[0]
    out = []
    seen = set()
    for k in bad:
        tag = near_tag([decs[i] for i in used], k) if (exp[k] == 1 and not got[k]) else ''
        sig = '%s:membership' % entry + (':' + tag if tag else '')
        if sig in seen:
            continue
        seen.add(sig)
        out.append((sig, 'point %s (%s) reported %s, the cap inequalities say %s; used caps %s'
                    % (pts[k].tolist(), fmt, 'inside' if got[k] else 'outside', 'inside' if exp[k] == 1 else 'outside',
                       [caps[i] for i in used]), int(k)))
    return out, exp


def _window_expected(specs, ncapsarg, fmt, pts, std):
    """First-match index per point, -2 = undecided."""
    npts = len(pts)
    res = np.full(npts, -1, dtype=np.int64)
    open_ = np.ones(npts, dtype=bool)        # still looking
    alldecs = []
    for k, s in enumerate(specs):
        used = used_indices(len(s['caps']), s['use'], ncapsarg)
        decs = []
        for i in used:
            c = s['caps'][i]
            if std:
                decs.append(std_decision(_centre_name(c), c[3], fmt))
            else:
                decs.append(decide(dots(c[:3], pts, fmt), c[3], fmt))
        d = and3(decs, npts)
        res[open_ & (d == 1)] = k
        res[open_ & (d == -1)] = -2
        open_ &= (d == 0)
        alldecs.extend(decs)
    return res, alldecs


_cname = {}


def _centre_name(c):
    if not _cname:
        for n, v, _r in CENTRES:
            _cname[tuple(v)] = n
    return _cname[tuple(c[:3])]


def _window_call(polys, pts, ncapsarg):
    import pydl.pydlutils.mangle as mng
    r = mng.is_in_window(polys, pts, ncaps=ncapsarg)
    flag, idx = r
    return np.asarray(flag), np.asarray(idx)


def _ply_file_order(fmt, specs, polys):
    """read_mangle_polygons must return the polygons in file order, whatever their polygon numbers."""
    try:
        n = len(polys)
        if n != len(specs):
            return [('read_mangle_polygons:polygon-count:%s' % fmt, '%d polygons read, %d written' % (n, len(specs)), 0)]
        for k, sp in enumerate(specs):
            a = np.array(sp['caps'], dtype=np.float64)
            if not (np.array_equal(np.asarray(polys[k].x), a[:, :3]) and np.array_equal(np.asarray(polys[k].cm), a[:, 3])):
                return [('read_mangle_polygons:list-order-differs-from-file-order:%s' % fmt,
                         'entry %d of the list (id %s) does not hold the caps of polygon %d of the file; ids in file order %s'
                         % (k, getattr(polys[k], 'id', '?'), k, [PLY_IDS[fmt](j) for j in range(n)]), 0)]
    except Exception as e:  # noqa: BLE001
        return [('read_mangle_polygons:exception:%s:%s' % (type(e).__name__, fmt), repr(e), 0)]
    return []


def _balkans_use_caps(fmt, specs, polys):
    """window_read(balkans=True) must select every cap of every balkan."""
    if fmt.startswith('ply'):
        return _ply_file_order(fmt, specs, polys)
    if not fmt.startswith('balkans'):
        return []
    try:
        got = [int(v) for v in np.asarray(polys['USE_CAPS'])]
        nc = [int(v) for v in np.asarray(polys['NCAPS'])]
    except Exception as e:  # noqa: BLE001
        return [('window_read:exception:%s:%s' % (type(e).__name__, fmt), repr(e), 0)]
    exp = [(1 << len(s['caps'])) - 1 for s in specs]
    if nc != [len(s['caps']) for s in specs] or got != exp:
        return [('window_read:use_caps-not-all-caps:%s' % fmt, 'NCAPS %s USE_CAPS %s, expected USE_CAPS %s' % (nc, got, exp), 0)]
    return []


def _is_onecap_raw(fmt, specs):
    return fmt in ('fits-raw', 'fits1-raw') and max(len(s['caps']) for s in specs) == 1


def _window_check(fmt, specs, polys, ncapsarg, pfmt, pts, exp, ref, alldecs):
    """Compare one is_in_window call with the oracle (exp) and with the in-memory answer (ref)."""
    out = []
    try:
        flag, idx = _window_call(polys, pts, ncapsarg)
    except Exception as e:  # noqa: BLE001
        trig = 'fits-raw-one-cap-table' if _is_onecap_raw(fmt, specs) else fmt
        return [('is_in_window:exception:%s:%s' % (type(e).__name__, trig), repr(e), 0)], None
    npts = len(pts)
    if flag.shape != (npts,) or idx.shape != (npts,):
        return [('is_in_window:result-shape:%s' % fmt, 'shapes %s %s' % (flag.shape, idx.shape), 0)], None
    dec = exp != -2
    bad = np.nonzero(dec & (idx != exp))[0]
    if len(bad):
        seen = set()
        for k in bad:
            tag = near_tag(alldecs, k) if (idx[k] == -1 or idx[k] > exp[k] >= 0) else ''
            sig = 'is_in_window:first-match-index:' + (tag if tag else fmt)
            if sig in seen:
                continue
            seen.add(sig)
            out.append((sig, 'point %s (%s) via %s: index %d, expected %d'
                        % (pts[k].tolist(), pfmt, fmt, int(idx[k]), int(exp[k])), int(k)))
    badf = np.nonzero(flag != (idx >= 0))[0]
    if len(badf):
        k = int(badf[0])
        out.append(('is_in_window:flag-vs-index:%s' % fmt, 'point %d: flag %s index %d' % (k, flag[k], idx[k]), k))
    if ref is not None and not np.array_equal(idx, ref):
        k = int(np.nonzero(idx != ref)[0][0])
        out.append(('is_in_window:differs-from-in-memory:%s' % fmt,
                    'point %s (%s): index %d via %s, %d in memory' % (pts[k].tolist(), pfmt, int(idx[k]), fmt, int(ref[k])),
                    k))
    return out, idx


def _usecaps_check(caps, idx, add, init, ad, an):
    import pydl.pydlutils.mangle as mng
    exp, plain = o_use_caps(caps, idx, add, init, ad, an)
    n = len(caps)
    p_idx_exc = any(i >= len(idx) for i in idx)
    p_idx = p_idx_exc or (set(idx[i] for i in idx) != set(idx))
    p_neg = False
    if not ad and not an:
        for i in range(n):
            for j in range(i + 1, n):
                if (plain >> i) & 1 and (plain >> j) & 1 and tuple(caps[i][:3]) == tuple(caps[j][:3]):
                    if caps[i][3] + caps[j][3] < TOL and abs(caps[i][3]) != abs(caps[j][3]):
                        p_neg = True
    a = np.array(caps, dtype=np.float64)
    poly = mng.ManglePolygon(x=a[:, :3].copy(), cm=a[:, 3].copy(), use_caps=init)
    try:
        got = mng.set_use_caps(poly, list(idx), add=add, allow_doubles=ad, allow_neg_doubles=an)
    except Exception as e:  # noqa: BLE001
        trig = ':index>=len(index_list)' if (isinstance(e, IndexError) and p_idx_exc) else ''
        return [('set_use_caps:exception:%s%s' % (type(e).__name__, trig), repr(e))], exp, plain
    out = []
    trig = (':index-list-not-closed-under-self-indexing' if p_idx else '') + \
           (':same-centre-non-duplicate-with-cm-sum<tol' if p_neg else '')
    if int(got) != exp:
        out.append(('set_use_caps:use_caps-bits' + trig,
                    'returned %s, expected %s (selected bits %s)' % (bin(int(got)), bin(exp), bin(plain))))
    elif int(poly.use_caps) != exp:
        out.append(('set_use_caps:polygon.use_caps-not-updated', 'polygon.use_caps %s, returned %s'
                    % (bin(int(poly.use_caps)), bin(int(got)))))
    return out, exp, plain


# ---------------------------------------------------------------------------------------------
# replayable case checker
# ---------------------------------------------------------------------------------------------
def check_case(case):
    layer = case['layer']
    if layer in ('cap', 'poly', 'centres'):
        fmt = case['fmt']
        pts = np.array(case['pts'], dtype=np.float64)
        caps = case['caps']
        decs = [decide(dots(c[:3], pts, fmt), c[3], fmt) for c in caps]
        entry = 'is_in_polygon' if layer == 'poly' else 'is_in_cap'
        if case.get('exact'):
            # exact-boundary case: 1 - x.p == cm > 0 in exact arithmetic -> inside by the stated inequality
            ok = fmt == 'xyz' and all(c[3] > 0 and all(1 - d - F(float(c[3])) == 0 for d in dots(c[:3], pts, fmt))
                                      for c in caps)
            if not ok:
                raise ValueError('not an exact-boundary case')
            decs = [(np.ones(len(pts), dtype=np.int8), np.zeros(len(pts)), 1.0) for _c in caps]
        v, _exp = _membership(entry, caps, case.get('use', 1), case.get('ncaps', 0), fmt, pts, decs, case.get('ctor'),
                              case.get('playout'))
        if case.get('exact'):
            v = [(s.replace(':membership', ':membership:exact-boundary'), m, k) for s, m, k in v]
        return [(s, m) for s, m, _k in v]
    if layer == 'window':
        fmt, pfmt, ncapsarg = case['fmt'], case['pfmt'], case['ncaps']
        specs = case['polys']
        pts = np.array(case['pts'], dtype=np.float64)
        exp, alldecs = _window_expected(specs, ncapsarg, pfmt, pts, std=False)
        tmp = tempfile.mkdtemp(prefix='verif_c12_')
        try:
            ref = None
            if fmt != 'mem':
                try:
                    _f, ref = _window_call(load_polys('mem', specs, tmp), pts, ncapsarg)
                except Exception:  # noqa: BLE001
                    ref = None
            try:
                polys = load_polys(fmt, specs, tmp)
            except Exception as e:  # noqa: BLE001
                return [('%s:exception:%s:%s' % (READER[fmt], type(e).__name__, fmt), repr(e))]
            v, _idx = _window_check(fmt, specs, polys, ncapsarg, pfmt, pts, exp, ref, alldecs)
            v = _balkans_use_caps(fmt, specs, polys) + v
            return [(s, m) for s, m, _k in v]
        finally:
            shutil.rmtree(tmp, ignore_errors=True)
    if layer == 'usecaps':
        v, _e, _p = _usecaps_check(case['caps'], case['idx'], case['add'], case['init'], case['ad'], case['an'])
        return v
    raise ValueError('unknown layer %r' % layer)


def replay(case):
    return check_case(case)


# ---------------------------------------------------------------------------------------------
# tasks
# ---------------------------------------------------------------------------------------------
def tasks(tier):
    T = tier == 'thorough'
    t = [{'layer': 'small'}]
    nra, ndec = (72, 37) if T else (24, 13)
    nblk = 8 if T else 4
    for b in range(nblk):
        t.append({'layer': 'centres', 'nra': nra, 'ndec': ndec, 'blk': b, 'nblk': nblk})
    for fmt in ('xyz', 'radec'):
        t.append({'layer': 'poly', 'n': 2, 'prefix': [], 'fmt': fmt})
    for a in range(10):
        for fmt in ('xyz', 'radec'):
            t.append({'layer': 'poly', 'n': 3, 'prefix': [a], 'fmt': fmt})
    if T:
        for a in range(10):
            for b in range(10):
                for fmt in ('xyz', 'radec'):
                    t.append({'layer': 'poly', 'n': 4, 'prefix': [a, b], 'fmt': fmt})
    nmenu = 9 if T else 6
    for a in range(nmenu):
        t.append({'layer': 'window', 'menu': nmenu, 'prefix': [a], 'len': [1, 2]})
        for b in range(nmenu):
            t.append({'layer': 'window', 'menu': nmenu, 'prefix': [a, b], 'len': [3]})
    # degenerate caps: polygons over DEG_CAPS and windows over WIN_MENU_DEG
    for fmt in ('xyz', 'radec'):
        t.append({'layer': 'poly', 'alpha': 'deg', 'n': [1, 2], 'prefix': [], 'fmt': fmt})
        for a in range(len(DEG_CAPS)):
            t.append({'layer': 'poly', 'alpha': 'deg', 'n': [3], 'prefix': [a], 'fmt': fmt})
            if T:
                for b in range(len(DEG_CAPS)):
                    t.append({'layer': 'poly', 'alpha': 'deg', 'n': [4], 'prefix': [a, b], 'fmt': fmt})
    for a in range(len(WIN_MENU_DEG)):
        t.append({'layer': 'window', 'which': 'deg', 'menu': len(WIN_MENU_DEG), 'prefix': [a], 'len': [1, 2]})
        if T:
            for b in range(len(WIN_MENU_DEG)):
                t.append({'layer': 'window', 'which': 'deg', 'menu': len(WIN_MENU_DEG), 'prefix': [a, b], 'len': [3]})
    t.append({'layer': 'usecaps', 'n': [1, 2], 'prefix': []})
    for a in range(5):
        t.append({'layer': 'usecaps', 'n': [3], 'prefix': [a]})
    if T:
        for a in range(5):
            for b in range(5):
                t.append({'layer': 'usecaps', 'n': [4], 'prefix': [a, b]})
    return t


def mask_menu(n):
    m = list(range(1 << n))
    full = (1 << n) - 1
    m += [1 << n, full | (1 << n), full | (1 << (n + 1))]
    return m


def _key(case_small):
    return tuple(sorted((k, repr(v)) for k, v in case_small.items()))


def _emit(acc, keyd, nontrivial, ok_label, viols, mk_case):
    """viols: list of (sig, msg, ptindex).  mk_case(ptindex) -> replayable case."""
    acc.case(_key(keyd), nontrivial, ok_label if not viols else 'bad:' + viols[0][0],
             sample=None if acc.samples else keyd)
    for sig, msg, k in viols:
        acc.violation(sig, mk_case(k), msg)


def _run_membership(acc, entry, layer, capids, caps, use, ncapsarg, fmt, ctor=None, alpha='std', playout=None):
    pts = std_points(fmt)
    decs = [std_decision(ALPHAS[alpha][c][0] if layer == 'poly' else c[0], caps[i][3], fmt) for i, c in enumerate(capids)]
    v, exp = _membership(entry, caps, use, ncapsarg, fmt, pts, decs, ctor, playout)
    nin, nout, nb = int((exp == 1).sum()), int((exp == 0).sum()), int((exp == -1).sum())
    if nb:
        acc.skip('point-within-1e-12-of-a-cap-boundary', nb)
    acc.extra['point_decisions'] += nin + nout
    keyd = {'layer': layer, 'caps': capids, 'use': use, 'ncaps': ncapsarg, 'fmt': fmt, 'ctor': ctor}
    if alpha != 'std':
        keyd['alpha'] = alpha
    if playout:
        keyd['playout'] = playout
    label = 'ok:%s:%s' % (entry, 'in+out' if nin and nout else ('all-in' if nin else 'all-out'))

    def mk(k):
        c = {'layer': layer, 'caps': caps, 'use': use, 'ncaps': ncapsarg, 'fmt': fmt, 'pts': [pts[k].tolist()]}
        if ctor:
            c['ctor'] = ctor
        if playout:
            c['playout'] = playout
            c['pts'] = pts[max(0, k - 1):k + 2].tolist()
        return c
    _emit(acc, keyd, bool(nin and nout), label, v, mk)


def run_small(acc):
    # is_in_cap on the full (centre, cm) alphabet
    for (n, v, _rd), cm in itertools.product(CENTRES, CMS):
        for fmt in ('xyz', 'radec'):
            _run_membership(acc, 'is_in_cap', 'cap', [(n, cm)], [[v[0], v[1], v[2], cm]], 1, 0, fmt)
    # exact boundary: axis caps with cm = 1 (great circles) and the perpendicular axis points, Cartesian input.
    # Every quantity is exactly representable (x.p = 0, 1 - x.p = 1 = cm), so "1 - x.p <= cm" holds with equality
    # and is decided without rounding; only cm > 0 is demanded (the complement's boundary is left open).
    axes = [c for c in CENTRES if len(c[0]) == 2]
    for (n, v, _rd) in axes:
        pts = np.array([w for (_m, w, _r) in axes if sum(a * b for a, b in zip(v, w)) == 0.0], dtype=np.float64)
        caps = [[v[0], v[1], v[2], 1.0]]
        ones = (np.ones(len(pts), dtype=np.int8), np.zeros(len(pts)), 1.0)
        for entry, layer in (('is_in_cap', 'cap'), ('is_in_polygon', 'poly')):
            viol, _exp = _membership(entry, caps, 1, 0, 'xyz', pts, [ones])
            viol = [(s.replace(':membership', ':membership:exact-boundary'), m, k) for s, m, k in viol]
            acc.extra['point_decisions'] += len(pts)
            _emit(acc, {'layer': layer, 'exact-boundary': n}, True, 'ok:%s:exact-boundary-inside' % entry, viol,
                  lambda k, layer=layer, pts=pts, caps=caps: {'layer': layer, 'caps': caps, 'use': 1, 'ncaps': 0,
                                                              'fmt': 'xyz', 'pts': [pts[k].tolist()], 'exact': True})
    # the point array in other memory layouts (big-endian as read from FITS, strided view, Fortran order, read-only)
    for playout in POINT_LAYOUTS:
        for fmt in ('xyz', 'radec'):
            for a in range(10):
                c = cap_of(a)
                _run_membership(acc, 'is_in_cap', 'cap', [POLY_CAPS[a]], [c], 1, 0, fmt, playout=playout)
                _run_membership(acc, 'is_in_polygon', 'poly', [a], [c], 1, 0, fmt, playout=playout)
            _run_membership(acc, 'is_in_polygon', 'poly', [0, 1, 2], [cap_of(0), cap_of(1), cap_of(2)], 5, 0, fmt,
                            playout=playout)
    # polygons without caps and with one cap
    for fmt in ('xyz', 'radec'):
        for ctor in ('empty', 'kw0'):
            for use in (0, 1, 5):
                if ctor == 'empty' and use:
                    continue
                for ncapsarg in (0, 1, 2):
                    _run_membership(acc, 'is_in_polygon', 'poly', [], [], use, ncapsarg, fmt, ctor)
        for a in range(10):
            for use in mask_menu(1):
                for ncapsarg in (0, 1, 2):
                    _run_membership(acc, 'is_in_polygon', 'poly', [a], [cap_of(a)], use, ncapsarg, fmt)


def run_centres(acc, task):
    import pydl.pydlutils.mangle as mng  # noqa: F401
    nra, ndec = task['nra'], task['ndec']
    grid = [(360.0 * i / nra, -90.0 + 180.0 * j / (ndec - 1)) for i in range(nra) for j in range(ndec)]
    for g, (ra, dec) in enumerate(grid):
        if g % task['nblk'] != task['blk']:
            continue
        v = vec_from_radec64(ra, dec)
        selfdot = float(np.dot(np.array([v]), np.array(v))[0])
        cls = 'selfdot>1' if selfdot > 1 else ('selfdot<1' if selfdot < 1 else 'selfdot=1')
        pts = {'xyz': np.array([v, (-v[0], -v[1], -v[2])]),
               'radec': np.array([(ra, dec), ((ra + 180.0) % 360.0, -dec)])}
        for fmt in ('xyz', 'radec'):
            d = dots(v, pts[fmt], fmt)
            for cm in CMS:
                caps = [[v[0], v[1], v[2], cm]]
                decs = [decide(d, cm, fmt)]
                viol, exp = _membership('is_in_cap', caps, 1, 0, fmt, pts[fmt], decs)
                nb = int((exp == -1).sum())
                if nb:
                    acc.skip('point-within-1e-12-of-a-cap-boundary', nb)
                acc.extra['point_decisions'] += 2 - nb
                keyd = {'layer': 'centres', 'radec': (ra, dec), 'cm': cm, 'fmt': fmt}

                def mk(k, caps=caps, fmt=fmt):
                    return {'layer': 'centres', 'caps': caps, 'fmt': fmt, 'pts': [pts[fmt][k].tolist()]}
                _emit(acc, keyd, selfdot != 1.0, 'ok:centre+antipode:' + cls, viol, mk)


def run_poly(acc, task):
    prefix, fmt = task['prefix'], task['fmt']
    alpha = task.get('alpha', 'std')
    A = ALPHAS[alpha]
    for n in (task['n'] if isinstance(task['n'], list) else [task['n']]):
        for rest in itertools.product(range(len(A)), repeat=n - len(prefix)):
            capids = list(prefix) + list(rest)
            caps = [cap_of(c, A) for c in capids]
            for use in mask_menu(n):
                for ncapsarg in range(0, n + 2):
                    _run_membership(acc, 'is_in_polygon', 'poly', capids, caps, use, ncapsarg, fmt, alpha=alpha)


def _menu_item(menu, menu_id):
    """-> (list of caps [x, y, z, cm], use-mask) of one menu polygon."""
    if menu == 'deg':
        named, use = WIN_MENU_DEG[menu_id]
        return [[CVEC[n][0], CVEC[n][1], CVEC[n][2], cm] for n, cm in named], use
    capids, use = WIN_MENU[menu_id]
    return [cap_of(c) for c in capids], use


def _spec(menu_id, full, menu='std'):
    caps, use = _menu_item(menu, menu_id)
    return {'caps': caps, 'use': ((1 << len(caps)) - 1) if full else use}


def run_window(acc, task):
    nmenu, prefix = task['menu'], task['prefix']
    menu = task.get('which', 'std')
    tmproot = tempfile.mkdtemp(prefix='verif_c12_')
    try:
        for L in task['len']:
            if L < len(prefix):
                continue
            for rest in itertools.product(range(nmenu), repeat=L - len(prefix)):
                ids = list(prefix) + list(rest)
                for full in (False, True):
                    if not full and all(_menu_item(menu, i)[1] == (1 << len(_menu_item(menu, i)[0])) - 1 for i in ids):
                        continue       # identical to the all-caps variant
                    specs = [_spec(i, full, menu) for i in ids]
                    fmts = list(FORMATS_MASK)
                    if max(len(s['caps']) for s in specs) == 1:
                        fmts += ONECAP_FORMATS
                    if full:
                        fmts += FORMATS_NOMASK + ply_formats_for(specs) + balkans_layouts_for(specs)
                    _run_window_group(acc, [menu] + ids, full, specs, fmts, tmproot)
    finally:
        shutil.rmtree(tmproot, ignore_errors=True)


def _run_window_group(acc, ids, full, specs, fmts, tmproot):
    ref = {}
    for fmt in fmts:
        tmp = tempfile.mkdtemp(dir=tmproot)
        try:
            try:
                polys = load_polys(fmt, specs, tmp)
            except Exception as e:  # noqa: BLE001
                sig = '%s:exception:%s:%s' % (READER[fmt], type(e).__name__, fmt)
                case = {'layer': 'window', 'polys': specs, 'fmt': fmt, 'pfmt': 'xyz', 'ncaps': 0,
                        'pts': [PTS_XYZ[0].tolist()]}
                acc.case(_key({'layer': 'window-load', 'ids': ids, 'full': full, 'fmt': fmt}), True, 'bad:' + sig)
                acc.violation(sig, case, repr(e))
                continue
            for ncapsarg in (0, 1, 2):
                for pfmt in ('xyz', 'radec'):
                    pts = std_points(pfmt)
                    exp, alldecs = _window_expected(specs, ncapsarg, pfmt, pts, std=True)
                    r = ref.get((ncapsarg, pfmt)) if fmt != 'mem' else None
                    v, idx = _window_check(fmt, specs, polys, ncapsarg, pfmt, pts, exp, r, alldecs)
                    if ncapsarg == 0 and pfmt == 'xyz':
                        v = _balkans_use_caps(fmt, specs, polys) + v
                    if fmt == 'mem' and idx is not None:
                        ref[(ncapsarg, pfmt)] = idx
                    nund = int((exp == -2).sum())
                    if nund:
                        acc.skip('point-within-1e-12-of-a-cap-boundary', nund)
                    acc.extra['point_decisions'] += len(pts) - nund
                    distinct = len(set(exp[exp != -2].tolist()))
                    keyd = {'layer': 'window', 'ids': ids, 'full': full, 'fmt': fmt, 'ncaps': ncapsarg, 'pfmt': pfmt}

                    def mk(k, fmt=fmt, pfmt=pfmt, ncapsarg=ncapsarg, pts=pts):
                        return {'layer': 'window', 'polys': specs, 'fmt': fmt, 'pfmt': pfmt, 'ncaps': ncapsarg,
                                'pts': [pts[k].tolist()]}
                    _emit(acc, keyd, distinct >= 2, 'ok:is_in_window:%s:%d-indices' % (fmt, distinct), v, mk)
        finally:
            shutil.rmtree(tmp, ignore_errors=True)


def run_usecaps(acc, task):
    prefix = task['prefix']
    for n in task['n']:
        for rest in itertools.product(range(5), repeat=n - len(prefix)):
            capids = list(prefix) + list(rest)
            caps = [cap_of(c, USE_CAPS_ALPHA) for c in capids]
            full = (1 << n) - 1
            modes = [(False, full), (True, 0), (True, 1 << (n - 1)), (True, full)]
            for L in range(0, 4):
                for idx in itertools.product(range(n), repeat=L):
                    idx = list(idx)
                    for add, init in modes:
                        for ad in (False, True):
                            for an in (False, True):
                                v, exp, plain = _usecaps_check(caps, idx, add, init, ad, an)
                                ident = idx == list(range(len(idx)))
                                removed = exp != plain
                                case = {'layer': 'usecaps', 'caps': caps, 'idx': idx, 'add': add, 'init': init,
                                        'ad': ad, 'an': an}
                                keyd = {'layer': 'usecaps', 'caps': capids, 'idx': idx, 'add': add, 'init': init,
                                        'ad': ad, 'an': an}
                                label = 'ok:set_use_caps:%s:%s' % ('identity-prefix' if ident else 'general-list',
                                                                   'dup-removed' if removed else 'no-dup')
                                _emit(acc, keyd, (not ident) or removed, label, [(s, m, 0) for s, m in v],
                                      lambda k, case=case: case)


def run_task(task):
    acc = Acc()
    layer = task['layer']
    if layer == 'small':
        run_small(acc)
    elif layer == 'centres':
        run_centres(acc, task)
    elif layer == 'poly':
        run_poly(acc, task)
    elif layer == 'window':
        run_window(acc, task)
    elif layer == 'usecaps':
        run_usecaps(acc, task)
    else:
        raise ValueError(layer)
    return acc
