"""Shared reference model for C08/C09/C10: B-splines by the Cox-de Boor definition, dense weighted least squares.

Nothing in here imports pydl.  Everything is deliberately plain: order-1 indicator functions, the textbook
recursion with 0/0 := 0, a dense design matrix and numpy.linalg.lstsq.
"""
import numpy as np


def basis_matrix(t, k, x, side='right'):
    """B[i, j] = B_{j,k}(x_i) for the knot vector t (len m), order k, j = 0 .. m-k-1.

    side='right': order-1 pieces are 1 on [t_j, t_j+1)   (the usual definition)
    side='left' : order-1 pieces are 1 on (t_j, t_j+1]   (its mirror image; equal wherever the spline is continuous)
    """
    t = np.asarray(t, dtype=np.float64)
    x = np.atleast_1d(np.asarray(x, dtype=np.float64))
    m = len(t)
    # order 1
    B = np.zeros((len(x), m - 1))
    for j in range(m - 1):
        if side == 'right':
            B[:, j] = (t[j] <= x) & (x < t[j + 1])
        else:
            B[:, j] = (t[j] < x) & (x <= t[j + 1])
    for q in range(2, k + 1):
        Bn = np.zeros((len(x), m - q))
        for j in range(m - q):
            d1 = t[j + q - 1] - t[j]
            d2 = t[j + q] - t[j + 1]
            term = np.zeros(len(x))
            if d1 > 0:
                term = term + (x - t[j]) / d1 * B[:, j]
            if d2 > 0:
                term = term + (t[j + q] - x) / d2 * B[:, j + 1]
            Bn[:, j] = term
        B = Bn
    return B[:, :m - k]


def spline_values(t, k, c, x, side='right'):
    return basis_matrix(t, k, x, side).dot(np.asarray(c, dtype=np.float64))


def value_candidates(t, k, c, x):
    """Acceptable values of the spline at each x: (lo, hi) arrays.

    Inside the breakpoint range [t[k-1], t[nc]] and away from knots there is one value.  At an interior knot
    the one-sided limits are both accepted (they differ only for order 1 or repeated knots); at the left end
    only the right-hand value, at the right end only the left-hand value (half-open intervals, right end closed).
    """
    t = np.asarray(t, dtype=np.float64)
    x = np.atleast_1d(np.asarray(x, dtype=np.float64))
    nc = len(t) - k
    vr = spline_values(t, k, c, x, 'right')
    vl = spline_values(t, k, c, x, 'left')
    a, b = t[k - 1], t[nc]
    at_a = x == a
    at_b = x == b
    if a < b:
        vl = np.where(at_a, vr, vl)
        vr = np.where(at_b, vl, vr)
    return np.minimum(vl, vr), np.maximum(vl, vr)


def wlsq(A, y, w):
    """Dense weighted least squares on the rows with w > 0.  Returns (coeff, rank, cond)."""
    A = np.asarray(A, dtype=np.float64)
    y = np.asarray(y, dtype=np.float64)
    w = np.asarray(w, dtype=np.float64)
    g = w > 0
    if not g.any():
        return np.zeros(A.shape[1]), 0, np.inf
    s = np.sqrt(w[g])
    M = A[g] * s[:, None]
    c, _res, rank, sv = np.linalg.lstsq(M, y[g] * s, rcond=None)
    cond = (sv[0] / sv[-1]) if (len(sv) == A.shape[1] and sv[-1] > 0) else np.inf
    if M.shape[0] < A.shape[1]:
        cond = np.inf
    return c, int(rank), float(cond)


def design_for_fit(t, k, x, side):
    """Design matrix of the data abscissae (all inside [t[k-1], t[nc]]); the end-point rule of value_candidates."""
    t = np.asarray(t, dtype=np.float64)
    x = np.asarray(x, dtype=np.float64)
    nc = len(t) - k
    A = basis_matrix(t, k, x, side)
    if t[k - 1] < t[nc]:
        at_a = x == t[k - 1]
        at_b = x == t[nc]
        if at_a.any() and side == 'left':
            A[at_a] = basis_matrix(t, k, x[at_a], 'right')
        if at_b.any() and side == 'right':
            A[at_b] = basis_matrix(t, k, x[at_b], 'left')
    return A


def segments(t, k):
    """Breakpoint intervals [t[i], t[i+1]] for i = k-1 .. nc-1 with positive length."""
    t = np.asarray(t, dtype=np.float64)
    nc = len(t) - k
    return [(t[i], t[i + 1]) for i in range(k - 1, nc) if t[i + 1] > t[i]]


def ckey(case):
    return tuple(sorted((k, repr(v)) for k, v in case.items()))


def guarded(shape):
    """Decorator: an exception escaping a check function (only conceivable on a broken tree) becomes a violation
    'check:unexpected-exception:<Exc>@<function>' instead of a harness crash.  shape(bad) builds the function's usual return value."""
    import functools
    import traceback

    def deco(fn):
        @functools.wraps(fn)
        def wrapper(*a, **kw):
            try:
                return fn(*a, **kw)
            except Exception as e:   # pragma: no cover - not reached on a healthy tree
                where = traceback.extract_tb(e.__traceback__)[-1].name
                return shape([('check:unexpected-exception:%s@%s' % (type(e).__name__, where), repr(e)[:300])])
        return wrapper
    return deco


LAYOUTS = ('contig', 'strided', 'column', 'reversed', 'bigendian', 'float32', 'readonly')


def layout(a, name):
    """The same values as the 1-D float64 array a in another memory layout / dtype (float32 rounds the values)."""
    a = np.asarray(a, dtype=np.float64)
    if name == 'contig':
        return a.copy()
    if name == 'strided':           # every second element of a doubled array
        return np.repeat(a, 2)[::2]
    if name == 'column':            # a column of a C-ordered 2-D array
        m = np.zeros((len(a), 3))
        m[:, 1] = a
        return m[:, 1]
    if name == 'reversed':          # negative stride; embedded in a zero-padded buffer so that code which wrongly walks
        n = len(a)                  # the memory with a positive stride still reads defined (deterministic) values
        base = np.zeros(3 * n)
        base[n:2 * n] = a[::-1]
        return base[n:2 * n][::-1]
    if name == 'bigendian':
        return a.astype('>f8')
    if name == 'float32':
        return a.astype(np.float32)
    if name == 'readonly':
        r = a.copy()
        r.setflags(write=False)
        return r
    raise ValueError(name)
