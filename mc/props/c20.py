"""C20 — a failing pipeline call leaves the process environment as it found it.

Deviation-bounded fault enumeration (E3): the real entry point runs with light collaborator stubs; the
fault-free run records every call made from the frames of the module under test; then the run is repeated
once for every k with an exception injected exactly at the k-th call.  os.environ must be identical before
and after, for success and for every failure."""
import gc
import itertools
import os
import shutil
import sys
import tempfile

import numpy as np
from astropy.io import fits as afits

from mc.core import Acc
import pydl.photoop.window as W
import pydl.pydlspec2d.spec1d as S
from pydl.photoop import PhotoopException

PROP = 'C20'
LEVEL = 'fault_enumeration'
ENGINE = 'E3'
TECHNIQUE = 'model checking: deviation-bounded exhaustive fault enumeration - an exception injected at every call made by the entry point (every k), for every initial state of the touched variables and every pipeline variant'
LEVEL_TEXT = ('for window_score and template_input, every configuration (initial set/unset state of the touched variables x pipeline variant) is run fault-free and then once per call point k '
              'with an exception injected at exactly the k-th call made from the module under test (Python and C calls, environment look-ups included); os.environ is compared as a whole before/after every run')
LEVEL_NOTE = ('bound = 2 deviations at call granularity: every single fault k, and for every first fault k1 every call made after it along the same execution (in handlers while it propagates, or in the continuation when it is swallowed) as a second fault k2 - on the unchanged tree no call follows a fault, so the bound-2 layer adds 0 runs there and is reported as fault_points_after_first_fault; heavy collaborators (readspec, solvers, plotting, scoring) are replaced by light stubs so the fault-free run completes, '
              'the functions under test run unmodified; writes to os.environ themselves are assumed not to fail; trusted: sys.setprofile event delivery')
RULE = ('two-call histories on one parameter file (first call succeeds or fails naturally, environment changed in between, second call swept with every fault point; with and without the dump file the first call wrote being what the second call loads); natural failures include a parameter file whose run2d/run1d value cannot be put in the environment (NUL byte: the assignment itself raises between the first and the second variable); initial states per variable: unset, set to another value, set but empty, set to the value the parameter file asks for; the optional binsz keyword absent, well-formed, malformed; configurations = full product of initial environment states x variants; per configuration k = 0 (no fault), natural failures, and k = 1..N for every call event whose caller frame '
        'belongs to the module under test. Non-trivial: a run that ends by an exception while the environment at the moment of the fault differs from the initial one (something had to be restored). '
        'Distinct: (entry point, configuration, k, exception class).')
ASSUMPTIONS = ['assignments/deletions on os.environ are not injected fault points (if restoring cannot be done, nothing can restore); the data-driven failure of the initial assignment (NUL byte in the value) is enumerated as a natural failure instead; look-ups in os.environ are not fault points either (their answer is determined by the enumerated initial state); pure str/list/dict methods and len/isinstance/... are not fault points; calls between functions of the module under test are not fault points themselves (their outgoing calls are)',
               'collaborators are stubs; faults inside a collaborator after a partial side effect of its own are outside the bound',
               'exception classes injected: a RuntimeError subclass and KeyboardInterrupt (quick) plus KeyError, OSError, ValueError, SystemExit (thorough); second faults are always the RuntimeError subclass, first faults of the bound-2 layer: RuntimeError subclass (quick, plain configurations) plus OSError and KeyboardInterrupt (thorough, all configurations)',
               'bound-2 layer: the profiler is re-armed by a trace function on the exception event of the first fault (frames of the module under test only, no line events); calls made inside the callee that received the first fault are not second fault points']
MIN_OUTCOMES = 3


class InjectedFault(RuntimeError):
    pass


PURE_OWNERS = (str, bytes, list, dict, tuple, set, frozenset, int, float)
PURE_BUILTINS = (len, isinstance, issubclass, min, max, id, hasattr, getattr, iter, next)
EXC = {'InjectedFault': InjectedFault, 'KeyError': KeyError, 'OSError': OSError, 'ValueError': ValueError,
       'KeyboardInterrupt': KeyboardInterrupt, 'SystemExit': SystemExit}


# ------------------------------------------------------------------ fault injector
class Injector:
    def __init__(self, files, k, exc, env0, k2=None):
        self.files = files
        self.k = k
        self.k2 = k2          # bound 2: a second fault at the k2-th call (k2 > k), counted along the same execution
        self.exc = exc
        self.n = 0
        self.fired = None
        self.fired2 = None
        self.env0 = env0
        self.dirty = False
        self.log = []

    # bound 2 only: an exception raised from a profile function unsets the profiler (CPython), so the calls made after the
    # first fault - in handlers while it propagates, or in the continuation when the code under test swallows it - would be
    # invisible.  A trace function restricted to the frames of the module under test (no line events) re-arms the profiler
    # at the 'exception' event the first fault produces in the calling frame.
    def gtrace(self, frame, event, arg):
        if frame.f_code.co_filename in self.files:
            frame.f_trace_lines = False
            return self.ltrace
        return None

    def ltrace(self, frame, event, arg):
        if event == 'exception' and self.fired is not None and self.fired2 is None and sys.getprofile() is None:
            sys.setprofile(self)
        return self.ltrace

    def __call__(self, frame, event, arg):
        if event == 'call':
            caller = frame.f_back
            code = frame.f_code
            name = code.co_name
            if code.co_filename.startswith('<frozen importlib') or code.co_filename.endswith(('/weakref.py', '/_weakrefset.py')):
                return
            if caller is not None and code.co_filename == caller.f_code.co_filename:
                return      # intra-module call: its own outgoing calls are the fault points
            if name in ('__setitem__', '__delitem__', 'pop', 'update', 'setdefault', 'clear', 'popitem',
                        '__getitem__', 'get', '__contains__') and frame.f_locals.get('self') is os.environ:
                # not fault points: writes (if restoring cannot be done nothing can restore) and look-ups - what a look-up
                # answers (value or KeyError) is fixed by the initial state, and every initial state is enumerated; a KeyError
                # injected for a variable that IS set would be read by correct code as "unset" and is not a possible failure
                return
        elif event == 'c_call':
            caller = frame
            name = getattr(arg, '__name__', repr(arg))
            if name in ('putenv', 'unsetenv'):
                return
            owner = getattr(arg, '__self__', None)
            if type(owner) in PURE_OWNERS or arg in PURE_BUILTINS:
                return      # pure string/container operations cannot fail on the operands the code gives them
        else:
            return
        if caller is None or caller.f_code.co_filename not in self.files:
            return
        self.n += 1
        if self.k is None:
            self.log.append('%s:%d:%s' % (caller.f_code.co_name, caller.f_lineno, name))
        if self.n == self.k:
            sys.setprofile(None)
            self.fired = '%s:%d:%s' % (caller.f_code.co_name, caller.f_lineno, name)
            self.dirty = dict(os.environ) != self.env0
            raise self.exc('injected fault at call #%d (%s)' % (self.k, self.fired))
        if self.k2 is not None and self.n == self.k2 and self.fired is not None:
            sys.setprofile(None)
            self.fired2 = '%s:%d:%s' % (caller.f_code.co_name, caller.f_lineno, name)
            self.dirty = self.dirty or dict(os.environ) != self.env0
            raise InjectedFault('second injected fault at call #%d (%s) after #%d (%s)' % (self.k2, self.fired2, self.k, self.fired))


def run_with_fault(fn, files, k, exc, env0, k2=None):
    """Run fn() with a fault at call k (None = none) and, when k2 is given (0 = only count the calls made after the first
    fault), a second one at call k2. Returns (result label, injector)."""
    inj = Injector(files, k, exc, env0, k2=k2)
    gc.disable()          # collector-triggered callbacks must not appear as calls of the function under test
    if k2 is not None:
        sys.settrace(inj.gtrace)
    sys.setprofile(inj)
    try:
        fn()
        res = 'returned'
    except BaseException as e:   # noqa
        res = 'raised:' + type(e).__name__
    finally:
        sys.setprofile(None)
        if k2 is not None:
            sys.settrace(None)
        gc.enable()
    return res, inj


def env_diff(a, b):
    d = []
    for key in sorted(set(a) | set(b)):
        if a.get(key) != b.get(key):
            d.append('%s: %r -> %r' % (key, a.get(key), b.get(key)))
    return d


# ------------------------------------------------------------------ window_score harness
def ws_setup(d, cfg):
    rd = os.path.join(d, 'resolve')
    os.makedirs(rd, exist_ok=True)
    for f in os.listdir(rd):
        os.remove(os.path.join(rd, f))
    if cfg['flist'] != 'missing':
        c = [afits.Column(name='SCORE', format='E', array=np.zeros(4, dtype='f4')),
             afits.Column(name='RUN', format='J', array=np.arange(4, dtype='i4'))]
        afits.HDUList([afits.PrimaryHDU(), afits.BinTableHDU.from_columns(c)]).writeto(os.path.join(rd, 'window_flist.fits'))
    if cfg['rescore_exists']:
        with open(os.path.join(rd, 'window_flist_rescore.fits'), 'w') as f:
            f.write('already here')
    for v in ('PHOTO_CALIB', 'PHOTO_RESOLVE'):
        os.environ.pop(v, None)
    if cfg['calib']:
        os.environ['PHOTO_CALIB'] = '' if cfg['calib'] == 'empty' else '/calib/dir'
    if cfg['resolve']:
        os.environ['PHOTO_RESOLVE'] = rd

    def score_stub(flist, silent=True):
        if cfg['score_raises']:
            raise ValueError('natural failure in sdss_score')
        return np.ones((4,), dtype='f4') * 0.5
    W.sdss_score = score_stub
    return lambda: W.window_score(rescore=cfg['rescore'])


def ws_configs():
    out = []
    for calib, resolve, rescore in itertools.product((True, False), (True, False), (False, True)):
        out.append({'ep': 'window_score', 'calib': calib, 'resolve': resolve, 'rescore': rescore, 'flist': 'ok',
                    'rescore_exists': False, 'score_raises': False})
    for rescore in (False, True):
        out.append({'ep': 'window_score', 'calib': True, 'resolve': True, 'rescore': rescore, 'flist': 'missing',
                    'rescore_exists': False, 'score_raises': False})
        out.append({'ep': 'window_score', 'calib': True, 'resolve': True, 'rescore': rescore, 'flist': 'ok',
                    'rescore_exists': False, 'score_raises': True})
    out.append({'ep': 'window_score', 'calib': True, 'resolve': True, 'rescore': True, 'flist': 'ok',
                'rescore_exists': True, 'score_raises': False})
    for rescore in (False, True):      # variable set but empty on entry
        out.append({'ep': 'window_score', 'calib': 'empty', 'resolve': True, 'rescore': rescore, 'flist': 'ok',
                    'rescore_exists': False, 'score_raises': False})
    return out


# ------------------------------------------------------------------ template_input harness
NSPEC, NPIX, NKEEP = 5, 70, 4


class _Fake:
    """Stands in for matplotlib.pyplot / figures / axes: every attribute is callable and returns fakes."""

    def __getattr__(self, name):
        return _Fake()

    def __call__(self, *a, **k):
        return _Fake()

    def __iter__(self):
        return iter((_Fake(), _Fake()))

    def __setitem__(self, k, v):
        pass

    def __getitem__(self, k):
        return _Fake()


def ti_write_par(path, cfg):
    obj, method = cfg['object'], cfg['method']
    # nul2d / nul1d: a parameter file whose run2d / run1d value carries a NUL byte - the one realistic way the environment
    # assignment itself fails (ValueError: embedded null byte), i.e. a failure between the first and the second variable
    lines = ['object %s' % obj, 'method %s' % method, 'aesthetics mean', 'run2d new%s2d' % ('\x00' if cfg['defect'] == 'nul2d' else ''),
             'run1d new%s1d' % ('\x00' if cfg['defect'] == 'nul1d' else ''),
             'wavemin 3600.', 'wavemax 3700.', 'snmax 100', 'niter %s' % ('abc' if cfg['defect'] == 'badvalue' else '2'),
             'nkeep %d' % NKEEP, 'minuse 3']
    if cfg['defect'] == 'missingkey':
        lines = [ln for ln in lines if not ln.startswith('snmax')]
    # the optional binsz keyword (read by _template_input when present): well-formed and malformed
    if cfg['defect'] in ('binsz_ok', 'binsz_bad'):
        lines.append('binsz %s' % ('1.0e-4' if cfg['defect'] == 'binsz_ok' else 'auto'))
    if method in ('hmf', 'bogus'):
        lines.append('nonnegative 0')
        if cfg['defect'] != 'missinghmf':
            lines.append('epsilon 0.5')
    zcol = 'cz' if obj == 'star' else 'zfit'
    if cfg['defect'] != 'noeigenobj':      # a truncated parameter file: every keyword, but no EIGENOBJ table
        lines += ['', 'typedef struct {', '    int plate;', '    int mjd;', '    int fiberid;', '    double %s;' % zcol, '} EIGENOBJ;', '']
        for i in range(NSPEC):
            lines.append('EIGENOBJ %d %d %d %s' % (300 + i, 51000 + i, i + 1, '0.1'))
    with open(path, 'w') as f:
        f.write('\n'.join(lines) + '\n')


def ti_setup(d, cfg, keep_files=False):
    wd = os.path.join(d, 'work')
    if not keep_files:
        if os.path.exists(wd):
            shutil.rmtree(wd)
        os.makedirs(wd)
    os.chdir(wd)
    par = os.path.join(wd, 'input.par')
    if cfg['defect'] != 'missingfile' and not keep_files:
        ti_write_par(par, cfg)
    dump = os.path.join(wd, 'dump.pickle')
    loglam = np.log10(3600.) + 1e-4 * np.arange(NPIX)
    flux = np.ones((NSPEC, NPIX)) + 0.01 * np.arange(NPIX)[None, :]
    ivar = np.ones((NSPEC, NPIX))
    # dump == 'kept': whatever the first call of a two-call history left behind (its own dump file) is what the second call finds
    if keep_files and cfg['dump'] == 'absent' and os.path.exists(dump):
        os.remove(dump)
    if cfg['dump'] == 'present' and not os.path.exists(dump):
        import pickle
        with open(dump, 'wb') as f:
            pickle.dump({'newflux': flux, 'newivar': ivar, 'newloglam': loglam}, f)
    for v in ('RUN2D', 'RUN1D'):
        os.environ.pop(v, None)
    # initial states: unset / set to another value / set but empty / set to the very value the parameter file asks for
    if cfg['run2d']:
        os.environ['RUN2D'] = {'empty': '', 'same': 'new2d'}.get(cfg['run2d'], 'orig2d')
    if cfg['run1d']:
        os.environ['RUN1D'] = {'empty': '', 'same': 'new1d'}.get(cfg['run1d'], 'orig1d')
    nat = cfg.get('natural')

    def readspec(*a, **k):
        if nat == 'readspec':
            raise OSError('natural failure in readspec')
        fid = np.arange(1, NSPEC + 1)
        if nat == 'missingobj':
            fid[2] = 0
        return {'flux': flux.copy(), 'invvar': ivar.copy(), 'andmask': np.zeros((NSPEC, NPIX), 'i4'),
                'ormask': np.zeros((NSPEC, NPIX), 'i4'), 'loglam': np.tile(loglam, (NSPEC, 1)),
                'plugmap': {'FIBERID': fid}}

    def skymask(invvar, andmask, ormask=None, ngrow=2):
        return invvar.copy()

    def preprocess_spectra(f, iv, loglam=None, zfit=None, newloglam=None, **k):
        if nat == 'preprocess':
            raise ValueError('natural failure in preprocess_spectra')
        n = len(newloglam)
        return np.ones((NSPEC, n)), np.ones((NSPEC, n)), newloglam

    def solution(newflux):
        n = newflux.shape[1]
        use = np.full((n,), NSPEC)
        use[:3] = 0
        return {'flux': np.ones((NKEEP, n)) * np.arange(1, NKEEP + 1)[:, None], 'acoeff': np.ones((NSPEC, NKEEP)) + np.arange(NKEEP)[None, :],
                'usemask': use, 'eigenval': np.arange(NKEEP, 0, -1.0)}

    def pca_solve(newflux, newivar, **k):
        if nat == 'solver':
            raise np.linalg.LinAlgError('natural failure in pca_solve')
        return solution(newflux)

    class HMF:
        def __init__(self, newflux, newivar, **k):
            self.f = newflux

        def solve(self):
            if nat == 'solver':
                raise np.linalg.LinAlgError('natural failure in HMF.solve')
            return solution(self.f)

    def template_qso(metadata, newflux, newivar, verbose=False):
        return solution(newflux)

    def template_star(metadata, newloglam, newflux, newivar, slist, outfile, verbose=False):
        s = solution(newflux)
        s['namearr'] = ['A', 'F', 'G', 'K']
        return s

    def plot_eig(filename, title='Unknown'):
        if nat == 'plot':
            raise RuntimeError('natural failure in plot_eig')

    S.readspec, S.skymask, S.preprocess_spectra, S.pca_solve, S.HMF = readspec, skymask, preprocess_spectra, pca_solve, HMF
    S.template_qso, S.template_star, S.plot_eig = template_qso, template_star, plot_eig
    S.plt = _Fake()
    S.FontProperties = _Fake()
    S.fits = _Fake()
    return lambda: S.template_input(par, dump, flux=cfg['flux'], verbose=False)


def ti_configs(tier):
    out = []
    T = tier == 'thorough'
    for run2d, run1d in itertools.product((True, False), repeat=2):
        for obj, method in (('gal', 'pca'), ('gal', 'hmf'), ('qso', 'pca'), ('qso', 'hmf'), ('star', 'pca'), ('star', 'hmf')):
            for dump in ('absent', 'present'):
                for flux in (False, True):
                    if not T and (obj != 'gal' or dump == 'present' or flux) and not (run2d and run1d):
                        continue    # quick: the non-default variants only from the both-set initial state
                    if not T and obj != 'gal' and (dump == 'present' or flux):
                        continue
                    out.append({'ep': 'template_input', 'run2d': run2d, 'run1d': run1d, 'object': obj, 'method': method,
                                'dump': dump, 'flux': flux, 'defect': 'none'})
        if not T and run2d != run1d:
            continue        # quick: natural failures from the both-set and both-unset states
        # natural failures (0 injected faults, but also swept with injected ones)
        for defect in ('missingfile', 'missingkey', 'badvalue', 'missinghmf', 'noeigenobj', 'nul2d', 'nul1d', 'binsz_ok', 'binsz_bad'):
            out.append({'ep': 'template_input', 'run2d': run2d, 'run1d': run1d, 'object': 'gal',
                        'method': 'hmf' if defect == 'missinghmf' else 'pca', 'dump': 'absent', 'flux': False, 'defect': defect})
        out.append({'ep': 'template_input', 'run2d': run2d, 'run1d': run1d, 'object': 'gal', 'method': 'bogus', 'dump': 'absent',
                    'flux': False, 'defect': 'none'})
        for nat in ('readspec', 'missingobj', 'preprocess', 'solver', 'plot'):
            out.append({'ep': 'template_input', 'run2d': run2d, 'run1d': run1d, 'object': 'gal', 'method': 'hmf' if nat == 'solver' else 'pca',
                        'dump': 'absent', 'flux': False, 'defect': 'none', 'natural': nat})
    # variables set but EMPTY on entry (a third initial state besides set / unset)
    # ... and variables already holding the value the parameter file asks for (a fourth initial state)
    for run2d, run1d in ((('empty', 'empty'), ('empty', False), (True, 'empty'), (False, 'empty'), ('empty', True), ('same', 'same'), ('same', True),
                          (True, 'same'), ('same', False), (False, 'same'), ('same', 'empty'))
                         if T else (('empty', 'empty'), (True, 'empty'), ('same', 'same'), ('same', False), (True, 'same'))):
        for method, defect in (('pca', 'none'), ('hmf', 'missinghmf')):
            out.append({'ep': 'template_input', 'run2d': run2d, 'run1d': run1d, 'object': 'gal', 'method': method, 'dump': 'absent',
                        'flux': False, 'defect': defect})
    # history: a bare template_metadata() call (which by design leaves RUN2D/RUN1D set) precedes template_input()
    for run2d, run1d in ((True, True), (False, False), (True, False)) if T else ((True, True), (False, False)):
        out.append({'ep': 'template_input', 'run2d': run2d, 'run1d': run1d, 'object': 'gal', 'method': 'pca', 'dump': 'absent',
                    'flux': False, 'defect': 'none', 'bare_metadata_first': True})
    # two-call histories (same parameter file, environment changed in between)
    states = [(True, True), (False, False), (True, False), (False, True)]
    for a in states:
        for b in states:
            if not T and (a == b or (a[0] != a[1]) != (b[0] != b[1]) or a > b):
                continue
            for nat in ((None, 'readspec', 'solver') if T else (None, 'readspec')):
                out.append({'ep': 'template_input', 'run2d': b[0], 'run1d': b[1], 'object': 'gal', 'method': 'pca', 'dump': 'absent',
                            'flux': False, 'defect': 'none', 'first': {'run2d': a[0], 'run1d': a[1], 'natural': nat}})
            # the second call finds the dump file the first call wrote (first call succeeds, or fails after writing it)
            for nat in ((None, 'solver', 'plot') if T else (None, 'solver')):
                for method in (('pca', 'hmf') if T else ('pca',)):
                    out.append({'ep': 'template_input', 'run2d': b[0], 'run1d': b[1], 'object': 'gal', 'method': method, 'dump': 'kept',
                                'flux': False, 'defect': 'none', 'first': {'run2d': a[0], 'run1d': a[1], 'natural': nat}})
    return out


# ------------------------------------------------------------------ one (configuration, k)
_saved = {}


def _save_module_state():
    if not _saved:
        _saved['W'] = {n: getattr(W, n) for n in ('sdss_score',)}
        _saved['S'] = {n: getattr(S, n) for n in ('readspec', 'skymask', 'preprocess_spectra', 'pca_solve', 'HMF', 'template_qso',
                                                  'template_star', 'plot_eig', 'plt', 'FontProperties', 'fits')}


def _restore_module_state():
    for n, v in _saved.get('W', {}).items():
        setattr(W, n, v)
    for n, v in _saved.get('S', {}).items():
        setattr(S, n, v)


def files_for(cfg):
    return {W.__file__} if cfg['ep'] == 'window_score' else {S.__file__}


def one_run(cfg, k, excname, d, k2=None):
    """Returns (result, injector, violations)."""
    _save_module_state()
    env_outer = dict(os.environ)
    cwd = os.getcwd()
    try:
        if cfg.get('first'):
            # two-call history in one process on the same, untouched parameter file: the first call (no injected fault)
            # runs from its own initial environment, then the environment is set to this configuration's initial state
            first = dict(cfg, **cfg['first'])
            first.pop('first')
            f1 = ti_setup(d, first)
            try:
                f1()
            except Exception:
                pass
            fn = ti_setup(d, cfg, keep_files=True)
        elif cfg.get('bare_metadata_first'):
            # history: template_metadata() alone (documented to leave RUN2D/RUN1D set), then the caller rearranges the
            # environment to this configuration's initial state, then template_input()
            ti_setup(d, dict(cfg, run2d=not cfg['run2d'], run1d=not cfg['run1d']))
            try:
                S.template_metadata(os.path.join(d, 'work', 'input.par'))
            except Exception:
                pass
            fn = ti_setup(d, cfg, keep_files=True)
        else:
            fn = ws_setup(d, cfg) if cfg['ep'] == 'window_score' else ti_setup(d, cfg)
        env0 = dict(os.environ)
        res, inj = run_with_fault(fn, files_for(cfg), k, EXC[excname], env0, k2=k2)
        env1 = dict(os.environ)
        bad = []
        if env1 != env0:
            where = 'success-path' if res == 'returned' else (('injected2' if inj.fired2 else 'injected') if inj.fired else 'natural-failure')
            touched = sorted(set(x.split(':')[0] for x in env_diff(env0, env1)))
            bad.append(('%s:env-not-restored:%s:%s' % (cfg['ep'], where, '+'.join(touched)),
                        'result %s; fault at %s%s; %s' % (res, inj.fired, (' then ' + inj.fired2) if inj.fired2 else '', '; '.join(env_diff(env0, env1)))))
        return res, inj, bad
    finally:
        _restore_module_state()
        os.chdir(cwd)
        os.environ.clear()
        os.environ.update(env_outer)


def tasks(tier):
    cfgs = ws_configs() + ti_configs(tier)
    out = []
    for c in cfgs:
        if tier == 'quick':
            # a non-Exception fault (Ctrl-C) for window_score and the plain template configurations
            plain = c['ep'] == 'window_score' or (c.get('object') == 'gal' and c.get('defect') == 'none' and not c.get('flux')
                                                  and c.get('dump') == 'absent' and not c.get('first') and not c.get('natural'))
            excs = ['InjectedFault', 'KeyboardInterrupt'] if plain else ['InjectedFault']
            excs2 = ['InjectedFault'] if plain else []
        else:
            excs = ['InjectedFault', 'KeyError', 'OSError', 'ValueError', 'KeyboardInterrupt', 'SystemExit']
            excs2 = ['InjectedFault', 'OSError', 'KeyboardInterrupt']
        out.append({'cfg': c, 'excs': excs, 'excs2': excs2})
    return out


_warm = set()


def run_task(task):
    acc = Acc()
    cfg = task['cfg']
    d = tempfile.mkdtemp(prefix='verif_c20_')
    try:
        gc.collect()
        if cfg['ep'] not in _warm:      # first run in a process performs lazy imports: not counted
            one_run(cfg, None, 'InjectedFault', d)
            _warm.add(cfg['ep'])
        res0, inj0, bad0 = one_run(cfg, None, 'InjectedFault', d)
        n = inj0.n
        ckey = repr(sorted(cfg.items()))
        acc.case((ckey, 0, ''), res0 != 'returned', 'k0:%s:%s' % (cfg['ep'], res0), sample={'cfg': cfg, 'k': 0, 'exc': 'InjectedFault', 'calls': n})
        for sig, msg in bad0:
            acc.violation(sig, {'cfg': cfg, 'k': 0, 'exc': 'InjectedFault'}, msg)
        acc.extra['fault_points'] += n
        for excname in task['excs']:
            for k in range(1, n + 1):
                res, inj, bad = one_run(cfg, k, excname, d)
                if inj.fired is None:
                    # the run made fewer calls than the fault-free run (control flow depends on earlier runs in this
                    # process): no fault was injected; the environment clause still applies to this run
                    acc.case((ckey, k, excname), False, 'k:%s:fault-point-not-reached' % cfg['ep'])
                else:
                    nontrivial = res != 'returned' and inj.dirty
                    acc.case((ckey, k, excname), nontrivial, 'k:%s:%s:%s' % (cfg['ep'], 'dirty' if inj.dirty else 'clean', 'raised' if res != 'returned' else 'swallowed'))
                for sig, msg in bad:
                    acc.violation(sig, {'cfg': cfg, 'k': k, 'exc': excname}, msg)
        # bound 2: for every first fault k1, every call made AFTER it along the same execution (handlers reached while it
        # propagates, or the whole continuation when the code under test swallows it) is a second fault point k2
        for excname in task.get('excs2', ()):
            for k in range(1, n + 1):
                res1, inj1, bad1 = one_run(cfg, k, excname, d, k2=0)
                if inj1.fired is None:
                    continue
                for sig, msg in bad1:       # same run as in the bound-1 sweep, now with the tracer attached
                    acc.violation(sig, {'cfg': cfg, 'k': k, 'exc': excname, 'k2': 0}, msg)
                acc.extra['fault_points_after_first_fault'] += inj1.n - k
                for k2 in range(k + 1, inj1.n + 1):
                    res, inj, bad = one_run(cfg, k, excname, d, k2=k2)
                    if inj.fired2 is None:
                        acc.case((ckey, k, excname, k2), False, 'k2:%s:second-fault-point-not-reached' % cfg['ep'])
                    else:
                        acc.case((ckey, k, excname, k2), res != 'returned' and inj.dirty,
                                 'k2:%s:%s:first-%s:%s' % (cfg['ep'], 'dirty' if inj.dirty else 'clean', 'swallowed' if res1 == 'returned' else 'propagating',
                                                           'raised' if res != 'returned' else 'swallowed'))
                    for sig, msg in bad:
                        acc.violation(sig, {'cfg': cfg, 'k': k, 'exc': excname, 'k2': k2}, msg)
    finally:
        shutil.rmtree(d, ignore_errors=True)
    return acc


def replay(case):
    d = tempfile.mkdtemp(prefix='verif_c20_')
    try:
        if case['k']:
            one_run(case['cfg'], None, 'InjectedFault', d)   # warm-up (lazy imports)
        res, inj, bad = one_run(case['cfg'], case['k'] or None, case['exc'], d, k2=case.get('k2'))
        return bad
    finally:
        shutil.rmtree(d, ignore_errors=True)
