"""Shared helpers for C04 (spherematch) and C05 (spheregroup): reference geometry, scenes, resource guard.

Nothing here calls pydl.  ``sep_deg`` is the oracle for great-circle separations (unit-vector
``atan2(|a x b|, a.b)`` evaluated in a cancellation-free form); ``chunk_geometry`` re-derives the cell layout
that ``pydl.pydlutils.spheregroup.chunks`` builds from the first list -- it is used ONLY to aim probe points at
cell edges, to evaluate the resource guard and to compute trigger predicates for signatures, never to decide
what the correct answer is.
"""
import math

import numpy as np

REL_BAND = 1e-9      # don't-care band around the match / linking length (relative)
ABS_BAND = 1e-12     # ... plus an absolute floor in degrees (coordinate quantisation near RA 360 is 6e-14 deg)
U = 0.37             # lattice unit in match lengths: sqrt(a^2+b^2)*0.37 is never within 2 % of 1


# ------------------------------------------------------------------ separations
def wrap_dra(ra1, ra2):
    """ra2 - ra1 reduced to [-180, 180] degrees without avoidable rounding (360 - x is exact for x in [180, 360])."""
    ra1 = np.asarray(ra1, dtype=float)
    ra2 = np.asarray(ra2, dtype=float)
    d = ra2 - ra1
    with np.errstate(all='ignore'):
        d = np.where(d > 180.0, -((360.0 - ra2) + ra1), d)
        d = np.where(d < -180.0, (360.0 - ra1) + ra2, d)
    return d


def sep_deg(ra1, dec1, ra2, dec2):
    """Great-circle separation in degrees (broadcasts).  atan2(|a x b|, a.b) with a=(cos d1,0,sin d1)."""
    dl = np.deg2rad(wrap_dra(ra1, ra2))
    d1 = np.deg2rad(np.asarray(dec1, dtype=float))
    d2 = np.deg2rad(np.asarray(dec2, dtype=float))
    dd = np.deg2rad(np.asarray(dec2, dtype=float) - np.asarray(dec1, dtype=float))
    h = np.sin(dl / 2.0) ** 2
    cx = np.cos(d2) * np.sin(dl)
    cy = np.sin(dd) + 2.0 * np.sin(d1) * np.cos(d2) * h
    dot = np.cos(dd) - 2.0 * np.cos(d1) * np.cos(d2) * h
    return np.rad2deg(np.arctan2(np.hypot(cx, cy), dot))


def sep_matrix(ra1, dec1, ra2, dec2):
    ra1 = np.asarray(ra1, dtype=float)
    ra2 = np.asarray(ra2, dtype=float)
    dec1 = np.asarray(dec1, dtype=float)
    dec2 = np.asarray(dec2, dtype=float)
    return sep_deg(ra1[:, None], dec1[:, None], ra2[None, :], dec2[None, :])


def band(length):
    return REL_BAND * length + ABS_BAND


# ------------------------------------------------------------------ friends of friends (reference)
def components(sep, length):
    """Labels (numbered by first appearance) of the connected components of the graph {sep <= length}."""
    n = sep.shape[0]
    parent = list(range(n))

    def find(a):
        while parent[a] != a:
            parent[a] = parent[parent[a]]
            a = parent[a]
        return a
    for i in range(n):
        for j in range(i + 1, n):
            if sep[i, j] <= length:
                a, b = find(i), find(j)
                if a != b:
                    parent[max(a, b)] = min(a, b)
    lab = {}
    out = []
    for i in range(n):
        r = find(i)
        if r not in lab:
            lab[r] = len(lab)
        out.append(lab[r])
    return out


# ------------------------------------------------------------------ cell layout (aiming / guard / triggers only)
def chunk_geometry(ra, dec, m, max_cells=None):
    """Cell layout that chunks(ra, dec, m) would build.  Returns a dict, or {'error': ...} when a cosine bound
    is not positive.  With max_cells the RA boundaries are not materialised once the count exceeds it."""
    ra = np.asarray(ra, dtype=float)
    dec = np.asarray(dec, dtype=float)
    dmin = float(dec.min())
    dmax = float(dec.max())
    ndec = 3 + int(math.floor((dmax - dmin) / m))
    rng = m * float(ndec)
    lo = dmin - 0.5 * (rng - dmax + dmin)
    hi = lo + rng
    if lo < -90.0 + 3.0 * m:
        lo = -90.0
    if hi > 90.0 - 3.0 * m:
        hi = 90.0
    decb = lo + ((hi - lo) * np.arange(ndec + 1, dtype='d')) / float(ndec)
    g = {'nDec': ndec, 'decBounds': decb, 'top_above_90': bool(decb[ndec] > 90.0), 'm': m}
    top = decb[ndec] if abs(decb[ndec]) > abs(decb[0]) else decb[0]
    c = math.cos(math.radians(top))
    if c <= 0.0:
        g['error'] = 'cosDecMin'
        return g
    # rarange()
    mra = m / c
    best = 361.0
    off = 0.0
    for j in range(6):
        o = 360.0 * j / 6.0
        cur = np.fmod(ra + o, 360.0)
        r0, r1 = float(cur.min()), float(cur.max())
        r = r1 - r0
        if r + best > 0.0 and 2.0 * (r - best) / (r + best) < -1.0e-5 and r0 > mra and r1 < 360.0 - mra:
            best = r
            off = o
    cur = np.fmod(ra + off, 360.0)
    ramin, ramax = float(cur.min()), float(cur.max())
    rar = ramax - ramin
    g.update(raOffset=off, raMin=ramin, raMax=ramax)
    nra = []
    rab = []
    embrace = []
    cells = 0
    for i in range(ndec):
        b = decb[i] if abs(decb[i]) > abs(decb[i + 1]) else decb[i + 1]
        c = math.cos(math.radians(b))
        if c <= 0.0:
            g['error'] = 'cosDecMin'
            return g
        n = 3 + int(math.floor(c * rar / m))
        rt = m * float(n) / c
        a0 = ramin - 0.5 * (rt - ramax + ramin)
        a1 = a0 + rt
        emb = False
        if rt >= 360.0 or a0 <= m / c or a1 >= 360.0 - m / c or abs(decb[i]) == 90.0:
            a0, a1, emb = 0.0, 360.0, True
        if decb[i] == -90.0 or decb[i + 1] == 90.0:
            n = 1
        nra.append(n)
        embrace.append(emb)
        cells += n
        if max_cells is None or cells <= max_cells:
            rab.append(a0 + (a1 - a0) * np.arange(n + 1, dtype='d') / float(n))
    g.update(nRa=nra, raBounds=rab, embrace=embrace, cells=cells)
    return g


def cell_count(ra, dec, m):
    """Number of cells chunks(ra, dec, m) allocates (resource guard); 0 if the layout is refused."""
    g = chunk_geometry(ra, dec, m, max_cells=0)
    return g.get('cells', 0)


def effective_chunk(length, chunk, clamp4):
    """Chunk size the code works with: default max(4*length, 0.1); spheregroup also clamps to 4*length."""
    if chunk is None:
        return max(4.0 * length, 0.1)
    if clamp4 and chunk < 4.0 * length:
        return 4.0 * length
    return chunk


def chunk_class(length, chunk):
    """Trigger predicate used in signatures: how the requested chunk size relates to the match length."""
    if chunk is None:
        return 'default-chunksize'
    if chunk <= length:
        return 'chunksize<=matchlength'
    if chunk < 2.0 * length:
        return 'matchlength<chunksize<2*matchlength'
    if chunk < 4.0 * length:
        return '2*matchlength<=chunksize<4*matchlength'
    return 'chunksize>=4*matchlength'


# ------------------------------------------------------------------ trigger predicate for a lost pair
def lost_pair_trigger(ra1, dec1, i, ra2j, dec2j, s, m, cc, max_cells=200000):
    """Why could the code have lost the pair (list-1 point i, target)?  Evaluated on the re-derived cell layout of
    list 1 (chunk size m); it only names the signature (cc = fallback label), it never decides whether the pair
    is required."""
    try:
        g = chunk_geometry(ra1, dec1, m, max_cells=max_cells)
        if 'error' in g or len(g['raBounds']) != g['nDec']:
            return cc
        db = g['decBounds']
        nd = g['nDec']

        def racell(sl, cur):
            rb = g['raBounds'][sl]
            return int(math.floor((cur - rb[0]) * g['nRa'][sl] / (rb[-1] - rb[0])))
        cur1 = math.fmod(ra1[i] + g['raOffset'], 360.0)
        cur2 = math.fmod(ra2j + g['raOffset'], 360.0)
        k1 = int(math.floor((dec1[i] - db[0]) * nd / (db[-1] - db[0])))
        k2 = int(math.floor((dec2j - db[0]) * nd / (db[-1] - db[0])))
        if k2 < 0 or k2 > nd - 1:
            return 'target-outside-dec-grid:' + cc
        lo = hi = k2
        while dec2j - db[lo] < s and lo > 0:
            lo -= 1
        while db[hi + 1] - dec2j < s and hi < nd - 1:
            hi += 1
        for sl in range(lo, hi + 1):
            c = racell(sl, cur2)
            if c < 0 or c > g['nRa'][sl] - 1:
                return 'target-outside-ra-grid:' + cc     # getbounds raises, assign() drops the point entirely
        if not (lo <= k1 <= hi):
            return cc
        j1 = racell(k1, cur1)
        rb = g['raBounds'][k1]
        a, b = float(rb[j1]), float(rb[j1 + 1])
        top = db[k1] if abs(db[k1]) > abs(db[k1 + 1]) else db[k1 + 1]
        best = None
        for sh in ((0.0, 360.0, -360.0) if g['embrace'][k1] else (0.0,)):
            x = cur2 + sh
            gap = 0.0 if a <= x <= b else min(abs(x - a), abs(x - b))
            if best is None or gap < best[0]:
                best = (gap, sh)
        if best[0] * math.cos(math.radians(top)) >= s * (1.0 - 1e-12):
            return 'flat-ra-margin-test'        # (ra - edge)*cosDecMin >= margin although the true arc is shorter
        if (best[1] < 0 and j1 < g['nRa'][k1] - 1) or (best[1] > 0 and j1 > 0):
            return 'ra-wrap-one-cell-only:' + cc   # the walk across RA 0/360 stops after one cell (cells narrower than margin)
        return cc
    except Exception:      # noqa  (aiming geometry only; never let it mask the violation)
        return cc



# ------------------------------------------------------------------ scenes (site alphabets)
# offsets in lattice units (i along RA scaled by 1/cos(dec0), j along Dec); simplest first
_OFFS = [(0, 0), (1, 0), (0, 1), (2, 1), (27, -13), (2, 2), (-1, 2), (0, -3)]
# polar sites: (RA, colatitude in lattice units) -- both sides of the pole
_POLAR = [(0.0, 1.0), (180.0, 1.0), (90.0, 2.0), (0.0, 3.0), (120.0, 30.0), (270.0, 0.5), (45.0, 2.0), (180.0, 2.5)]
_ALLSKY = [(359.0, 0.5), (1.0, 3.5), (120.0, 45.0), (125.0, 41.0), (10.0, -80.0), (200.0, 85.0), (190.0, -84.0),
           (240.0, -30.0)]

SCENES = ['equator', 'seam', 'npole', 'spole', 'mid60', 'mid-75', 'allsky']
SCALES = [1.0 / 3600.0, 0.01, 0.1, 1.0, 5.0, 20.0, 40.0]


def _local(ra0, dec0, s, n, far):
    u = U * s
    c = math.cos(math.radians(dec0))
    out = []
    for (i, j) in _OFFS[:n]:
        if (i, j) == (27, -13):
            i, j = far
        out.append(((ra0 + i * u / c) % 360.0, dec0 + j * u))
    return out


def scene_sites(scene, s, n=8):
    """The first n sites of a scene at scale s (match/linking length), or None if the scene does not fit."""
    u = U * s
    if scene == 'equator':
        if s > 40.0:
            return None
        sites = _local(150.0, 0.1 * s if s < 20 else 2.0, s, n, (27, -13) if s <= 10 else (9, 2))
    elif scene == 'seam':
        if s > 40.0:
            return None
        sites = _local(360.0 - 0.5 * u, 10.0 if s <= 5 else 3.0, s, n, (27, -13) if s <= 5 else (-9, 2))
    elif scene in ('npole', 'spole'):
        sgn = 1.0 if scene == 'npole' else -1.0
        sites = []
        for (r, k) in _POLAR[:n]:
            if k == 30.0 and s > 5.0:
                k = 6.0
            sites.append((r if sgn > 0 else (360.0 - r) % 360.0, sgn * (90.0 - k * u)))
    elif scene == 'mid60':
        if s > 20.0:
            return None
        sites = _local(200.0, 60.0, s, n, (27, -13) if s <= 5 else (9, -4))
    elif scene == 'mid-75':
        if s > 5.0:
            return None
        sites = [(r, -d) for (r, d) in _local(40.0, 75.0, s, n, (27, -13) if s <= 1 else (9, -4))]
    elif scene == 'allsky':
        if s < 5.0:
            return None     # resource guard by construction: a small chunk over the whole sky explodes
        sites = list(_ALLSKY[:n])
    else:
        raise ValueError(scene)
    if any(abs(d) >= 89.99999 for _, d in sites) or any(not (0.0 <= r < 360.0) for r, _ in sites):
        return None
    return sites


# ------------------------------------------------------------------ milli-arcsecond family (C04 layer M, C05 layer M)
MAS = 1.0 / 3.6e6
MICRO_LENGTHS = [MAS, 10.0 * MAS, 0.1 / 3600.0, 1.0 / 3600.0]
MICRO_SCENES = ['equator', 'mid45', 'mid-75', 'seam', 'near-npole', 'npole', 'spole']
# local sites in units of the length: (along RA, along Dec); pairwise separations 0, 0.5, 0.8, 1.3, 1.7, 2.5, 3.3, 3.8 ...
_MICRO_LOCAL = [(0.0, 0.0), (0.0, 0.5), (0.0, 1.3), (0.8, 0.0), (0.0, 3.8), (-1.7, 0.0)]
# polar sites: (RA, colatitude in units of the length): 0.5, 0.8, 1.3, 2.0, 2.5 across the pole
_MICRO_POLAR = [(0.0, 0.25), (180.0, 0.25), (180.0, 1.05), (90.0, 0.55), (0.0, 2.25), (270.0, 3.0)]


def micro_sites(scene, length, n=6):
    """Compact sites (field of a few lengths) whose separations are simple multiples of `length`.  The float64
    coordinates returned are the inputs; the oracle always works from these rounded values."""
    if scene in ('npole', 'spole'):
        sg = 1.0 if scene == 'npole' else -1.0
        return [(r, sg * (90.0 - k * length)) for (r, k) in _MICRO_POLAR[:n]]
    ra0, dec0 = {'equator': (150.0, 0.3), 'mid45': (30.0, 45.0), 'mid-75': (220.0, -75.0), 'seam': (None, 20.0),
                 'near-npole': (310.0, 89.9)}[scene]
    c = math.cos(math.radians(dec0))
    if ra0 is None:
        ra0 = 360.0 - 0.4 * length / c        # the RA line of sites straddles RA 0/360
    return [((ra0 + x * length / c) % 360.0, dec0 + y * length) for (x, y) in _MICRO_LOCAL[:n]]
