"""C02 — yanny: the meaning of a file does not depend on its surface syntax.

Exhaustive product  logical document x layout  ; every rendering is parsed by the real reader and
compared with the document (reference model = the document itself)."""
import itertools
import os

import numpy as np

from mc.core import Acc
from mc.props import _yanny as Y
from pydl.pydlutils.yanny import yanny

PROP = 'C02'
LEVEL = 'exploration'
ENGINE = 'E1'
TECHNIQUE = 'model checking: exhaustive product of logical documents x all layout choices of the format, each rendering parsed by the real reader, document as reference model'
LEVEL_TEXT = ('for each of 12 (thorough; the other 32 with 2-option menus) logical documents (pairs, enum, 1-2 structs incl. substring/colliding names, all column types, extreme cells) the FULL product of '
              '12 independent layout freedoms (line ends, comments, trailing comments, blank lines, separators, continuation, string style, array notation, '
              'row-name case, interleaving, channel, raw) is rendered and parsed; every parse must equal the document')
LEVEL_NOTE = ('covers only the enumerated documents and layout menus; pair placement is coupled to the blank-line menu, the enum typedef layout (one label per line / one line / brace on the line of the last label) to the interleaving menu and number format to the array-notation menu; '
              'trusted: the renderer/expected-value code in mc/props/c02.py, numpy')
RULE = ('history shards: two documents with equal structure/column names but different column types read alternately in one process through every channel; document x layout product, layouts in lexicographic order of the menus (simplest first). Non-trivial: the rendering differs from the canonical '
        'rendering of its document (layout index != 0) or is the canonical one of a document (one per document). Distinct: (document id, layout tuple).')
ASSUMPTIONS = ['a backslash-newline pair is itself a token separator (as in IDL yanny_nextline): with single-blank separators every second continuation has the backslash directly after the token and the next line starts in column 0', 'comment text contains no quote, #, brace or semicolon (documented pathological cases)',
               'brace-wrapped strings have no leading/trailing blanks, braces or #; array elements are bare or double-quoted',
               'no trailing comments on enum label lines; member declarations one per line, two per line or the whole typedef on one line (coupled to the continuation menu); typedefs precede rows; char[] columns have at least one non-empty value',
               'continuation is used on data rows only (inside a pair value it would change the value text)']

# ------------------------------------------------------------------ layout menus
MENUS = [
    ('eol', ['\n', '\r\n']),
    ('cmt', ['none', 'header', 'all']),
    ('trail', [False, True]),
    ('blank', ['none', 'blocks', 'double']),          # also pair placement: top / after typedefs / end
    ('sep', ['one', 'tab', 'runs']),
    ('cont', ['none', 'name', 'every']),
    ('sstyle', ['bare', 'quoted', 'brace', 'brace2']),
    ('arr', ['[]', '<>']),                             # also number format: repr / explicit exponent+sign
    ('case', ['upper', 'lower', 'declared', 'mixed']),
    ('inter', ['grouped', 'alternate', 'reversed']),
    ('chan', ['path', 'text', 'binary', 'textnl']),      # textnl: text file object opened with newline='' (keeps CRLF)
    ('raw', [False, True]),
]
QUICK_MENUS = {'eol': ['\n', '\r\n'], 'cmt': ['none', 'all'], 'trail': [False, True], 'blank': ['none', 'double'],
               'sep': ['one', 'runs'], 'cont': ['none', 'every'], 'sstyle': ['bare', 'brace2'], 'arr': ['[]', '<>'],
               'case': ['upper', 'mixed'], 'inter': ['grouped', 'alternate'], 'chan': ['textnl', 'binary'],
               'raw': [False, True]}

# ------------------------------------------------------------------ documents
ENUM = {'name': 'COLORS', 'labels': ['RED', 'B', 'GREEN_X']}     # the last label is strictly the longest and is used in rows
STRUCTS = {
    'A': {'name': 'AB', 'cols': [['ival', 'int'], ['fval', 'float'], ['name', 'char[8]'], ['zed', 'double']]},
    'B': {'name': 'ABC', 'cols': [['dval', 'double'], ['tag', 'char[]'], ['arr', 'int[2]']]},
    'C': {'name': 'flux', 'cols': [['lval', 'long'], ['sval', 'short'], ['farr', 'float[2]'], ['larr', 'long[2]']]},
    'D': {'name': 'MyStruct', 'cols': [['names', 'char[2][4]'], ['free', 'char[2][]'], ['color', 'COLORS']]},
    'E': {'name': 'T', 'cols': [['flux', 'float'], ['label', 'char[6]'], ['one', 'long[1]']]},
    'F': {'name': 'BC', 'cols': [['n', 'int'], ['w', 'char[4]']]},       # an ENDING of the name ABC
}
ROWS = {   # two row sets per struct
    'A': [[[2147483647, 0.5, 'a b', -0.0]],                       # zed: a column holding only zeros, one of them negative
          [[-1, float('nan'), '', 0.0], [0, 0.1, '#x', -0.0], [-2147483648, -0.0, "it's", 0.0]]],
    'B': [[[1.0 / 3.0, 'a;b', [1, -2]]],
          [[float('-inf'), '', [0, 2147483647]], [5e-324, ' lead', [-2147483648, 7]], [1.5, 'x\\y', [3, 4]]]],
    'C': [[[9223372036854775807, -32768, [0.5, float('inf')], [2 ** 53 + 1, -9223372036854775808]]],
          [[-9223372036854775808, 32767, [1e-45, -0.0], [9223372036854775807, 1237648720693755918]],
           [0, -1, [float('nan'), 0.1], [-(2 ** 53 + 1), 0]]]],
    'D': [[[['ab', ''], ['a long one', 'q'], 'GREEN_X']],
          [[['', 'a#b'], ['', "it's"], 'B'], [['abcd', 'a;b'], ['a{b', 'zz zz'], 'RED'], [['b', 'a'], ['abcdefgh', 'z'], 'B']]],
    'F': [[[7, 'bc']], [[-1, ''], [0, 'a b']]],
    'E': [[[0.25, 'a{b}c', [7]]],
          [[3.4028234663852886e+38, 'trail ', [-9223372036854775808]], [-1.5, 'a\tb', [2 ** 53 + 1]]]],
}
COMBOS = [['A'], ['B'], ['C'], ['D'], ['E'], ['A', 'B'], ['B', 'A'], ['C', 'E'], ['E', 'C'], ['A', 'D'], ['D', 'C'], ['B', 'F'], ['F', 'B']]
PAIRS = [[], [['mjd', '54579'], ['enum', 'not a typedef'], ['struct', 'a b;c']], [['alpha', 'beta gamma  delta'], ['semi', 'a;b c'], ['Empty', '']],
         [['x', '1.5'], ['path', '/a/b_c.par']]]


def documents():
    docs = []
    i = 0
    for combo in COMBOS:
        for rs in (0, 1):
            for pv in (0, 1):
                pairs = PAIRS[(i + 2 * pv) % len(PAIRS)]
                structs = [STRUCTS[s] for s in combo]
                rows = []   # logical order: grouped by table
                for ti, s in enumerate(combo):
                    for r in ROWS[s][rs]:
                        rows.append([ti, r])
                docs.append({'id': 'd%02d_%s_r%d_p%d' % (len(docs), ''.join(combo), rs, pv), 'pairs': pairs,
                             'enums': [ENUM] if 'D' in combo else [], 'structs': structs, 'rows': rows})
                i += 1
    return docs


DOCS = documents()
# two documents with the SAME structure and column names but different column types: read alternately in one process
HIST_DOCS = [
    {'id': 'hx1', 'pairs': [['k', 'v 1']], 'enums': [], 'structs': [{'name': 'OBS', 'cols': [['id', 'int'], ['val', 'float[2]'], ['tag', 'char[6]']]}],
     'rows': [[0, [7, [0.5, 1.5], 'ab']], [0, [-1, [0.1, float('inf')], 'c d']]]},
    {'id': 'hx2', 'pairs': [['k', 'v 2']], 'enums': [], 'structs': [{'name': 'OBS', 'cols': [['id', 'double'], ['val', 'long'], ['tag', 'char[2][3]']]}],
     'rows': [[0, [0.1, 2 ** 40, ['x', 'yz']]], [0, [-2.5, -7, ['', 'q r']]]]},
]
QUICK_DOCS = [d for d in DOCS if d['id'].endswith('_r1_p1') or d['id'].endswith('D_r0_p0')]


# ------------------------------------------------------------------ rendering
def _basetype(t):
    return t.split('[')[0]


def _is_str(t):
    return _basetype(t) == 'char' or _basetype(t) == 'COLORS'


def _is_arr(t):
    if _basetype(t) == 'char':
        return t.count('[') == 2
    return '[' in t


def fmt_num(v, t, style):
    b = _basetype(t)
    if b in ('short', 'int', 'long'):
        return ('+%d' % v) if (style == '<>' and v > 0) else '%d' % v
    if v != v:
        return 'nan'
    if v in (float('inf'), float('-inf')):
        return 'inf' if v > 0 else '-inf'
    return ('%.17e' % v) if style == '<>' else repr(v)


def fmt_str(s, sstyle, scalar, runs):
    legal_bare = len(s) > 0 and not any(c in s for c in ' \t#"') and s[0] != '{'
    legal_brace = scalar and not any(c in s for c in '{}#"') and s == s.strip()
    if s == '':
        if not scalar or sstyle in ('bare', 'quoted'):
            return '""'
        if sstyle == 'brace':
            return '{}'
        return '{ { } }' if runs else '{{}}'
    if sstyle == 'bare' and legal_bare:
        return s
    if sstyle in ('brace', 'brace2') and legal_brace:
        return '{' + s + '}'
    return '"' + s + '"'


def render(doc, lay):
    eol, sepk = lay['eol'], lay['sep']
    SEP = {'one': ' ', 'tab': '\t', 'runs': '   '}[sepk]
    LEAD = '  ' if sepk == 'runs' else ''
    TRAILB = '  ' if sepk == 'runs' else ''
    ncmt = [0]

    def tcomment():
        if not lay['trail']:
            return ''
        ncmt[0] += 1
        return SEP + '# note %d about this line' % ncmt[0]

    def cline():
        ncmt[0] += 1
        return [LEAD + '# comment line %d' % ncmt[0]]

    blocks = []      # list of blocks; each block = list of physical lines
    header = []
    if lay['cmt'] != 'none':
        header = ['#%yanny', '#', '# rendered by the C02 explorer', '#']
    pairs_lines = [LEAD + k + (SEP + v if v != '' else '') + tcomment() + TRAILB for k, v in doc['pairs']]
    typedefs = []
    for e in doc['enums']:
        # enum typedef layout, coupled to the interleaving menu: one label per line / everything on one line /
        # one label per line with the closing brace on the last label's line
        estyle = {'grouped': 'lines', 'alternate': 'oneline', 'reversed': 'braceonlast'}[lay['inter']]
        if estyle == 'oneline':
            lines = [LEAD + 'typedef' + SEP + 'enum' + SEP + '{' + SEP + (',' + SEP).join(e['labels']) + SEP + '}' + SEP + e['name'] + ';' + TRAILB]
        else:
            lines = ['typedef' + SEP + 'enum' + SEP + '{']
            for j, lab in enumerate(e['labels']):
                lines.append(LEAD + '    ' + lab + (',' if j < len(e['labels']) - 1 else ''))
            if estyle == 'braceonlast':
                lines[-1] += SEP + '}' + SEP + e['name'] + ';'
            else:
                lines.append('}' + SEP + e['name'] + ';')
        typedefs.append(lines)
    for s in doc['structs']:
        # member declarations per physical line, coupled to the continuation menu: one / two / the whole typedef on one line
        mstyle = {'none': 1, 'name': 2, 'every': 0}[lay['cont']]
        decls = []
        for cn, ct in s['cols']:
            base = _basetype(ct)
            dims = ct[len(base):]
            if lay['arr'] == '<>':
                dims = dims.replace('[', '<').replace(']', '>')
            decls.append(base + SEP + cn + dims + ';')
        if mstyle == 0:
            lines = [LEAD + 'typedef' + SEP + 'struct' + SEP + '{' + SEP + SEP.join(decls) + SEP + '}' + SEP + s['name'] + ';' + TRAILB]
        else:
            lines = [LEAD + 'typedef' + SEP + 'struct' + SEP + '{' + TRAILB]
            for j in range(0, len(decls), mstyle):
                lines.append(LEAD + '    ' + SEP.join(decls[j:j + mstyle]) + tcomment() + TRAILB)
            lines.append('}' + SEP + s['name'] + ';' + TRAILB)
        typedefs.append(lines)
    # rows, per table, then interleave
    per = [[] for _ in doc['structs']]
    for ti, cells in doc['rows']:
        s = doc['structs'][ti]
        nm = {'upper': s['name'].upper(), 'lower': s['name'].lower(), 'declared': s['name'],
              'mixed': ''.join(c.lower() if i % 2 == 0 else c.upper() for i, c in enumerate(s['name']))}[lay['case']]
        toks = [nm]
        for (cn, ct), v in zip(s['cols'], cells):
            if _is_arr(ct):
                if _is_str(ct):
                    inner = [fmt_str(x, lay['sstyle'], False, sepk == 'runs') for x in v]
                else:
                    inner = [fmt_num(x, ct, lay['arr']) for x in v]
                toks.append('{' + (SEP if sepk == 'runs' else '') + SEP.join(inner) + (SEP if sepk == 'runs' else '') + '}')
            elif _is_str(ct):
                toks.append(fmt_str(v, lay['sstyle'], True, sepk == 'runs'))
            else:
                toks.append(fmt_num(v, ct, lay['arr']))
        if lay['cont'] == 'none':
            phys = [LEAD + SEP.join(toks)]
        elif lay['cont'] == 'name':
            phys = [LEAD + toks[0] + SEP + '\\' + TRAILB, LEAD + SEP.join(toks[1:])]
        else:
            # the backslash-newline pair itself separates tokens (IDL's yanny_nextline overwrites the backslash with a blank):
            # with single-blank separators every second continuation has the backslash directly after the token and the
            # next physical line starts in column 0
            phys = [LEAD + t + ('' if (sepk == 'one' and i % 2 == 0) else SEP) + '\\' for i, t in enumerate(toks[:-1])] + [LEAD + toks[-1]]
        phys[-1] = phys[-1] + tcomment() + TRAILB
        per[ti].append(phys)
    if lay['inter'] == 'grouped':
        order = [r for t in per for r in t]
    elif lay['inter'] == 'reversed':
        order = [r for t in reversed(per) for r in t]
    else:
        order = [r for tup in itertools.zip_longest(*per) for r in tup if r is not None]
    # assemble blocks
    place = {'none': 'top', 'blocks': 'mid', 'double': 'end'}[lay['blank']]
    seq = []
    if header:
        seq.append(('hdr', header))
    if place == 'top' and pairs_lines:
        seq.append(('pairs', [[ln] for ln in pairs_lines]))
    for td in typedefs:
        seq.append(('typedef', td))
    if place == 'mid' and pairs_lines:
        seq.append(('pairs', [[ln] for ln in pairs_lines]))
    seq.append(('rows', order))
    if place == 'end' and pairs_lines:
        seq.append(('pairs', [[ln] for ln in pairs_lines]))
    out = []
    gap = {'none': [], 'blocks': [''], 'double': ['', LEAD + ' ' if sepk == 'runs' else '']}[lay['blank']]
    for bi, (kind, content) in enumerate(seq):
        if bi > 0:
            out.extend(gap)
            if kind == 'typedef' and not gap:
                pass
        if kind in ('hdr', 'typedef'):
            out.extend(content)
            if lay['cmt'] == 'all' and kind == 'typedef':
                out.extend(cline())
        else:
            for logical in content:
                out.extend(logical)
                if lay['cmt'] == 'all':
                    out.extend(cline())
    return eol.join(out) + eol


# ------------------------------------------------------------------ expected value
def expected(doc):
    tables = []
    for ti, s in enumerate(doc['structs']):
        rows = [cells for t, cells in doc['rows'] if t == ti]
        cols = []
        for ci, (cn, ct) in enumerate(s['cols']):
            b = _basetype(ct)
            arr = _is_arr(ct)
            if b == 'char':
                last = ct[ct.rfind('[') + 1:ct.rfind(']')]
                if last:
                    w = int(last)
                else:
                    vals = [x for r in rows for x in (r[ci] if arr else [r[ci]])]
                    w = max(len(x) for x in vals)
                cols.append((cn, 'S', w, 2 if arr else 0))
            elif b == 'COLORS':
                cols.append((cn, 'S', max(len(x) for x in ENUM['labels']), 0))
            else:
                cls = {'short': ('i', 2), 'int': ('i', 4), 'long': ('i', 8), 'float': ('f', 4), 'double': ('f', 8)}[b]
                n = int(ct[ct.index('[') + 1:ct.index(']')]) if arr else 0
                cols.append((cn, cls[0], cls[1], n))
        tables.append((s['name'].upper(), cols, rows))
    return tables


def _canon_cell(v, cls, w, raw):
    if cls == 'i':
        return int(v)
    if cls == 'f':
        return Y.fbits(v, 8 if raw else w)
    if isinstance(v, bytes):
        return v.decode('latin-1')
    return str(v)


def compare(doc, par, raw):
    bad = []
    exp = expected(doc)
    names = [t[0] for t in exp]
    if list(par.tables()) != names:
        return [('tables', 'got %s expected %s' % (par.tables(), names))]
    ekeys = [k for k, v in doc['pairs']]
    if list(par.pairs()) != ekeys:
        return [('pairs-keys', 'got %s expected %s' % (par.pairs(), ekeys))]
    for k, v in doc['pairs']:
        if par[k] != v:
            bad.append(('pair-value', 'key %s got %r expected %r' % (k, par[k], v)))
            return bad
    for name, cols, rows in exp:
        if list(par.columns(name)) != [c[0] for c in cols]:
            return [('columns', '%s got %s' % (name, par.columns(name)))]
        if par.size(name) != len(rows):
            return [('row-count', '%s got %d expected %d' % (name, par.size(name), len(rows)))]
        tab = par[name]
        if not raw:
            if not isinstance(tab, np.ndarray):
                return [('not-recarray', repr(type(tab)))]
            acols, arows = Y.actual_table(tab)
            widths = Y.string_widths(tab)
            for (cn, cls, w, shape), a in zip(cols, acols):
                aw = widths.get(cn) if cls == 'S' else a[2]
                if a[1] != cls or a[3] != shape or aw != w:
                    return [('column-type', '%s.%s read as %s width %s expected %s' % (name, cn, a, aw, (cls, w, shape)))]
            if tab.dtype != par.dtype(name):
                return [('dtype-method', '%s vs %s' % (tab.dtype, par.dtype(name)))]
        for i, cells in enumerate(rows):
            for (cn, cls, w, shape), v in zip(cols, cells):
                try:
                    got = tab[cn][i]
                except (IndexError, KeyError) as ex:    # ragged columns: size() counts one column, another is shorter
                    return [('column-short', '%s.%s has no row %d although size() is %d: %r' % (name, cn, i, par.size(name), ex))]
                if shape:
                    e = tuple(_canon_cell(x, cls, w, raw) for x in v)
                    try:
                        g = tuple(_canon_cell(x, cls, w, raw) for x in got)
                    except Exception as ex:
                        return [('cell-unreadable', '%s.%s[%d] %r %r' % (name, cn, i, got, ex))]
                    if raw and not isinstance(got, list):
                        return [('raw-not-list', '%s.%s[%d] is %s' % (name, cn, i, type(got).__name__))]
                else:
                    e = _canon_cell(v, cls, w, raw)
                    try:
                        g = _canon_cell(got, cls, w, raw)
                    except Exception as ex:
                        return [('cell-unreadable', '%s.%s[%d] %r %r' % (name, cn, i, got, ex))]
                    if raw and type(got) not in (int, float, str):
                        return [('raw-not-plain', '%s.%s[%d] is %s' % (name, cn, i, type(got).__name__))]
                if g != e:
                    kind = {'S': 'string', 'f': 'float', 'i': 'int'}[cls]
                    return [('%s-value' % kind, '%s.%s[%d] got %r expected %r' % (name, cn, i, g, e))]
    return bad


def check_one(doc, lay, d):
    text = render(doc, lay)
    path = os.path.join(d, 'c.par')
    with open(path, 'wb') as f:
        f.write(text.encode('ascii'))
    fh = None
    try:
        if lay['chan'] == 'path':
            par = yanny(path, raw=lay['raw'])
        else:
            fh = open(path, 'rb') if lay['chan'] == 'binary' else (open(path, 'r', newline='') if lay['chan'] == 'textnl' else open(path, 'r'))
            par = yanny(fh, raw=lay['raw'])
    except Exception as e:
        return [('parse:exception:' + type(e).__name__, repr(e)[:300])]
    finally:
        if fh is not None:
            fh.close()
    return [('parse:' + s, m) for s, m in compare(doc, par, lay['raw'])]


# ------------------------------------------------------------------ tasks
def menus(tier):
    return [(k, v if tier == 'thorough' else QUICK_MENUS[k]) for k, v in MENUS]


def tasks(tier):
    """quick: 12 documents x reduced menus (4096 layouts each). thorough: the same 12 documents x the FULL product of all menus
    (248 832 layouts each) plus the other 32 documents x the reduced menus."""
    t = []
    plan = [(d, 'quick') for d in QUICK_DOCS] if tier == 'quick' else \
           [(d, 'thorough') for d in QUICK_DOCS] + [(d, 'quick') for d in DOCS if d not in QUICK_DOCS]
    for chan in ('path', 'text', 'binary', 'textnl'):
        t.append({'history': True, 'chan': chan})
    for d, mt in plan:
        m = dict(menus(mt))
        for eol in m['eol']:
            for cmt in m['cmt']:
                for sstyle in (m['sstyle'] if mt == 'thorough' else [None]):
                    t.append({'doc': d['id'], 'tier': mt, 'fix': {'eol': eol, 'cmt': cmt, **({'sstyle': sstyle} if sstyle else {})}})
    return t


def run_history(task):
    """Documents with equal structure/column names but different types, read one after the other in the same process."""
    acc = Acc()
    canon = {k: v[0] for k, v in MENUS}
    with Y.TempDir() as d:
        for raw in (False, True):
            for eol in ('\n', '\r\n'):
                for order in ([0, 1, 0], [1, 0, 1], [0, 0, 1], [1, 1, 0]):
                    lay = dict(canon, chan=task['chan'], raw=raw, eol=eol)
                    for step, di in enumerate(order):
                        doc = HIST_DOCS[di]
                        bad = check_one(doc, lay, d)
                        case = {'history': [HIST_DOCS[j]['id'] for j in order[:step + 1]], 'layout': lay}
                        acc.case(('hist', task['chan'], raw, eol, tuple(order), step), True,
                                 'ok:history:%s' % task['chan'] if not bad else 'bad:' + bad[0][0], sample=case)
                        for sig, msg in bad:
                            acc.violation('history:' + sig, case, msg)
    return acc


def run_task(task):
    if task.get('history'):
        return run_history(task)
    acc = Acc()
    doc = [d for d in DOCS if d['id'] == task['doc']][0]
    ms = menus(task['tier'])
    keys = [k for k, _ in ms]
    opts = [[task['fix'][k]] if k in task['fix'] else v for k, v in ms]
    canonical = tuple(v[0] for _, v in MENUS)
    with Y.TempDir() as d:
        for combo in itertools.product(*opts):
            lay = dict(zip(keys, combo))
            bad = check_one(doc, lay, d)
            key = (doc['id'], combo)
            acc.case(key, True, ('ok:%s:%s:%s' % (lay['chan'], 'raw' if lay['raw'] else 'rec', lay['sstyle'])) if not bad else 'bad:' + bad[0][0],
                     sample={'doc': doc['id'], 'layout': lay})
            for sig, msg in bad:
                acc.violation(sig, {'doc': doc['id'], 'layout': lay}, msg)
    return acc


def replay(case):
    if 'history' in case:
        out = []
        with Y.TempDir() as d:
            for did in case['history']:
                out = check_one([x for x in HIST_DOCS if x['id'] == did][0], case['layout'], d)
        return [('history:' + s, m) for s, m in out]
    doc = [d for d in DOCS if d['id'] == case['doc']][0]
    with Y.TempDir() as d:
        return check_one(doc, case['layout'], d)
