"""C11 - combine1fiber / preprocess_spectra: finite flux, conservative inverse variance, faithful resampling.

Bounded-exhaustive enumeration (engine E1): every zero-weight pattern of a short spectrum x output grids x aesthetics
methods x flux / ivar shapes; every single bad run and every pair of bad runs on stacked exposures; a Gaussian feature at
every listed position x redshift through preprocess_spectra.  Oracles: the interpolation-weight rule for "must be zero",
numpy.interp for the single-spectrum inverse variance, analytic flux functions, metamorphic power-of-two scaling.
"""
import itertools
import math
import traceback

import numpy as np

from mc.core import Acc

PROP = 'C11'
LEVEL = 'exploration'
ENGINE = 'E1'
TECHNIQUE = ('model checking: bounded-exhaustive enumeration of all zero-weight patterns x output grids x aesthetics on short '
             'spectra, all single/paired bad runs on stacked exposures, feature x redshift lattice, against an '
             'interpolation-weight oracle and metamorphic scalings')
LEVEL_TEXT = ('every one of the 2^14 (and 2^12 with all four aesthetics methods) zero-weight patterns of a 14- (12-) pixel '
              'spectrum on 7 output grids, every single bad run (start x length<=12) and every pair of bad runs from a 48-run '
              'menu on 2-3 stacked 128-pixel exposures (same and different wavelength coverage), and a Gaussian feature at 10 positions x 3 redshifts (1 and 2 objects) '
              'were executed on the real combine1fiber / preprocess_spectra and compared with an independent oracle')
LEVEL_NOTE = ('holds only for the enumerated uniform and quadratically drifting (8 %) log-wavelength grids, the three noise-free flux shapes (constant, linear, '
              'slow sine) and two ivar levels; nothing is claimed for noisy data (where the 5-sigma rejection acts), for '
              'finalmask/indisp/skyflux, or for flux accuracy on shifted grids next to bad pixels. Trusted: the oracle in '
              'mc/props/c11.py, numpy.interp, the offline SPPIXMASK fixture')
RULE = ('1-D: input pixel i at loglam c0+1e-4*i; a case = (n, zero-weight bit pattern, output grid from {same, +0.5 px, +0.3 px, '
        'wider by 5, narrower by 3, 2x coarser, disjoint}, flux shape, ivar shape or none, aesthetics method, scaling on/off); '
        'all patterns are enumerated for each menu combination. 2-D: (number of exposures, pixel offsets, list of bad runs '
        '(exposure, start, length), flux shape, grid); stacks whose exposures cover different ranges (exposure e shifted by e*D '
        'pixels, D in {24, 40, 100}, plus half a pixel for odd e) x bad runs x ivar shape {constant, ramp, non-monotone} x output '
        'grid {each exposure grid, +0.3 px, wider}; scaling ladder: (base case, c) for every c of a 10-step ladder; non-uniform grids: every zero-weight pattern x (input grid, '
        'output grid) over {uniform, dispersion drifting +8%..-8%, -8%..+8%} x {same, 3 more uniform pixels, 2 fewer drifting '
        'pixels}, all with identical end points; the same grids displaced by +-5e-8, +-3e-7, +-2e-6 dex; flux dtype menu {float64, float32, '
        'int16, int32, int64} on integer-valued counts. preprocess: (objects, redshifts, feature position, 1-D/2-D loglam, own/given output grid). '
        'Non-trivial = at least one good input pixel and at least one output pixel inside the input range (1-D/2-D), every '
        'preprocess case. Distinct = distinct case tuples.')
ASSUMPTIONS = [
    'a single spectrum is also passed as a one-row stack (1, 128) with constant / ramp / non-monotone inverse variance; preprocess_spectra redshifts: 0, 0.01, 0.1 and -0.002',
    '"does not lie between two adjacent good input pixels" is read most permissively: an output pixel may carry weight iff, '
    'for some exposure, it coincides with a good pixel or lies strictly between two adjacent pixels that are both good',
    '"next to ... runs of zero-weight pixels": on output grids that contain the input lattice (same, wider) a pixel '
    'immediately adjacent to a run of >= 3 consecutive zero-weight pixels must also be zero (the source comments define a '
    'run as "3 or more pixels rejected together"); single and double bad pixels put no such demand on their neighbours',
    'identity / reproduction clauses are demanded (a) on the identical grid wherever the output ivar is > 0 (flux within 1e-4 '
    'relative of the input; float32 spline knots limit accuracy to ~1e-5) and (b) as a liveness guard only where every input '
    'pixel within 5 pixels of the output position exists and is good (ivar > 0 there, flux within 1e-4 of the analytic shape)',
    'a constant spectrum stays constant is demanded wherever the output ivar is > 0 (1e-4 relative)',
    'scaling: c = 4 on the large pattern products (1e-9 relative) and a ladder c in {4, 2^-10, 2^10, 2^-30, 2^30, 2^-60, 1e-3, 1e2, 1e-9, '
    '1e-17} on identity / +0.5 px / wider grids, 1-D and stacked; power-of-two scalings are compared to 1e-12 relative (observed: '
    'bit-identical), decimal ones to 1e-8, flux with an absolute floor of 1e-14 x c x 10; a decimal step that deviates is '
    'counted as don\'t-care (skipped) when the power of two of the same magnitude, 2^round(log2 c), reproduces the base result '
    'exactly - then only the rounding of the factor, not the scale, separates the answers (near-singular spline fits); the power-of-two steps are checked on every case',
    'flux shapes and ivar levels keep the spline misfit far below 1 sigma so the 5-sigma rejection in iterfit never fires',
    'stacked exposures with different coverage: where exactly one exposure has data the single-spectrum clauses are applied to '
    'that exposure (non-zero ivar = linear interpolation of that exposure ivar, <= its larger neighbour); the zero rule uses '
    'the most permissive reading across exposures',
    'non-uniform grids: the zero rule, np.interp and the local maximum are evaluated at the true log-wavelengths passed to the '
    'function; cases in which an output pixel lies within 1e-3 px of an input pixel without being bit-identical to it are '
    'skipped (the code treats positions within float32 eps of a pixel as on it); the clean-interior guard uses 6 px',
    'displaced grids: the output grid is the input grid + {5e-8, 3e-7, 2e-6} dex on either side (0.0005-0.02 px: below, just above '
    'and well above float32 eps in dex); no don\'t-care band is needed because the only positional tolerance the code documents '
    '(smask >= 1-EPS) is 1.2e-7 of a PIXEL; a pixel outside the data by any of these amounts must have ivar exactly 0',
    'flux dtype: the same integer-valued counts (1000 + 3k, 1000) as float64/float32/int16/int32/int64 must satisfy the same '
    'clauses (float32: scaling to 1e-5); the dtype of the returned arrays is not constrained',
    'stacked exposures have 128 pixels and at most 24 bad ones, so >= 101 good pixels each as the variance smoothing assumes',
    'without objivar only shape, finiteness, ivar >= 0, the zero rule outside the input range and the constant/identity clauses are checked',
    'preprocess_spectra: the feature position is the output pixel of maximum flux among pixels with ivar > 0; "moves to '
    'L - log10(1+z)" is accepted within one output pixel',
]
DETERMINISM_TASK = 0

FIXTURE = '/verif/fixtures/sdssMaskbits_min.par'
C0 = 3.6
DL = 1.0e-4
FTOL = 1.0e-4
_maskbits_obj = None


def ensure_maskbits():
    """(Re-)install the offline SPPIXMASK table; identity test per case, one parse per process."""
    global _maskbits_obj
    import pydl.pydlutils.sdss as s
    if _maskbits_obj is None:
        _maskbits_obj = s.set_maskbits(maskbits_file=FIXTURE)
    if s.maskbits is not _maskbits_obj:
        s.maskbits = _maskbits_obj


# ------------------------------------------------------------------------------------------------ shapes
def lam(k):
    return C0 + DL * np.asarray(k, dtype=float)


def fluxf(name, k):
    k = np.asarray(k, dtype=float)
    if name == 'const':
        return 10.0 + 0.0 * k
    if name == 'lin':
        return 10.0 + 0.05 * k
    return 10.0 + np.sin(2.0 * np.pi * k / 200.0)


def grid_k(name, n):
    if name == 'same':
        return [float(i) for i in range(n)]
    if name == 'half':
        return [i + 0.5 for i in range(n)]
    if name == 'third':
        return [i + 0.3 for i in range(n)]
    if name == 'wider':
        return [float(i) for i in range(-5, n + 5)]
    if name == 'narrow':
        return [float(i) for i in range(3, n - 3)]
    if name == 'coarse':
        return [float(i) for i in range(0, n, 2)]
    if name == 'disjoint':
        return [float(i) for i in range(n + 10, 2 * n + 10)]
    raise ValueError(name)


GRIDS = ('same', 'half', 'third', 'wider', 'narrow', 'coarse', 'disjoint')
AES = ('traditional', 'mean', 'noconst', 'nothing')


def ivar_in(name, n, zeros):
    if name is None:
        return None
    lev = [4.0] * n if name == 'const' else [4.0 + 0.25 * i for i in range(n)]
    return np.array([0.0 if (zeros >> i) & 1 else lev[i] for i in range(n)])


def may_have_weight(k, good):
    """The interpolation-weight rule for one exposure whose pixel i sits at k = i (good: list of bools)."""
    n = len(good)
    if k == math.floor(k):
        i = int(k)
        return 0 <= i <= n - 1 and good[i]
    i = int(math.floor(k))
    return i >= 0 and i + 1 <= n - 1 and good[i] and good[i + 1]


def why_zero(k, good):
    n = len(good)
    if not any(good):
        return 'no-good-input'
    if k < 0 or k > n - 1:
        return 'outside-input-range'
    if k == math.floor(k):
        return 'on-bad-pixel'
    return 'next-to-bad-pixel'


def next_to_run(i, good, run=3):
    """Good pixel i is immediately adjacent to `run` or more consecutive zero-weight pixels."""
    n = len(good)
    left = i - run >= 0 and not any(good[i - run:i])
    right = i + run <= n - 1 and not any(good[i + 1:i + run + 1])
    return left or right


def clean(k, good, margin=5):
    """Every input pixel within `margin` pixels of k exists and is good."""
    n = len(good)
    lo, hi = int(math.ceil(k - margin)), int(math.floor(k + margin))
    return lo >= 0 and hi <= n - 1 and all(good[lo:hi + 1])


def exc_sig(entry, e, noivar, trigger=''):
    """<entry>:exception:<class>:<cause>; cause = a recognised trigger, else the innermost pydl function that raised."""
    tok = ''
    msg = repr(e)
    if isinstance(e, AttributeError) and noivar:
        tok = ':objivar=None'
    elif 'bitwise_or' in msg:
        tok = ':ufunc-bitwise_or'
    elif 'bitwise_and' in msg:
        tok = ':ufunc-bitwise_and'
    elif trigger:
        tok = trigger
    else:
        tb = traceback.extract_tb(e.__traceback__)
        fn = tb[-1].name if tb else ''
        if fn and fn not in ('combine1fiber', 'preprocess_spectra', 'check_c1', 'check_c2', 'check_pp'):
            tok = ':in-' + fn
    return '%s:exception:%s%s' % (entry, type(e).__name__, tok)


def basic_checks(entry, flux, ivar, nout, aes, bad):
    """Shape, finiteness, sign.  Returns False when the arrays cannot be examined further."""
    flux = np.asarray(flux)
    ivar = np.asarray(ivar)
    if flux.shape != (nout,) or ivar.shape != (nout,):
        bad.append((entry + ':shape', 'flux %s ivar %s expected (%d,)' % (flux.shape, ivar.shape, nout)))
        return False
    ok = True
    if not np.all(np.isfinite(flux)):
        trig = ''
        if aes == 'mean' and np.all(np.isfinite(ivar)) and not np.any(ivar > 0):
            trig = ':aesthetics=mean:no-good-output-pixel'
        bad.append((entry + ':nonfinite-flux' + trig, 'flux %s' % flux.tolist()[:20]))
        ok = False
    if not np.all(np.isfinite(ivar)):
        bad.append((entry + ':nonfinite-ivar', 'ivar %s' % ivar.tolist()[:20]))
        return False
    if np.any(ivar < 0):
        bad.append((entry + ':negative-ivar', 'ivar %s' % ivar.tolist()[:20]))
    return ok


# ------------------------------------------------------------------------------------------------ 1-D
def check_c1(case):
    ensure_maskbits()
    from pydl.pydlspec2d.spec2d import combine1fiber
    E = 'combine1fiber'
    n = case['n']
    kin = np.arange(n, dtype=float)
    gk = grid_k(case['grid'], n)
    fin = fluxf(case['flux'], kin)
    iv = ivar_in(case['ivar'], n, case['zeros'])
    good = [True] * n if iv is None else [bool(v > 0) for v in iv]
    kw = {'aesthetics': case['aes']}
    if iv is not None:
        kw['objivar'] = iv.copy()
    try:
        nf, ni = combine1fiber(lam(kin), fin.copy(), lam(gk), **kw)
    except Exception as e:
        return [(exc_sig(E, e, iv is None), repr(e)[:300])], 'raises-' + type(e).__name__
    bad = []
    if not basic_checks(E, nf, ni, len(gk), case['aes'], bad):
        return bad, 'malformed'
    nf = np.asarray(nf, dtype=float)
    ni = np.asarray(ni, dtype=float)
    seen = set()

    def add(sig, msg):
        if sig not in seen:
            seen.add(sig)
            bad.append((sig, msg))
    expiv = np.interp(lam(gk), lam(kin), iv) if iv is not None else None
    ftrue = fluxf(case['flux'], gk)
    nlive = 0
    for j, k in enumerate(gk):
        if ni[j] != 0:
            if not may_have_weight(k, good):
                add('%s:ivar-nonzero:%s' % (E, why_zero(k, good)), 'output pixel %d (k=%g) has ivar %r' % (j, k, ni[j]))
                continue
            if case['grid'] in ('same', 'wider') and next_to_run(int(k), good):
                add(E + ':ivar-nonzero:adjacent-to-bad-run>=3', 'output pixel %d (k=%g) has ivar %r' % (j, k, ni[j]))
                continue
            if iv is not None:
                if abs(ni[j] - expiv[j]) > 1e-9 * abs(expiv[j]):
                    add(E + ':ivar-not-interpolated', 'output pixel %d (k=%g) ivar %r, interpolated input %r' % (j, k, ni[j], expiv[j]))
                i0, i1 = int(math.floor(k)), int(math.ceil(k))
                if ni[j] > max(iv[i0], iv[i1]) * (1 + 1e-12):
                    add(E + ':ivar-above-local-max', 'output pixel %d (k=%g) ivar %r > max(%r, %r)' % (j, k, ni[j], iv[i0], iv[i1]))
            if case['flux'] == 'const' and abs(nf[j] - 10.0) > FTOL * 10.0:
                add(E + ':constant-not-constant', 'output pixel %d (k=%g) flux %r' % (j, k, nf[j]))
            if case['grid'] == 'same' and abs(nf[j] - fin[j]) > FTOL * abs(fin[j]):
                add(E + ':identity:flux', 'pixel %d flux %r input %r' % (j, nf[j], fin[j]))
        if case['grid'] in ('same', 'half', 'third') and clean(k, good):
            nlive += 1
            if not ni[j] > 0:
                add(E + ':reproduce:ivar-zero-in-clean-interior', 'output pixel %d (k=%g): all input within 5 px good, ivar %r' % (j, k, ni[j]))
            elif abs(nf[j] - ftrue[j]) > FTOL * abs(ftrue[j]):
                add(E + ':reproduce:flux-in-clean-interior', 'output pixel %d (k=%g) flux %r expected %r' % (j, k, nf[j], ftrue[j]))
    if case.get('scale') and iv is not None:
        try:
            sf, si = combine1fiber(lam(kin), fin * 4.0, lam(gk), objivar=iv / 16.0, aesthetics=case['aes'])
            sf = np.asarray(sf, dtype=float)
            si = np.asarray(si, dtype=float)
            if sf.shape != nf.shape or not np.allclose(sf, 4.0 * nf, rtol=1e-9, atol=1e-12, equal_nan=True):
                add(E + ':scaling:flux', 'flux(4f, ivar/16) = %s, 4*flux(f, ivar) = %s' % (sf.tolist()[:16], (4 * nf).tolist()[:16]))
            if si.shape != ni.shape or not np.allclose(si, ni / 16.0, rtol=1e-9, atol=0.0, equal_nan=True):
                add(E + ':scaling:ivar', 'ivar(4f, ivar/16) = %s, ivar/16 = %s' % (si.tolist()[:16], (ni / 16).tolist()[:16]))
        except Exception as e:
            add(exc_sig(E, e, False) + ':scaled-input', repr(e)[:300])
    nz = int(np.sum(ni != 0))
    lab = 'w%s:live%d%s' % ('0' if nz == 0 else ('all' if nz == len(gk) else 'some'), min(nlive, 1), ':scaled' if case.get('scale') else '')
    return bad, lab


# ------------------------------------------------------------------------------------------------ 2-D
NPIX2 = 128


def check_c2(case):
    ensure_maskbits()
    from pydl.pydlspec2d.spec2d import combine1fiber
    E = 'combine1fiber2d'
    nexp = case['nexp']
    npx = NPIX2
    offs = [0.5 * (e % 2) if case['off'] == 'alt' else 0.0 for e in range(nexp)]
    kk = np.arange(npx, dtype=float)
    K = np.array([kk + o for o in offs])
    F = fluxf(case['flux'], K)
    levels = [4.0, 2.0, 1.0]
    I = np.array([np.full(npx, levels[e]) for e in range(nexp)])
    for e, s, ln in case['runs']:
        I[e, s:s + ln] = 0.0
    good = [[bool(v > 0) for v in I[e]] for e in range(nexp)]
    gk = [float(i) for i in (range(npx) if case['grid'] == 'same' else range(-3, npx + 3))]
    try:
        nf, ni = combine1fiber(lam(K), F.copy(), lam(gk), objivar=I.copy(), aesthetics=case['aes'])
    except Exception as e:
        return [(exc_sig(E, e, False), repr(e)[:300])], 'raises-' + type(e).__name__
    bad = []
    if not basic_checks(E, nf, ni, len(gk), case['aes'], bad):
        return bad, 'malformed'
    nf = np.asarray(nf, dtype=float)
    ni = np.asarray(ni, dtype=float)
    seen = set()

    def add(sig, msg):
        if sig not in seen:
            seen.add(sig)
            bad.append((sig, msg))
    ftrue = fluxf(case['flux'], gk)
    nlive = 0
    nforced = 0
    for j, k in enumerate(gk):
        allowed = any(may_have_weight(k - offs[e], good[e]) for e in range(nexp))
        if not allowed:
            nforced += 1
            if ni[j] != 0:
                inside = any(0 <= k - offs[e] <= npx - 1 for e in range(nexp))
                add('%s:ivar-nonzero:%s' % (E, 'in-or-next-to-bad-run' if inside else 'outside-input-range'),
                    'output pixel %d (k=%g) has ivar %r; runs %s' % (j, k, ni[j], case['runs']))
            continue
        if ni[j] > 0 and case['flux'] == 'const' and abs(nf[j] - 10.0) > FTOL * 10.0:
            add(E + ':constant-not-constant', 'output pixel %d (k=%g) flux %r' % (j, k, nf[j]))
        if all(clean(k - offs[e], good[e]) for e in range(nexp)):
            nlive += 1
            if not ni[j] > 0:
                add(E + ':reproduce:ivar-zero-in-clean-interior', 'output pixel %d (k=%g): every exposure good within 5 px, ivar %r' % (j, k, ni[j]))
            elif abs(nf[j] - ftrue[j]) > FTOL * abs(ftrue[j]):
                add(E + ':reproduce:flux-in-clean-interior', 'output pixel %d (k=%g) flux %r expected %r' % (j, k, nf[j], ftrue[j]))
    if case.get('scale'):
        try:
            sf, si = combine1fiber(lam(K), F * 4.0, lam(gk), objivar=I / 16.0, aesthetics=case['aes'])
            sf = np.asarray(sf, dtype=float)
            si = np.asarray(si, dtype=float)
            if sf.shape != nf.shape or not np.allclose(sf, 4.0 * nf, rtol=1e-9, atol=1e-12, equal_nan=True):
                add(E + ':scaling:flux', 'max rel diff %r' % float(np.max(np.abs(sf - 4 * nf) / np.abs(4 * nf + (nf == 0)))))
            if si.shape != ni.shape or not np.allclose(si, ni / 16.0, rtol=1e-9, atol=0.0, equal_nan=True):
                add(E + ':scaling:ivar', 'ivar(4f, ivar/16) != ivar/16')
        except Exception as e:
            add(exc_sig(E, e, False) + ':scaled-input', repr(e)[:300])
    lab = 'x%d:runs%d:forced%s:live%d%s' % (nexp, len(case['runs']), '0' if nforced == 0 else '+', min(nlive, 1),
                                            ':scaled' if case.get('scale') else '')
    return bad, lab


# ------------------------------------------------------------------------------------------------ 2-D, different coverage
def ivar3(name, e, npx):
    i = np.arange(npx, dtype=float)
    if name == 'const':
        return np.full(npx, [4.0, 2.0, 1.0][e])
    if name == 'ramp':
        return [4.0, 2.0, 1.0][e] + [0.01, 0.02, 0.005][e] * i
    return [4.0 + 0.5 * (i % 2), 2.0 + 0.25 * (i % 3), 1.0 + 0.125 * (i % 2)][e]      # 'saw': not monotone


def check_c3(case):
    """Stacked exposures that cover different wavelength ranges: exposure e occupies k = i + e*D (+ frac for odd e)."""
    ensure_maskbits()
    from pydl.pydlspec2d.spec2d import combine1fiber
    E = 'combine1fiber2d'
    nexp, D, npx = case['nexp'], case['D'], NPIX2
    offs = [float(e * D) + (case['frac'] if e % 2 else 0.0) for e in range(nexp)]
    kk = np.arange(npx, dtype=float)
    K = np.array([kk + o for o in offs])
    F = fluxf(case['flux'], K)
    I = np.array([ivar3(case['ivar'], e, npx) for e in range(nexp)])
    for e, s, ln in case['runs']:
        I[e, s:s + ln] = 0.0
    I0 = I.copy()
    good = [[bool(v > 0) for v in I0[e]] for e in range(nexp)]
    kmax = int(offs[-1]) + npx - 1
    g = case['grid']
    if g.startswith('exp'):
        gk = [i + offs[int(g[3:])] for i in range(npx)]
    elif g == 'third':
        gk = [i + 0.3 for i in range(kmax + 1)]
    else:
        gk = [float(i) for i in range(-5, kmax + 6)]
    try:
        nf, ni = combine1fiber(lam(K), F.copy(), lam(gk), objivar=I, aesthetics=case['aes'])
    except Exception as e:
        return [(exc_sig(E, e, False), repr(e)[:300])], 'raises-' + type(e).__name__
    bad = []
    if not basic_checks(E, nf, ni, len(gk), case['aes'], bad):
        return bad, 'malformed'
    nf = np.asarray(nf, dtype=float)
    ni = np.asarray(ni, dtype=float)
    seen = set()

    def add(sig, msg):
        if sig not in seen:
            seen.add(sig)
            bad.append((sig, msg))
    trig = ':nonmonotone-ivar' if case['ivar'] == 'saw' else ''
    ftrue = fluxf(case['flux'], gk)
    nsingle = nforced = nlive = 0
    for j, k in enumerate(gk):
        cover = [e for e in range(nexp) if 0 <= k - offs[e] <= npx - 1]
        allowed = any(may_have_weight(k - offs[e], good[e]) for e in cover)
        if not allowed:
            nforced += 1
            if ni[j] != 0:
                add('%s:ivar-nonzero:%s' % (E, 'in-or-next-to-bad-run' if cover else 'outside-input-range'),
                    'output pixel %d (k=%g, covered by exposures %s) has ivar %r; offsets %s runs %s' % (j, k, cover, ni[j], offs, case['runs']))
            continue
        if len(cover) == 1 and ni[j] != 0:
            # only one exposure has data here: the single-spectrum clauses apply to it
            e = cover[0]
            nsingle += 1
            kl = k - offs[e]
            exp = float(np.interp(kl, kk, I0[e]))
            i0, i1 = int(math.floor(kl)), int(math.ceil(kl))
            if abs(ni[j] - exp) > 1e-9 * abs(exp):
                add(E + ':single-coverage:ivar-not-interpolated' + trig,
                    'output pixel %d (k=%g) lies in exposure %d only: ivar %r, interpolated input %r' % (j, k, e, ni[j], exp))
            if ni[j] > max(I0[e][i0], I0[e][i1]) * (1 + 1e-12):
                add(E + ':single-coverage:ivar-above-local-max' + trig,
                    'output pixel %d (k=%g) lies in exposure %d only: ivar %r > max(%r, %r)' % (j, k, e, ni[j], I0[e][i0], I0[e][i1]))
        if ni[j] > 0 and case['flux'] == 'const' and abs(nf[j] - 10.0) > FTOL * 10.0:
            add(E + ':constant-not-constant', 'output pixel %d (k=%g) flux %r' % (j, k, nf[j]))
        if all(clean(k - offs[e], good[e]) or k - offs[e] < -6 or k - offs[e] > npx + 5 for e in range(nexp)):
            nlive += 1
            if not ni[j] > 0:
                add(E + ':reproduce:ivar-zero-in-clean-interior', 'output pixel %d (k=%g): every exposure good within 5 px or absent, ivar %r' % (j, k, ni[j]))
            elif abs(nf[j] - ftrue[j]) > FTOL * abs(ftrue[j]):
                add(E + ':reproduce:flux-in-clean-interior', 'output pixel %d (k=%g) flux %r expected %r' % (j, k, nf[j], ftrue[j]))
    lab = 'cov:x%d:runs%d:forced%s:single%d:live%d' % (nexp, len(case['runs']), '0' if nforced == 0 else '+', min(nsingle, 1), min(nlive, 1))
    return bad, lab


# ------------------------------------------------------------------------------------------------ non-uniform grids
DRIFT = 0.08
NUGRIDS = ('uni', 'dp', 'dm', 'uni+3', 'dp-2')


def nu_pos(name, n):
    """Pixel positions (in units of the nominal pixel) of a grid spanning exactly [0, n-1].

    uni: i;  dp / dm: quadratic drift, spacing varies from 1+DRIFT to 1-DRIFT (resp. the reverse) with the same end points
    and pixel count;  uni+3: uniform with 3 more pixels on the same range;  dp-2: drifting with 2 fewer pixels."""
    N = float(n - 1)
    if name == 'uni':
        return [float(i) for i in range(n)]
    if name in ('dp', 'dm'):
        d = DRIFT if name == 'dp' else -DRIFT
        p = [i + d * i * (N - i) / N for i in range(n)]
    elif name == 'uni+3':
        m = n + 3
        p = [j * N / (m - 1) for j in range(m)]
    else:
        m = n - 2
        t = [j * N / (m - 1) for j in range(m)]
        p = [u + DRIFT * u * (N - u) / N for u in t]
    p[0], p[-1] = 0.0, N
    return p


def allowed_at(v, lx, good):
    """Interpolation-weight rule at the true positions: lx = sorted input loglam (floats as passed), v = output loglam."""
    i = int(np.searchsorted(lx, v, side='left'))
    if i < len(lx) and lx[i] == v:
        return bool(good[i]), i, i
    if i == 0 or i >= len(lx):
        return False, None, None
    return bool(good[i - 1] and good[i]), i - 1, i


def check_nu(case):
    ensure_maskbits()
    from pydl.pydlspec2d.spec2d import combine1fiber
    E = 'combine1fiber'
    n = case['n']
    px = nu_pos(case['gin'], n)
    py = nu_pos(case['gout'], n)
    lx, ly = lam(px), lam(py)
    dex = float(case.get('dex') or 0.0)
    if dex:
        # the whole output grid displaced by a tiny amount in log10-wavelength (rounding-sized up to a few float32 eps):
        # every output pixel is then strictly between two input pixels or strictly outside the data
        ly = ly + dex
        py = [v + dex / DL for v in py]
    # Don't-care band.  The code documents one tolerance on the *position* of an output pixel relative to an input pixel:
    # `smask >= 1 - EPS`, i.e. within float32 eps (1.2e-7) of a PIXEL (1.2e-11 dex) an output pixel counts as on the input
    # pixel.  Displacements enumerated here are >= 5e-4 px, far outside that band; anything closer than 1e-6 px (1e-3 px on
    # the drifting grids, where near-coincidences would be accidental) without being bit-identical is skipped.
    tol = 1e-6 if dex else 1e-3
    for j in range(len(ly)):
        dmin = float(np.min(np.abs(lx - ly[j]))) / DL
        if (0 < dmin < tol) and not np.any(lx == ly[j]):
            return [], 'skip:output pixel within %g px of an input pixel without coinciding' % tol
    fin = fluxf(case['flux'], px)
    iv = ivar_in(case['ivar'], n, case['zeros'])
    good = [True] * n if iv is None else [bool(v > 0) for v in iv]
    kw = {'aesthetics': case['aes']}
    if iv is not None:
        kw['objivar'] = iv.copy()
    try:
        nf, ni = combine1fiber(lx, fin.copy(), ly, **kw)
    except Exception as e:
        return [(exc_sig(E, e, iv is None), repr(e)[:300])], 'raises-' + type(e).__name__
    bad = []
    if not basic_checks(E, nf, ni, len(py), case['aes'], bad):
        return bad, 'malformed'
    nf = np.asarray(nf, dtype=float)
    ni = np.asarray(ni, dtype=float)
    seen = set()

    def add(sig, msg):
        if sig not in seen:
            seen.add(sig)
            bad.append((sig, msg))
    expiv = np.interp(ly, lx, iv if iv is not None else np.ones(n))
    ftrue = fluxf(case['flux'], py)
    ivq = iv if iv is not None else np.ones(n)
    nlive = 0
    for j, v in enumerate(ly):
        ok, i0, i1 = allowed_at(v, lx, good)
        if ni[j] != 0:
            if not ok:
                why = 'no-good-input' if not any(good) else ('outside-input-range' if i0 is None else
                                                            ('on-bad-pixel' if i0 == i1 else 'next-to-bad-pixel'))
                add('%s:ivar-nonzero:%s' % (E, why), 'output pixel %d (position %.7f px%s) has ivar %r'
                    % (j, py[j], (', grid displaced by %g dex' % dex) if dex else '', ni[j]))
                continue
            if iv is not None and abs(ni[j] - expiv[j]) > 1e-9 * abs(expiv[j]):
                add(E + ':ivar-not-interpolated', 'output pixel %d (position %.4f px) ivar %r, interpolated input %r' % (j, py[j], ni[j], expiv[j]))
            if iv is not None and ni[j] > max(ivq[i0], ivq[i1]) * (1 + 1e-12):
                add(E + ':ivar-above-local-max', 'output pixel %d (position %.4f px) ivar %r > max(%r, %r)' % (j, py[j], ni[j], ivq[i0], ivq[i1]))
            if case['flux'] == 'const' and abs(nf[j] - 10.0) > FTOL * 10.0:
                add(E + ':constant-not-constant', 'output pixel %d flux %r' % (j, nf[j]))
            if case['gin'] == case['gout'] and not dex and abs(nf[j] - fin[j]) > FTOL * abs(fin[j]):
                add(E + ':identity:flux', 'pixel %d flux %r input %r' % (j, nf[j], fin[j]))
        near = [i for i in range(n) if abs(px[i] - py[j]) <= 6.0]
        if 6.0 <= py[j] <= n - 1 - 6.0 and all(good[i] for i in near):
            nlive += 1
            if not ni[j] > 0:
                add(E + ':reproduce:ivar-zero-in-clean-interior', 'output pixel %d (position %.4f px): all input within 6 px good, ivar %r' % (j, py[j], ni[j]))
            elif abs(nf[j] - ftrue[j]) > FTOL * abs(ftrue[j]):
                add(E + ':reproduce:flux-in-clean-interior', 'output pixel %d (position %.4f px) flux %r expected %r' % (j, py[j], nf[j], ftrue[j]))
    nz = int(np.sum(ni != 0))
    return bad, 'nonuni:%s>%s%s:w%s:live%d' % (case['gin'], case['gout'], (':dex%+g' % dex) if dex else '', '0' if nz == 0 else ('all' if nz == len(py) else 'some'), min(nlive, 1))


def check_nu2(case):
    """Two stacked exposures on differently drifting grids with common end points; zero rule at the true positions."""
    ensure_maskbits()
    from pydl.pydlspec2d.spec2d import combine1fiber
    E = 'combine1fiber2d'
    npx = NPIX2
    P = [nu_pos(g, npx) for g in case['gin']]
    py = nu_pos(case['gout'], npx)
    L = np.array([lam(p) for p in P])
    ly = lam(py)
    F = np.array([fluxf(case['flux'], p) for p in P])
    I = np.array([ivar3('ramp', e, npx) for e in range(len(P))])
    for e, s0, ln in case['runs']:
        I[e, s0:s0 + ln] = 0.0
    good = [[bool(v > 0) for v in I[e]] for e in range(len(P))]
    for j, v in enumerate(py):
        for p in P:
            i = int(np.argmin(np.abs(np.asarray(p) - v)))
            if 0 < abs(p[i] - v) < 1e-3:
                return [], 'skip:output pixel within 1e-3 px of an input pixel without coinciding'
    try:
        nf, ni = combine1fiber(L, F.copy(), ly, objivar=I.copy(), aesthetics=case['aes'])
    except Exception as e:
        return [(exc_sig(E, e, False), repr(e)[:300])], 'raises-' + type(e).__name__
    bad = []
    if not basic_checks(E, nf, ni, len(py), case['aes'], bad):
        return bad, 'malformed'
    ni = np.asarray(ni, dtype=float)
    nforced = 0
    for j, v in enumerate(ly):
        if not any(allowed_at(v, L[e], good[e])[0] for e in range(len(P))):
            nforced += 1
            if ni[j] != 0:
                bad.append((E + ':ivar-nonzero:in-or-next-to-bad-run', 'output pixel %d (position %.4f px) has ivar %r; runs %s'
                            % (j, py[j], ni[j], case['runs'])))
                break
    return bad, 'nonuni2:%s:forced%s' % ('+'.join(case['gin']), '0' if nforced == 0 else '+')


# ------------------------------------------------------------------------------------------------ flux dtype
FLUX_DTYPES = ('float64', 'float32', 'int16', 'int32', 'int64')


def counts(shape, k):
    """Integer-valued flux (raw counts): exactly representable in every dtype of FLUX_DTYPES."""
    k = np.asarray(k, dtype=float)
    return 1000.0 + (3.0 * k if shape == 'lin' else 0.0 * k)


def check_dt(case):
    """The same integer-valued spectrum passed as float64 / float32 / int16 / int32 / int64 flux."""
    ensure_maskbits()
    from pydl.pydlspec2d.spec2d import combine1fiber
    E = 'combine1fiber'
    n = case['n']
    kin = np.arange(n, dtype=float)
    gk = grid_k(case['grid'], n)
    dt = case['dtype']
    tag = ':flux-dtype=' + ('integer' if dt.startswith('int') else dt)
    f64 = counts(case['shape'], kin)
    fin = f64.astype(dt)
    assert np.array_equal(fin.astype(float), f64)
    iv = ivar_in(case['ivar'], n, case['zeros'])
    good = [True] * n if iv is None else [bool(v > 0) for v in iv]
    kw = {'aesthetics': 'traditional'}
    if iv is not None:
        kw['objivar'] = iv.copy()
    try:
        nf, ni = combine1fiber(lam(kin), fin.copy(), lam(gk), **kw)
    except Exception as e:
        return [(exc_sig(E, e, iv is None) + tag, repr(e)[:300])], 'raises-' + type(e).__name__
    bad = []
    if not basic_checks(E, nf, ni, len(gk), 'traditional', bad):
        return [(sg + tag, m) for sg, m in bad], 'malformed'
    nf = np.asarray(nf, dtype=float)
    ni = np.asarray(ni, dtype=float)
    seen = set()

    def add(sig, msg):
        if sig not in seen:
            seen.add(sig)
            bad.append((sig + tag, msg))
    ftrue = counts(case['shape'], gk)
    expiv = np.interp(lam(gk), lam(kin), iv) if iv is not None else None
    nlive = 0
    for j, k in enumerate(gk):
        if ni[j] != 0:
            if not may_have_weight(k, good):
                add('%s:ivar-nonzero:%s' % (E, why_zero(k, good)), 'output pixel %d (k=%g) has ivar %r' % (j, k, ni[j]))
                continue
            if iv is not None and abs(ni[j] - expiv[j]) > 1e-9 * abs(expiv[j]):
                add(E + ':ivar-not-interpolated', 'output pixel %d (k=%g) ivar %r, interpolated input %r' % (j, k, ni[j], expiv[j]))
            if case['shape'] == 'const' and abs(nf[j] - 1000.0) > FTOL * 1000.0:
                add(E + ':constant-not-constant', 'output pixel %d (k=%g) flux %r' % (j, k, nf[j]))
            if case['grid'] == 'same' and abs(nf[j] - f64[j]) > FTOL * abs(f64[j]):
                add(E + ':identity:flux', 'pixel %d flux %r input %r' % (j, nf[j], f64[j]))
        if case['grid'] in ('same', 'half', 'third') and clean(k, good):
            nlive += 1
            if not ni[j] > 0:
                add(E + ':reproduce:ivar-zero-in-clean-interior', 'output pixel %d (k=%g): all input within 5 px good, ivar %r' % (j, k, ni[j]))
            elif abs(nf[j] - ftrue[j]) > FTOL * abs(ftrue[j]):
                add(E + ':reproduce:flux-in-clean-interior', 'output pixel %d (k=%g) flux %r expected %r' % (j, k, nf[j], ftrue[j]))
    if iv is not None:
        # scaling by c = 2 keeps the flux integer-valued and inside int16
        rtol = 1e-5 if dt == 'float32' else 1e-9
        try:
            sf, si = combine1fiber(lam(kin), (2.0 * f64).astype(dt), lam(gk), objivar=iv / 4.0, aesthetics='traditional')
            sf, si = np.asarray(sf, dtype=float), np.asarray(si, dtype=float)
            if sf.shape != nf.shape or not np.allclose(sf, 2.0 * nf, rtol=rtol, atol=1e-9, equal_nan=True):
                j = int(np.argmax(np.abs(sf - 2 * nf)))
                add(E + ':scaling:flux', 'c=2: pixel %d flux(2f, ivar/4) = %r, 2*flux(f, ivar) = %r' % (j, sf[j], 2 * nf[j]))
            if si.shape != ni.shape or not np.allclose(si, ni / 4.0, rtol=1e-9, atol=0.0, equal_nan=True):
                add(E + ':scaling:ivar', 'c=2: ivar(2f, ivar/4) != ivar/4')
        except Exception as e:
            add(exc_sig(E, e, False) + ':scaled-input', repr(e)[:300])
    nz = int(np.sum(ni != 0))
    return bad, 'dtype:%s:w%s:live%d' % (dt, '0' if nz == 0 else ('all' if nz == len(gk) else 'some'), min(nlive, 1))


# ------------------------------------------------------------------------------------------------ scaling ladder
LADDER = ('4', '2^-10', '2^10', '2^-30', '2^30', '2^-60', '1e-3', '1e2', '1e-9', '1e-17')
EPS32 = float(np.finfo(np.float32).eps)


def cval(lab):
    return 2.0 ** int(lab[2:]) if lab.startswith('2^') else float(lab)


def _sc_inputs(case):
    """(loglam, flux, ivar, output k list) of the unscaled base case."""
    if case['kind'] == '1d':
        n = case['n']
        kin = np.arange(n, dtype=float)
        return lam(kin), fluxf(case['flux'], kin), ivar_in(case['ivar'], n, case['zeros']), grid_k(case['grid'], n)
    nexp, npx = case['nexp'], NPIX2
    offs = [0.5 * (e % 2) if case['off'] == 'alt' else 0.0 for e in range(nexp)]
    kk = np.arange(npx, dtype=float)
    K = np.array([kk + o for o in offs])
    I = np.array([ivar3(case['ivar'], e, npx) for e in range(nexp)])
    for e, s0, ln in case['runs']:
        I[e, s0:s0 + ln] = 0.0
    gk = [float(i) for i in (range(npx) if case['grid'] == 'same' else range(-3, npx + 3))]
    return lam(K), fluxf(case['flux'], K), I, gk


def check_sc(case, cache=None):
    """flux*c, ivar/c^2  ->  outputs*c, /c^2 for a ladder of c (powers of two and decimal)."""
    ensure_maskbits()
    from pydl.pydlspec2d.spec2d import combine1fiber
    E = 'combine1fiber' if case['kind'] == '1d' else 'combine1fiber2d'
    ll, fl, iv, gk = _sc_inputs(case)
    c = cval(case['c'])
    pow2 = case['c'].startswith('2^') or case['c'] == '4'
    rtol = 1e-12 if pow2 else 1e-8
    bkey = tuple(sorted((k, repr(v)) for k, v in case.items() if k != 'c'))
    try:
        if cache is not None and bkey in cache:
            nf, ni, _ = cache[bkey]
        else:
            nf, ni = combine1fiber(ll, fl.copy(), lam(gk), objivar=iv.copy(), aesthetics=case['aes'])
            nf, ni = np.asarray(nf, dtype=float), np.asarray(ni, dtype=float)
        if cache is not None:
            cache.clear()
            cache[bkey] = (nf, ni, None)
        sf, si = combine1fiber(ll, fl * c, lam(gk), objivar=iv / c ** 2, aesthetics=case['aes'])
    except Exception as e:
        return [(exc_sig(E, e, False) + ':scaled-input', repr(e)[:300])], 'raises-' + type(e).__name__
    bad = []
    if not basic_checks(E, sf, si, len(gk), case['aes'], bad):
        return bad, 'malformed'
    sf, si = np.asarray(sf, dtype=float), np.asarray(si, dtype=float)
    ei = ni / c ** 2
    pos = ei[ei > 0]
    trig = ':ivar-below-float32-eps' if pos.size and pos.min() < EPS32 else ''
    fscale = c * 10.0
    if not np.all(np.abs(sf - c * nf) <= rtol * np.abs(c * nf) + 1e-14 * fscale):
        j = int(np.argmax(np.abs(sf - c * nf)))
        bad.append((E + ':scaling:flux' + trig, 'c=%s: pixel %d flux(c f, ivar/c^2)/c = %r, flux(f, ivar) = %r' % (case['c'], j, sf[j] / c, nf[j])))
    if not np.all(np.abs(si - ei) <= rtol * ei):
        j = int(np.argmax(np.abs(si - ei) / (ei + (ei == 0))))
        bad.append((E + ':scaling:ivar' + trig, 'c=%s: pixel %d ivar(c f, ivar/c^2)*c^2 = %r, ivar(f, ivar) = %r' % (case['c'], j, si[j] * c ** 2, ni[j])))
    if bad and not pow2:
        # Is the deviation caused by the magnitude (a scale-dependent code path) or by the rounding of the decimal factor?
        # The nearest power of two has the same magnitude but multiplies exactly: if it reproduces the base result, only
        # round-off separates the two answers (near-singular spline fit, Cholesky fall-back decided by the last bit) and
        # the case is numerically indeterminate - don't-care, not a verdict.
        c2 = 2.0 ** round(math.log2(c))
        try:
            qf, qi = combine1fiber(ll, fl * c2, lam(gk), objivar=iv / c2 ** 2, aesthetics=case['aes'])
            qf, qi = np.asarray(qf, dtype=float), np.asarray(qi, dtype=float)
            same = (qf.shape == nf.shape and np.all(np.abs(qf - c2 * nf) <= 1e-12 * np.abs(c2 * nf) + 1e-14 * c2 * 10.0)
                    and np.all(np.abs(qi - ni / c2 ** 2) <= 1e-12 * ni / c2 ** 2))
        except Exception:
            same = False
        if same:
            return [], 'skip:decimal scaling deviates but the power of two of the same magnitude is exact (round-off-decided fit)'
    return bad, 'ladder:%s:%s:%s' % (case['kind'], 'pow2' if pow2 else 'dec', 'w0' if not pos.size else 'w+')


# ------------------------------------------------------------------------------------------------ preprocess_spectra
NPIXP = 60


def check_pp(case):
    ensure_maskbits()
    from pydl.pydlspec2d.spec1d import preprocess_spectra
    E = 'preprocess_spectra'
    nobj = case['nobj']
    z = [float(v) for v in case['z']]
    npx = NPIXP
    kk = np.arange(npx, dtype=float)
    pos = [case['pos'] + 7 * o for o in range(nobj)]
    flux = np.array([10.0 + 5.0 * np.exp(-0.5 * ((kk - p) / 2.5) ** 2) for p in pos])
    ivar = np.full((nobj, npx), 4.0)
    # 2-D wavelength solution: object o starts 3*o pixels later, so rows must not be mixed up
    lshift = [3 * o if case['ll2d'] else 0 for o in range(nobj)]
    ll = lam(kk) if not case['ll2d'] else np.array([lam(kk + lshift[o]) for o in range(nobj)])
    kw = {}
    if case.get('aes'):
        kw['aesthetics'] = case['aes']
    if case.get('newll'):
        kw['newloglam'] = lam(np.arange(-450, npx + 10, dtype=float))
    try:
        res = preprocess_spectra(flux.copy(), ivar.copy(), loglam=ll.copy(), zfit=np.array(z), **kw)
        nflux, nivar, nll = res
    except Exception as e:
        trig = ':loglam-2d:newloglam=None' if (case['ll2d'] and not case.get('newll')) else ''
        return [(exc_sig(E, e, False, trig), repr(e)[:300])], 'raises-' + type(e).__name__
    bad = []
    nflux = np.asarray(nflux, dtype=float)
    nivar = np.asarray(nivar, dtype=float)
    nll = np.asarray(nll, dtype=float)
    if nflux.ndim != 2 or nflux.shape != nivar.shape or nflux.shape != (nobj, nll.size):
        return [(E + ':shape', 'flux %s ivar %s loglam %s' % (nflux.shape, nivar.shape, nll.shape))], 'malformed'
    if not np.all(np.isfinite(nflux)):
        bad.append((E + ':nonfinite-flux', 'non-finite flux'))
    if not np.all(np.isfinite(nivar)):
        bad.append((E + ':nonfinite-ivar', 'non-finite ivar'))
        return bad, 'malformed'
    if np.any(nivar < 0):
        bad.append((E + ':negative-ivar', 'negative ivar'))
    for o in range(nobj):
        w = nivar[o] > 0
        expect = float(lam(pos[o] + lshift[o])) - math.log10(1.0 + z[o])
        if not w.any():
            bad.append((E + ':feature-position', 'object %d: no output pixel with ivar > 0' % o))
            break
        idx = np.nonzero(w)[0][int(np.argmax(nflux[o][w]))]
        if not np.isfinite(nflux[o][idx]) or abs(nll[idx] - expect) > DL * (1 + 1e-6):
            bad.append((E + ':feature-position', 'object %d z=%g: peak found at loglam %.6f, expected %.6f (pixel %.2f off)'
                        % (o, z[o], nll[idx], expect, (nll[idx] - expect) / DL)))
            break
    return bad, 'obj%d:%s:%s' % (nobj, 'shifted' if any(z) else 'z0', 'given-grid' if case.get('newll') else 'own-grid')


CHECKS = {'c1': check_c1, 'c2': check_c2, 'c3': check_c3, 'sc': check_sc, 'nu': check_nu, 'nu2': check_nu2, 'dt': check_dt, 'pp': check_pp}


def check_case(case):
    return CHECKS[case['f']](case)[0]


def replay(case):
    return check_case(case)


# ------------------------------------------------------------------------------------------------ enumeration
RUN_STARTS = list(range(0, 128, 8))
RUN_LENS = (1, 3, 12)
Z = (0.0, 0.01, 0.1, -0.002)      # a blueshifted object: the feature moves redwards
POS = tuple(range(10, 50, 4))


def tasks(tier):
    T = tier == 'thorough'
    t = []
    # shard 0 (small): no inverse variance at all
    t.append({'f': 'noivar'})
    t.append({'f': 'pp', 'nobj': 1})
    for zi in range(len(Z)):
        t.append({'f': 'pp', 'nobj': 2, 'z0': zi, 'pos': list(POS) if T else list(POS[::4])})
    if T:
        # L1: all 2^14 patterns
        for hi in range(64):
            t.append({'f': 'c1', 'n': 14, 'lo': hi << 8, 'hi': (hi + 1) << 8, 'grids': list(GRIDS), 'aes': ['traditional', 'mean'],
                      'fi': [['sine', 'const']], 'scale': False})
        # L3: all 2^12 patterns x all methods
        for hi in range(64):
            t.append({'f': 'c1', 'n': 12, 'lo': hi << 6, 'hi': (hi + 1) << 6, 'grids': list(GRIDS), 'aes': list(AES),
                      'fi': [['const', 'ramp'], ['lin', 'const']], 'scale': False})
        # scaling
        for hi in range(8):
            t.append({'f': 'c1', 'n': 12, 'lo': hi << 9, 'hi': (hi + 1) << 9, 'grids': ['same', 'half', 'wider'], 'aes': ['traditional'],
                      'fi': [['sine', 'ramp']], 'scale': True})
    else:
        for hi in range(16):
            t.append({'f': 'c1', 'n': 10, 'lo': hi << 6, 'hi': (hi + 1) << 6, 'grids': ['same', 'half', 'wider'], 'aes': ['traditional', 'mean'],
                      'fi': [['sine', 'const']], 'scale': False})
        # n = 14, every pattern whose zero-weight pixels lie in the first 8 with pixel 7 among them (contains the smallest
        # patterns that make the band matrix of the spline fit numerically indefinite)
        t.append({'f': 'c1', 'n': 14, 'lo': 128, 'hi': 256, 'grids': ['same', 'half'], 'aes': ['mean'], 'fi': [['sine', 'const']], 'scale': False})
        for g in GRIDS:
            t.append({'f': 'c1w', 'n': 14, 'grids': [g], 'aes': list(AES), 'fi': [['const', 'ramp']], 'scale': False})
        for hi in range(2):
            t.append({'f': 'c1', 'n': 10, 'lo': hi << 9, 'hi': (hi + 1) << 9, 'grids': ['third'], 'aes': ['noconst'],
                      'fi': [['lin', 'ramp']], 'scale': True})
    # 2-D single runs
    for nexp in (2, 3):
        for off in ('zero', 'alt'):
            for e in ((0, 1) if T else (0,)):
                if T:
                    for q in range(4):
                        t.append({'f': 'c2s', 'nexp': nexp, 'off': off, 'e': e, 'starts': list(range(q * 32, q * 32 + 32)),
                                  'lens': [1, 2, 3, 4, 6, 12], 'scale_every': 8})
                elif nexp == 2:
                    t.append({'f': 'c2s', 'nexp': nexp, 'off': off, 'e': e, 'starts': RUN_STARTS, 'lens': [1, 4, 12], 'scale_every': 32})
                else:
                    t.append({'f': 'c2s', 'nexp': nexp, 'off': off, 'e': e, 'starts': RUN_STARTS[::4], 'lens': [3], 'scale_every': 1000})
    # non-uniform input and/or output grids (same end points; same and different pixel count)
    pairs = [[a, b] for a in ('uni', 'dp', 'dm') for b in NUGRIDS if not (a == 'uni' and b == 'uni')]
    if T:
        for hi in range(32):
            t.append({'f': 'nu', 'n': 12, 'lo': hi << 7, 'hi': (hi + 1) << 7, 'pairs': pairs, 'fi': [['sine', 'ramp', 'traditional']]})
        t.append({'f': 'nuw', 'n': 16, 'pairs': pairs, 'fi': [['sine', 'ramp', 'traditional'], ['const', 'const', 'mean']]})
        for gin in (['dp', 'dm'], ['uni', 'dp'], ['dm', 'dm']):
            t.append({'f': 'nu2', 'gin': gin, 'gouts': ['uni', 'dp', 'dm'], 'starts': list(range(0, 128, 8)), 'lens': [3, 12]})
    else:
        for hi in range(4):
            t.append({'f': 'nu', 'n': 10, 'lo': hi << 8, 'hi': (hi + 1) << 8, 'pairs': [['uni', 'dp'], ['dp', 'uni'], ['dm', 'dp'], ['dp', 'dp']],
                      'fi': [['sine', 'ramp', 'traditional']]})
        t.append({'f': 'nuw', 'n': 16, 'pairs': pairs, 'fi': [['sine', 'ramp', 'traditional']]})
        t.append({'f': 'nu2', 'gin': ['dp', 'dm'], 'gouts': ['uni'], 'starts': [0, 40, 64, 116], 'lens': [3, 12]})
    # output grid = input grid displaced by rounding-sized / few-float32-eps amounts (outside the data on one side)
    DEX = [5e-8, -5e-8, 3e-7, -3e-7, 2e-6, -2e-6]
    if T:
        for hi in range(8):
            t.append({'f': 'nudex', 'n': 12, 'lo': hi << 9, 'hi': (hi + 1) << 9, 'gs': ['uni', 'dp'], 'dex': DEX, 'ivars': ['ramp']})
        t.append({'f': 'nudex', 'n': 16, 'lo': 0, 'hi': 1, 'gs': ['uni', 'dp', 'dm'], 'dex': DEX, 'ivars': ['ramp', None]})
    else:
        for hi in range(2):
            t.append({'f': 'nudex', 'n': 8, 'lo': hi << 7, 'hi': (hi + 1) << 7, 'gs': ['uni'], 'dex': DEX, 'ivars': ['ramp']})
        t.append({'f': 'nudex', 'n': 16, 'lo': 0, 'hi': 1, 'gs': ['uni', 'dp'], 'dex': DEX, 'ivars': ['ramp', None]})
    # flux dtype menu (integer-valued counts as float64 / float32 / int16 / int32 / int64)
    if T:
        for hi in range(8):
            t.append({'f': 'dt', 'n': 12, 'zeros': list(range(hi << 9, (hi + 1) << 9)), 'grids': ['half'], 'shapes': ['lin'], 'ivars': ['ramp']})
        t.append({'f': 'dt', 'n': 14, 'zeros': [0, 8, 96, 0x3f00, 16383 ^ 64], 'grids': ['same', 'half', 'third', 'wider', 'coarse'],
                  'shapes': ['lin', 'const'], 'ivars': ['const', 'ramp', None]})
    else:
        t.append({'f': 'dt', 'n': 14, 'zeros': [0, 8, 96, 0x3f00], 'grids': ['same', 'half', 'wider'], 'shapes': ['lin', 'const'],
                  'ivars': ['const', None]})
    # scaling ladder: flux*c, ivar/c^2 for c in LADDER
    if T:
        for hi in range(16):
            t.append({'f': 'sc1', 'n': 10, 'zeros': list(range(hi << 6, (hi + 1) << 6)), 'grids': ['same', 'half', 'wider'],
                      'fi': [['sine', 'ramp', 'traditional']]})
        t.append({'f': 'sc1', 'n': 14, 'zeros': [0, 8, 96, 150, 0x3f00, 16383 ^ 64], 'grids': ['same', 'half', 'wider'],
                  'fi': [['sine', 'ramp', 'traditional'], ['const', 'const', 'mean'], ['lin', 'const', 'noconst']]})
        for nexp in (2, 3):
            t.append({'f': 'sc2', 'nexp': nexp, 'offs': ['zero', 'alt'], 'runs': [[], [[0, 40, 12]], [[1, 0, 3]]], 'grids': ['same', 'wider']})
    else:
        t.append({'f': 'sc1', 'n': 14, 'zeros': [0, 8, 96, 0x3f00, 16383 ^ 64], 'grids': ['same', 'half', 'wider'],
                  'fi': [['sine', 'ramp', 'traditional'], ['const', 'const', 'mean']]})
        t.append({'f': 'sc2', 'nexp': 2, 'offs': ['alt'], 'runs': [[[0, 40, 12]]], 'grids': ['same', 'wider']})
    # 2-D, exposures with different wavelength coverage (each end covered by one exposure only)
    if T:
        for nexp, D in ((2, 24), (2, 40), (2, 100), (3, 40)):
            for frac in (0.0, 0.5):
                for e in range(nexp):
                    t.append({'f': 'c3s', 'nexp': nexp, 'D': D, 'frac': frac, 'e': e, 'starts': list(range(0, 128, 4)), 'lens': [1, 3, 12],
                              'ivars': ['ramp', 'saw'], 'grids': ['exp%d' % q for q in range(nexp)] + ['third', 'wider']})
                t.append({'f': 'c3p', 'nexp': nexp, 'D': D, 'frac': frac, 'starts': [0, 20, 60, 90, 110, 125], 'lens': [1, 3],
                          'ivars': ['const', 'ramp'], 'grids': ['third', 'wider']})
    else:
        for frac in (0.0, 0.5):
            t.append({'f': 'c3s', 'nexp': 2, 'D': 40, 'frac': frac, 'e': 0, 'starts': [0, 20, 64, 100, 120], 'lens': [1, 3],
                      'ivars': ['const', 'ramp'], 'grids': ['exp0', 'exp1', 'third', 'wider']})
            t.append({'f': 'c3s', 'nexp': 2, 'D': 40, 'frac': frac, 'e': 1, 'starts': [0, 20, 64, 100, 120], 'lens': [1, 3],
                      'ivars': ['const', 'ramp'], 'grids': ['exp0', 'exp1', 'third', 'wider']})
        t.append({'f': 'c3s', 'nexp': 2, 'D': 100, 'frac': 0.5, 'e': 1, 'starts': [0, 64, 120], 'lens': [3],
                  'ivars': ['ramp', 'saw'], 'grids': ['exp1', 'wider']})
        t.append({'f': 'c3s', 'nexp': 3, 'D': 40, 'frac': 0.0, 'e': 2, 'starts': [0, 64, 120], 'lens': [3],
                  'ivars': ['ramp'], 'grids': ['exp2', 'third', 'wider']})
    # a single spectrum handed over as a one-row stack (1, npix): the single-spectrum clauses apply to every output pixel
    t.append({'f': 'c3s', 'nexp': 1, 'D': 0, 'frac': 0.0, 'e': 0, 'starts': list(range(0, 128, 4)) if T else [0, 20, 64, 100, 120],
              'lens': [1, 3, 12] if T else [1, 3], 'ivars': ['const', 'ramp', 'saw'], 'grids': ['exp0', 'third', 'wider']})
    # 2-D pairs of runs
    if T:
        for off in ('zero', 'alt'):
            for nexp in (2, 3):
                for s0 in RUN_STARTS:
                    t.append({'f': 'c2p', 'nexp': nexp, 'off': off, 'first': [[0, s0, ln] for ln in RUN_LENS], 'second_e': 1,
                              'starts': RUN_STARTS, 'lens': list(RUN_LENS)})
            for s0 in RUN_STARTS[::2]:
                t.append({'f': 'c2p', 'nexp': 2, 'off': off, 'first': [[0, s, ln] for s in (s0, s0 + 8) for ln in RUN_LENS], 'second_e': 0,
                          'starts': RUN_STARTS, 'lens': list(RUN_LENS)})
    else:
        for off in ('zero', 'alt'):
            t.append({'f': 'c2p', 'nexp': 2, 'off': off, 'first': [[0, 40, 12], [0, 0, 3]], 'second_e': 1,
                      'starts': RUN_STARTS[::2], 'lens': [1, 12]})
            t.append({'f': 'c2p', 'nexp': 2, 'off': off, 'first': [[0, 40, 12]], 'second_e': 0,
                      'starts': RUN_STARTS[::2], 'lens': [12]})
    return t


def _do(acc, case, nontrivial, cache=None):
    bad, label = CHECKS[case['f']](case) if cache is None else CHECKS[case['f']](case, cache)
    if label.startswith('skip:'):
        acc.skip(label[5:])
        return
    key = tuple(sorted((k, repr(v)) for k, v in case.items()))
    acc.case(key, nontrivial, ('ok:' + case['f'] + ':' + label) if not bad else 'bad:' + bad[0][0], sample=case)
    for sig, msg in bad:
        acc.violation(sig, case, msg)


def _nt1(n, zeros, grid):
    return zeros != (1 << n) - 1 and grid != 'disjoint'


def run_task(task):
    acc = Acc()
    f = task['f']
    if f == 'noivar':
        for n in (10, 14):
            for g in GRIDS:
                for fl in ('const', 'lin', 'sine'):
                    for aes in AES:
                        _do(acc, {'f': 'c1', 'n': n, 'zeros': 0, 'grid': g, 'flux': fl, 'ivar': None, 'aes': aes, 'scale': False},
                            g != 'disjoint')
    elif f == 'c1':
        n = task['n']
        for zeros in sorted(range(task['lo'], task['hi']), key=lambda v: (bin(v).count('1'), v)):
            for g in task['grids']:
                for aes in task['aes']:
                    for fl, ivn in task['fi']:
                        _do(acc, {'f': 'c1', 'n': n, 'zeros': zeros, 'grid': g, 'flux': fl, 'ivar': ivn, 'aes': aes,
                                  'scale': bool(task['scale'])}, _nt1(n, zeros, g))
    elif f == 'c1w':
        # all patterns with at most 2 zero-weight pixels or at most 2 good pixels
        n = task['n']
        full = (1 << n) - 1
        pats = []
        for w in (0, 1, 2):
            for c in itertools.combinations(range(n), w):
                b = sum(1 << i for i in c)
                pats.append(b)
                pats.append(full ^ b)
        for zeros in pats:
            for g in task['grids']:
                for aes in task['aes']:
                    for fl, ivn in task['fi']:
                        _do(acc, {'f': 'c1', 'n': n, 'zeros': zeros, 'grid': g, 'flux': fl, 'ivar': ivn, 'aes': aes, 'scale': False},
                            _nt1(n, zeros, g))
    elif f == 'c2s':
        cnt = 0
        for s in task['starts']:
            for ln in task['lens']:
                if s + ln > NPIX2:
                    continue
                for fl, g, aes in (('sine', 'wider', 'traditional'), ('const', 'same', 'mean')):
                    sc = (cnt % task['scale_every'] == 0)
                    cnt += 1
                    _do(acc, {'f': 'c2', 'nexp': task['nexp'], 'off': task['off'], 'runs': [[task['e'], s, ln]], 'flux': fl, 'grid': g,
                              'aes': aes, 'scale': sc}, True)
    elif f == 'c2p':
        for first in task['first']:
            for s in task['starts']:
                for ln in task['lens']:
                    second = [task['second_e'], s, ln]
                    if task['second_e'] == first[0]:
                        # same exposure: unordered, non-overlapping pairs only
                        if s < first[1] + first[2]:
                            continue
                    _do(acc, {'f': 'c2', 'nexp': task['nexp'], 'off': task['off'], 'runs': [first, second], 'flux': 'sine', 'grid': 'same',
                              'aes': 'traditional', 'scale': False}, True)
    elif f == 'nu':
        n = task['n']
        for zeros in sorted(range(task['lo'], task['hi']), key=lambda v: (bin(v).count('1'), v)):
            for gin, gout in task['pairs']:
                for fl, ivn, aes in task['fi']:
                    _do(acc, {'f': 'nu', 'n': n, 'zeros': zeros, 'gin': gin, 'gout': gout, 'flux': fl, 'ivar': ivn, 'aes': aes},
                        zeros != (1 << n) - 1)
    elif f == 'nudex':
        n = task['n']
        for zeros in sorted(range(task['lo'], task['hi']), key=lambda v: (bin(v).count('1'), v)):
            for g in task['gs']:
                for dex in task['dex']:
                    for ivn in task['ivars']:
                        if ivn is None and zeros:
                            continue
                        _do(acc, {'f': 'nu', 'n': n, 'zeros': zeros, 'gin': g, 'gout': g, 'dex': dex, 'flux': 'sine', 'ivar': ivn,
                                  'aes': 'traditional'}, zeros != (1 << n) - 1)
    elif f == 'dt':
        for zeros in task['zeros']:
            for g in task['grids']:
                for sh in task['shapes']:
                    for ivn in task['ivars']:
                        if ivn is None and zeros:
                            continue
                        for dt in FLUX_DTYPES:
                            _do(acc, {'f': 'dt', 'n': task['n'], 'zeros': zeros, 'grid': g, 'shape': sh, 'ivar': ivn, 'dtype': dt},
                                _nt1(task['n'], zeros, g))
    elif f == 'nuw':
        # n = 16: every pattern with at most 2 zero-weight pixels (long enough for the clean-interior guard)
        n = task['n']
        pats = [sum(1 << i for i in c) for w in (0, 1, 2) for c in itertools.combinations(range(n), w)]
        for zeros in pats:
            for gin, gout in task['pairs']:
                for fl, ivn, aes in task['fi']:
                    _do(acc, {'f': 'nu', 'n': n, 'zeros': zeros, 'gin': gin, 'gout': gout, 'flux': fl, 'ivar': ivn, 'aes': aes}, True)
    elif f == 'nu2':
        for gout in task['gouts']:
            for runs in [[]] + [[[e, s0, ln]] for e in (0, 1) for s0 in task['starts'] for ln in task['lens'] if s0 + ln <= NPIX2]:
                _do(acc, {'f': 'nu2', 'gin': task['gin'], 'gout': gout, 'runs': runs, 'flux': 'sine', 'aes': 'traditional'}, True)
    elif f == 'sc1':
        cache = {}
        for zeros in task['zeros']:
            for g in task['grids']:
                for fl, ivn, aes in task['fi']:
                    for c in LADDER:
                        case = {'f': 'sc', 'kind': '1d', 'n': task['n'], 'zeros': zeros, 'grid': g, 'flux': fl, 'ivar': ivn, 'aes': aes, 'c': c}
                        _do(acc, case, _nt1(task['n'], zeros, g), cache)
    elif f == 'sc2':
        cache = {}
        for off in task['offs']:
            for runs in task['runs']:
                for g in task['grids']:
                    for c in LADDER:
                        case = {'f': 'sc', 'kind': '2d', 'nexp': task['nexp'], 'off': off, 'runs': runs, 'grid': g, 'flux': 'sine',
                                'ivar': 'ramp', 'aes': 'traditional', 'c': c}
                        _do(acc, case, True, cache)
    elif f == 'c3s':
        runs_menu = [[]] if task['e'] == 0 else []          # the run-free stack once per configuration
        runs_menu += [[[task['e'], s0, ln]] for s0 in task['starts'] for ln in task['lens'] if s0 + ln <= NPIX2]
        for runs in runs_menu:
            for ivn in task['ivars']:
                for g in task['grids']:
                    _do(acc, {'f': 'c3', 'nexp': task['nexp'], 'D': task['D'], 'frac': task['frac'], 'runs': runs, 'ivar': ivn,
                              'flux': 'sine', 'grid': g, 'aes': 'traditional'}, True)
    elif f == 'c3p':
        menu = [[s0, ln] for s0 in task['starts'] for ln in task['lens'] if s0 + ln <= NPIX2]
        for a in menu:
            for b in menu:
                for ivn in task['ivars']:
                    for g in task['grids']:
                        _do(acc, {'f': 'c3', 'nexp': task['nexp'], 'D': task['D'], 'frac': task['frac'],
                                  'runs': [[0, a[0], a[1]], [task['nexp'] - 1, b[0], b[1]]], 'ivar': ivn, 'flux': 'const', 'grid': g,
                                  'aes': 'mean'}, True)
    elif f == 'pp':
        if task['nobj'] == 1:
            for z in Z:
                for p in POS:
                    for ll2d in (False, True):
                        for newll in (False, True):
                            for aes in (None, 'traditional'):
                                _do(acc, {'f': 'pp', 'nobj': 1, 'z': [z], 'pos': p, 'll2d': ll2d, 'newll': newll, 'aes': aes}, True)
        else:
            for z1 in Z:
                for p in task['pos']:
                    for ll2d in (False, True):
                        for newll in (False, True):
                            _do(acc, {'f': 'pp', 'nobj': 2, 'z': [Z[task['z0']], z1], 'pos': p, 'll2d': ll2d, 'newll': newll, 'aes': None}, True)
    return acc
