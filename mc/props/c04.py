"""C04 -- spherematch returns exactly the pairs closer than the match length (DESIGN.md section 3, C04).

Layer A: every ordered list1 in S^2 u S^3 and list2 in S^1 u S^2 over a per-scene site alphabet S (one call each).
Layer B: dense probe/target lattices aimed at every cell corner and bounding-box corner of a frame (one call decides
         27 x 49 pairs), the cell layout being re-derived in _sphere.chunk_geometry only to *aim* the points.
Layer C: maxmatch in {1,2,3} on every ordered list1 in S^2 u S^3, list2 in S^1 u S^2 u S^3 over a small cluster.
Layer M: match lengths 1 mas, 10 mas, 0.1 arcsec (1 arcsec in thorough): ordered lists (exact duplicates included) over
         compact sites with separations 0, 0.5, 0.8, 1.3, 2.5 x s at five declinations, both poles and across RA 0/360.
Oracle: brute-force separations from _sphere.sep_deg (unit-vector atan2 form), never gcirc / spherematch itself.
"""
import itertools
import math
import re

import numpy as np

from mc.core import Acc
from mc.props import _sphere as S

PROP = 'C04'
LEVEL = 'exploration'
ENGINE = 'E1'
TECHNIQUE = ('model checking: bounded-exhaustive small-scope enumeration of point lists, match lengths, chunk sizes and '
             'maxmatch on the real spherematch against a brute-force all-pairs reference model')
LEVEL_TEXT = ('every ordered pair of short point lists over per-scene site alphabets (equator, RA seam, both poles, mid '
              'latitudes, all sky), plus dense probe lattices on every cell corner of the spatial hash, is executed on the '
              'real code for each match length and chunk size of the menu and compared pair by pair with brute force')
LEVEL_NOTE = ('holds for the enumerated scenes, scales 1 mas..40 deg, chunk factors and list lengths <= 3+3 (29+49 in '
              'the dense layer); pairs within 1e-9 relative of the match length are do-not-care; configurations over the '
              'cell-count guard are skipped and counted. Trusted: the separation formula in mc/props/_sphere.py, numpy.')
RULE = ('Layer A: per (scene, match length s, chunk size) all (n^2+n^3)x(n+n^2) (n=7 sites thorough: 392x56; n=6 quick: 252x42) ordered '
        'lists with repetition, list1 of 2-3 and list2 of 1-2 sites placed at multiples of 0.37 s. Layer B: per frame and '
        'cell corner one call with 2 frame points + 5x5 probes vs 7x7 targets. Layer C: maxmatch 1..3 over all ordered '
        'lists (list1 2-3, list2 1-3 sites) of a cluster. Layer M: s in {1 mas, 10 mas, 0.1 arcsec, 1 arcsec} x 7 compact scenes: '
        'ordered lists with repetition over sites whose separations are 0/0.5/0.8/1.3/2.5 x s. A case is non-trivial when brute force finds at least one pair '
        'closer than the match length; distinct = distinct (coordinates, s, chunk size, maxmatch) tuples.')
ASSUMPTIONS = ['separations within 1e-9*s + 1e-12 deg of the match length s are do-not-care (neither required nor forbidden)',
               'reported distances are compared with the reference to 1e-9 relative + 1e-12 deg',
               'a chunk size the code refuses with a PydlutilsException about chunk/margin size is not admissible (only '
               'accepted as a refusal when chunksize < 4*matchlength); every accepted chunk size must give the exact answer',
               'configurations whose predicted cell count exceeds the guard are skipped and listed under skipped',
               'for maxmatch>0 the order of the returned pairs is not checked (the statement orders only the full list)']
MIN_OUTCOMES = 3

GUARD_A = 6000       # cells per call in layers A/C (tens of thousands of calls per shard)
GUARD_B = 200000     # cells per call in layer B (DESIGN: sum nRa <= 2e5)
DIST_REL = 1e-9
DIST_ABS = 1e-12

_REFUSAL = re.compile(r'marginsize|minsize|chunk ?size', re.I)


# ------------------------------------------------------------------ one call + oracle
def check_arrays(ra1, dec1, ra2, dec2, s, chunk, k, sep=None):
    """Run spherematch once and compare with brute force.  Returns (bad, info); bad = [(sig, msg)]."""
    from pydl.pydlutils.spheregroup import spherematch
    from pydl.pydlutils import PydlutilsException
    info = {'refused': False}
    if sep is None:
        sep = S.sep_matrix(ra1, dec1, ra2, dec2)
    b = S.band(s)
    must = sep < s - b
    may = sep < s + b
    info['ntrue'] = int(must.sum())
    info['nband'] = int(may.sum()) - info['ntrue']
    try:
        res = spherematch(ra1, dec1, ra2, dec2, s, chunksize=chunk, maxmatch=k)
    except PydlutilsException as e:
        msg = str(e)
        if chunk is not None and chunk < 4.0 * s and _REFUSAL.search(msg) and 'cosDecMin' not in msg:
            info['refused'] = True
            info['outcome'] = 'ok:refused-chunksize'
            return [], info
        if 'cosDecMin' in msg:
            # the code may or may not clamp the chunk size to 4 s: the predicate holds if either layout shows it
            above = any(S.chunk_geometry(ra1, dec1, S.effective_chunk(s, chunk, c4), max_cells=0).get('top_above_90')
                        for c4 in (False, True))
            trig = ':top-decBound-above-90' if above else ''
            return [('spherematch:exception:cosDecMin' + trig, msg)], info
        return [('spherematch:exception:PydlutilsException', msg)], info
    except Exception as e:     # noqa
        return [('spherematch:exception:' + type(e).__name__, repr(e))], info
    bad = []
    try:
        m1, m2, d = res
        m1 = np.asarray(m1)
        m2 = np.asarray(m2)
        d = np.asarray(d, dtype=float)
        n = len(m1)
        ok = (len(m2) == n and len(d) == n and (n == 0 or (m1.dtype.kind in 'iu' and m2.dtype.kind in 'iu')))
        if ok and n:
            ok = bool(m1.min() >= 0 and m2.min() >= 0 and m1.max() < len(ra1) and m2.max() < len(ra2))
    except Exception as e:     # noqa
        ok = False
    if not ok:
        return [('spherematch:malformed-result', repr(res)[:300])], info
    info['nret'] = n
    pairs = list(zip(m1.tolist(), m2.tolist()))
    pset = set(pairs)
    if len(pset) != n:
        dup = [p for p in pset if pairs.count(p) > 1][:3]
        bad.append(('spherematch:duplicate-pair', 'pairs returned more than once: %s' % dup))
    if n:
        true_d = sep[m1, m2]
        extra = ~may[m1, m2]
        if extra.any():
            i = int(np.nonzero(extra)[0][0])
            bad.append(('spherematch:extra-pair' + ('' if k == 0 else ':maxmatch'),
                        'pair %s returned, true separation %.12g >= match length %.12g' % (pairs[i], true_d[i], s)))
        wrong = np.abs(d - true_d) > DIST_REL * true_d + DIST_ABS
        if wrong.any():
            i = int(np.nonzero(wrong)[0][0])
            bad.append(('spherematch:distance', 'pair %s reported %.15g, true %.15g' % (pairs[i], d[i], true_d[i])))
    if k == 0:
        if n > 1 and bool(np.any(d[1:] < d[:-1])):
            bad.append(('spherematch:order', 'distances not non-decreasing: %s' % d.tolist()[:12]))
        miss = must.copy()
        if n:
            miss[m1, m2] = False
        if miss.any():
            idx = np.argwhere(miss)
            seen = {}
            for i, j in idx[:400]:
                i, j = int(i), int(j)
                cc = S.chunk_class(s, chunk)
                trig = S.lost_pair_trigger(ra1, dec1, i, ra2[j], dec2[j], s, S.effective_chunk(s, chunk, False), cc, GUARD_B)
                if trig == cc and chunk is not None and chunk < 4.0 * s:     # layout if the code clamps to 4 s
                    trig = S.lost_pair_trigger(ra1, dec1, i, ra2[j], dec2[j], s, 4.0 * s, cc, GUARD_B)
                if trig not in seen:
                    seen[trig] = (i, j)
            info['first_missing'] = {}
            for trig, (i, j) in seen.items():       # one report per distinct trigger, never lumped
                sig = 'spherematch:missing-pair:' + trig
                bad.append((sig, '%d of %d true pair(s) missing, e.g. (%d,%d) sep %.12g < %.12g'
                            % (len(idx), info['ntrue'], i, j, sep[i, j], s)))
                info['first_missing'][sig] = (i, j)
    else:
        c1 = np.bincount(m1, minlength=len(ra1)) if n else np.zeros(len(ra1), int)
        c2 = np.bincount(m2, minlength=len(ra2)) if n else np.zeros(len(ra2), int)
        if (c1 > k).any() or (c2 > k).any():
            bad.append(('spherematch:maxmatch:point-used-more-than-k',
                        'use counts list1 %s list2 %s, maxmatch %d' % (c1.tolist(), c2.tolist(), k)))
        # declarative greedy condition: an omitted true pair needs an endpoint saturated by no-farther returned pairs
        td = sep[m1, m2] if n else np.zeros(0)
        for i, j in np.argwhere(must):
            i, j = int(i), int(j)
            if (i, j) in pset:
                continue
            lim = sep[i, j] * (1.0 + DIST_REL) + DIST_ABS
            u1 = int(np.sum((m1 == i) & (td <= lim))) if n else 0
            u2 = int(np.sum((m2 == j) & (td <= lim))) if n else 0
            if u1 < k and u2 < k:
                bad.append(('spherematch:maxmatch:unjustified-omission',
                            'true pair (%d,%d) sep %.12g omitted although its points are used only %d and %d times '
                            'by no-farther pairs (maxmatch %d)' % (i, j, sep[i, j], u1, u2, k)))
                break
        info['dropped'] = info['ntrue'] - sum(1 for p in pset if must[p])
    if bad:
        info['outcome'] = 'bad:' + bad[0][0]
    elif k == 0:
        info['outcome'] = 'ok:%s-pairs' % (n if n < 4 else '4+')
    else:
        info['outcome'] = 'ok:maxmatch%d:kept%s-dropped%s' % (k, min(n, 3), min(info['dropped'], 2))
    return bad, info


def make_case(ra1, dec1, ra2, dec2, s, chunk, k):
    return {'ra1': [float(x) for x in ra1], 'dec1': [float(x) for x in dec1],
            'ra2': [float(x) for x in ra2], 'dec2': [float(x) for x in dec2],
            's': float(s), 'chunk': None if chunk is None else float(chunk), 'maxmatch': int(k)}


def check_case(case):
    bad, _ = check_arrays(np.array(case['ra1'], dtype=float), np.array(case['dec1'], dtype=float),
                          np.array(case['ra2'], dtype=float), np.array(case['dec2'], dtype=float),
                          case['s'], case['chunk'], case['maxmatch'])
    return bad


def replay(case):
    return check_case(case)


# ------------------------------------------------------------------ menus
Q_SCALES = {'equator': [1.0 / 3600.0, 1.0, 20.0], 'seam': [1.0 / 3600.0, 0.1, 5.0], 'npole': [0.01, 5.0],
            'spole': [1.0 / 3600.0, 1.0, 40.0], 'mid60': [0.1, 20.0], 'mid-75': [1.0, 5.0], 'allsky': [5.0, 20.0]}
Q_CF = [None, 1.5, 4.0]
T_CF = [None, 1.01, 1.5, 2.0, 2.5, 4.0, 10.0]
B_SCENES = S.SCENES + ['seam80']


def _chunk(s, cf):
    return None if cf is None else cf * s


def tasks(tier):
    T = tier == 'thorough'
    t = [{'layer': 'A', 'scene': 'equator', 's': 1.0, 'cf': None, 'n': 4}]       # small determinism shard
    # inadmissible chunk sizes: the code must refuse or answer correctly
    for cf in (0.5, 1.0):
        t.append({'layer': 'A', 'scene': 'equator', 's': 1.0, 'cf': cf, 'n': 4})
        t.append({'layer': 'A', 'scene': 'npole', 's': 5.0, 'cf': cf, 'n': 4})
    nA = 7 if T else 6
    for scene in S.SCENES:
        for s in (S.SCALES if T else Q_SCALES[scene]):
            if S.scene_sites(scene, s, nA) is None:
                continue
            for cf in (T_CF if T else Q_CF):
                t.append({'layer': 'A', 'scene': scene, 's': s, 'cf': cf, 'n': nA})
    for scene in B_SCENES:
        for s in S.SCALES:
            for cf in (T_CF if T else [None, 1.01, 1.5, 2.0, 4.0]):
                t.append({'layer': 'B', 'scene': scene, 's': s, 'cf': cf, 'dense': bool(T)})
    for scene in S.MICRO_SCENES:
        for s in (S.MICRO_LENGTHS if T else S.MICRO_LENGTHS[:3]):
            for cf in ([None, 4.0, 10.0] if T else [None, 4.0]):
                t.append({'layer': 'M', 'scene': scene, 's': s, 'cf': cf, 'n': 6 if T else 5,
                          'lens1': [2, 3] if T else [2], 'lens2': [1, 2]})
    nC = 5 if T else 4
    for scene in S.SCENES:
        scs = [x for x in S.SCALES if S.scene_sites(scene, x, 8) is not None]
        for s in ([scs[1], scs[-1]] if T else [scs[len(scs) // 2]]):
            for cf in ([None, 4.0] if T else [None]):
                for k in (1, 2, 3):
                    t.append({'layer': 'C', 'scene': scene, 's': s, 'cf': cf, 'n': nC, 'k': k})
    return t


# ------------------------------------------------------------------ layers A and C
def _lists(n, lens):
    for ln in lens:
        for tup in itertools.product(range(n), repeat=ln):
            yield tup


def _run_lists(acc, task, k, lens1, lens2):
    scene, s, cf, n = task['scene'], task['s'], task['cf'], task['n']
    chunk = _chunk(s, cf)
    sites = S.scene_sites(scene, s, 8)
    if task['layer'] == 'C':
        sites = [sites[i] for i in (0, 1, 2, 3, 5)][:n]     # a tight cluster (no far site)
    else:
        sites = sites[:n]
    ra = np.array([p[0] for p in sites], dtype=float)
    dec = np.array([p[1] for p in sites], dtype=float)
    ncases = sum(n ** a for a in lens1) * sum(n ** a for a in lens2)
    m = S.effective_chunk(s, chunk, False)
    if chunk is None or chunk > s:
        cells = S.cell_count(ra, dec, m)
        if cells > GUARD_A:
            acc.skip('resource-guard: %s s=%g chunk=%g -> %d cells per call' % (scene, s, m, cells), ncases)
            return
    full = S.sep_matrix(ra, dec, ra, dec)
    cfg = (task['layer'], scene, s, cf, k)
    for l1 in _lists(n, lens1):
        i1 = np.array(l1)
        r1, d1 = ra[i1], dec[i1]
        for l2 in _lists(n, lens2):
            i2 = np.array(l2)
            r2, d2 = ra[i2], dec[i2]
            sep = full[np.ix_(i1, i2)]
            bad, info = check_arrays(r1, d1, r2, d2, s, chunk, k, sep=sep)
            acc.case((cfg, l1, l2), info['ntrue'] > 0, info.get('outcome', 'bad:' + bad[0][0] if bad else '?'),
                     sample=None)
            if info['nband']:
                acc.extra['dont_care_pairs_in_band'] += info['nband']
            if np.any((np.abs(r1[:, None] - r2[None, :]) > 180.0) & (sep < s)):
                acc.extra['calls_with_true_pair_across_RA_seam'] += 1
            for sig, msg in bad:
                acc.violation(sig, make_case(r1, d1, r2, d2, s, chunk, k), msg)
    acc.sample(make_case(ra[[0, 1]], dec[[0, 1]], ra[[1]], dec[[1]], s, chunk, k))


# ------------------------------------------------------------------ layer B
def frames(scene, s, m):
    """Two list-1 points (lower-left, upper-right in the unrotated RA frame) that fix the cell layout."""
    def box(ra0, dec0, hy_cap):
        hy = min(1.3 * m, hy_cap)
        c = math.cos(math.radians(abs(dec0) + hy))
        hx = min(hy / c, 80.0)
        return ((ra0 - hx) % 360.0, dec0 - hy, (ra0 + hx) % 360.0, dec0 + hy)
    if scene == 'equator':
        return box(150.0, 1.0, 40.0)
    if scene == 'seam':
        return box(0.0, 5.0, 40.0)
    if scene == 'mid60':
        return box(200.0, 60.0, 25.0)
    if scene == 'mid-75':
        return box(40.0, -75.0, 12.0)
    if scene == 'seam80':
        return box(0.0, 80.0, 8.0)
    if scene in ('npole', 'spole'):
        sg = 1.0 if scene == 'npole' else -1.0
        lo = 90.0 - min(2.7 * m, 60.0)
        hi = 90.0 - min(0.45 * s, 5.0)
        a, b = (10.0, sg * lo), (200.0, sg * hi)
        if sg < 0:
            a, b = (a[0], b[1]), (b[0], a[1])
        return (a[0], a[1], b[0], b[1])
    if scene == 'allsky':
        if s < 5.0:
            return None
        return (5.0, -85.0, 355.0, 85.0)
    raise ValueError(scene)


def corners(fr, g, s, cap):
    """Bounding-box corners of the frame plus every cell corner of the layout inside the box (raw RA, Dec)."""
    ra_a, dec_a, ra_b, dec_b = fr
    out = [(ra_a, dec_a), (ra_b, dec_b), (ra_a, dec_b), (ra_b, dec_a)]
    if 'error' in g or not g.get('raBounds') or len(g['raBounds']) != g['nDec']:
        return out
    off = g['raOffset']
    lo, hi = min(dec_a, dec_b), max(dec_a, dec_b)
    inner = []
    for kk in range(1, g['nDec']):
        db = float(g['decBounds'][kk])
        if not (lo - s <= db <= hi + s) or abs(db) >= 89.999999:
            continue
        for sl in (kk - 1, kk):
            rb = g['raBounds'][sl]
            for x in rb:
                x = float(x)
                if g['raMin'] - 1e-9 <= x <= g['raMax'] + 1e-9 or g['embrace'][sl] and (x == 0.0 or x == 360.0):
                    inner.append(((x - off) % 360.0, db))
    seen = set()
    uniq = []
    for c in inner:
        key = (round(c[0], 9), round(c[1], 9))
        if key not in seen:
            seen.add(key)
            uniq.append(c)
    if len(uniq) > cap:
        step = -(-len(uniq) // cap)
        uniq = uniq[::step]
    return out + uniq


def lattice(rc, dc, offs_ra, offs_dec):
    c = max(math.cos(math.radians(dc)), 1e-12)
    pts = []
    for j in offs_dec:
        d = dc + j
        if abs(d) >= 89.9999999:
            continue
        for i in offs_ra:
            x = i / c
            if abs(x) > 170.0:
                x = math.copysign(170.0, x) * min(1.0, abs(i) / (abs(offs_ra[0]) or 1.0))
            pts.append(((rc + x) % 360.0, d))
    return pts


def _cell_of(g, ra, dec):
    cur = math.fmod(ra + g['raOffset'], 360.0)
    db = g['decBounds']
    i = int(math.floor((dec - db[0]) * g['nDec'] / (db[-1] - db[0])))
    if i < 0 or i >= g['nDec']:
        return None
    rb = g['raBounds'][i]
    j = int(math.floor((cur - rb[0]) * g['nRa'][i] / (rb[-1] - rb[0])))
    return (i, j)


def _run_B(acc, task):
    scene, s, cf = task['scene'], task['s'], task['cf']
    chunk = _chunk(s, cf)
    m = S.effective_chunk(s, chunk, False)
    fr = frames(scene, s, m)
    if fr is None:
        acc.skip('not-applicable: all-sky frame with s=%g (cell count guard by construction)' % s)
        return
    fra = np.array([fr[0], fr[2]])
    fdec = np.array([fr[1], fr[3]])
    cells = S.cell_count(fra, fdec, m)
    if cells > GUARD_B:
        acc.skip('resource-guard: frame %s s=%g chunk=%g -> %d cells' % (scene, s, m, cells))
        return
    g = S.chunk_geometry(fra, fdec, m)
    eps = 1e-9 * max(s, 1e-3)
    p_offs = [-0.45 * s, -eps, 0.0, eps, 0.45 * s]
    t_offs = [i * S.U * s for i in range(-3, 4)]
    cfg = ('B', scene, s, cf)
    for ci, (rc, dc) in enumerate(corners(fr, g, s, 80 if task.get('dense') else 24)):
        probes = lattice(rc, dc, p_offs, p_offs)
        targets = lattice(rc, dc, t_offs, t_offs)
        if not probes or not targets:
            acc.skip('empty lattice at the pole')
            continue
        ra1 = np.concatenate([fra, [p[0] for p in probes]])
        dec1 = np.concatenate([fdec, [p[1] for p in probes]])
        ra2 = np.array([p[0] for p in targets])
        dec2 = np.array([p[1] for p in targets])
        sep = S.sep_matrix(ra1, dec1, ra2, dec2)
        bad, info = check_arrays(ra1, dec1, ra2, dec2, s, chunk, 0, sep=sep)
        acc.case((cfg, ci), info['ntrue'] > 0,
                 info.get('outcome', 'bad:' + bad[0][0] if bad else '?').replace('ok:4+-pairs', 'ok:dense-call'))
        acc.extra['layerB_pairs_decided'] += int(sep.size)
        acc.extra['layerB_true_pairs'] += info['ntrue']
        acc.extra['dont_care_pairs_in_band'] += info['nband']
        if 'error' not in g and len(g['raBounds']) == g['nDec'] and not info['refused']:
            n_edge = 0
            c2 = [_cell_of(g, ra2[j], dec2[j]) for j in range(len(ra2))]
            for i in range(len(ra1)):
                c1 = _cell_of(g, ra1[i], dec1[i])
                for j in np.nonzero(sep[i] < s)[0]:
                    if c2[j] != c1:
                        n_edge += 1
            acc.extra['layerB_true_pairs_across_cell_edge'] += n_edge
        for sig, msg in bad:
            case = make_case(ra1, dec1, ra2, dec2, s, chunk, 0)
            if sig in info.get('first_missing', {}):
                i, j = info['first_missing'][sig]
                keep = sorted(set([0, 1, i]))
                small = make_case(ra1[keep], dec1[keep], ra2[[j]], dec2[[j]], s, chunk, 0)
                if any(sg == sig for sg, _ in check_case(small)):
                    case = small
            elif sig.startswith('spherematch:exception'):
                small = make_case(ra1[:2], dec1[:2], ra2[:1], dec2[:1], s, chunk, 0)
                if any(sg == sig for sg, _ in check_case(small)):
                    case = small
            acc.violation(sig, case, msg)
    acc.sample({'frame': list(fr), 's': s, 'chunk': chunk, 'corners': 'bbox + cell corners', 'probes': '5x5', 'targets': '7x7'})


# ------------------------------------------------------------------ layer M: milli-arcsecond match lengths
def _run_M(acc, task):
    """Ordered lists (with repetition: exact duplicates) over a compact site set whose separations are 0, 0.5, 0.8,
    1.3, 2.5 ... times a match length of 1 mas .. 1 arcsec."""
    scene, s, cf, n = task['scene'], task['s'], task['cf'], task['n']
    chunk = _chunk(s, cf)
    sites = S.micro_sites(scene, s, n)
    ra = np.array([p[0] for p in sites], dtype=float)
    dec = np.array([p[1] for p in sites], dtype=float)
    lens1, lens2 = task['lens1'], task['lens2']
    cells = S.cell_count(ra, dec, S.effective_chunk(s, chunk, True))
    if cells > GUARD_A:
        acc.skip('resource-guard: micro %s s=%g chunk=%s -> %d cells per call' % (scene, s, chunk, cells),
                 sum(n ** a for a in lens1) * sum(n ** a for a in lens2))
        return
    full = S.sep_matrix(ra, dec, ra, dec)
    cfg = ('M', scene, s, cf)
    for l1 in _lists(n, lens1):
        i1 = np.array(l1)
        for l2 in _lists(n, lens2):
            i2 = np.array(l2)
            bad, info = check_arrays(ra[i1], dec[i1], ra[i2], dec[i2], s, chunk, 0, sep=full[np.ix_(i1, i2)])
            acc.case((cfg, l1, l2), info['ntrue'] > 0, info.get('outcome', 'bad:' + bad[0][0] if bad else '?'))
            if info['nband']:
                acc.extra['dont_care_pairs_in_band'] += info['nband']
            for sig, msg in bad:
                acc.violation(sig, make_case(ra[i1], dec[i1], ra[i2], dec[i2], s, chunk, 0), msg)
    acc.sample(make_case(ra[[0, 1]], dec[[0, 1]], ra[[0]], dec[[0]], s, chunk, 0))


def run_task(task):
    acc = Acc()
    if task['layer'] == 'A':
        _run_lists(acc, task, 0, (2, 3), (1, 2))
    elif task['layer'] == 'C':
        _run_lists(acc, task, task['k'], (2, 3), (1, 2, 3))
    elif task['layer'] == 'M':
        _run_M(acc, task)
    else:
        _run_B(acc, task)
    return acc
