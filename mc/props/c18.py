"""C18 -- gcirc, the SDSS (mu, nu) great-circle frame, and angles <-> unit vectors.

Bounded-exhaustive enumeration on a sphere lattice (DESIGN.md section 3, C18).  Layers:

  angles  angles_to_x / x_to_angles: every lattice direction (incl. both poles, RA outside [0, 360), directions
          10^k micro-arcsec from a pole) in both angle conventions, both compositions
  gcirc   every base point of an RA/Dec grid (both poles, RA = 0 seam) x every nominal separation
          {0, 10^k micro-arcsec, 180 deg - 10^k micro-arcsec, 180 deg} x 8 position angles x 3 unit conventions, both argument orders,
          array form (all) and scalar form (one position angle)
  munu    every stripe 0..89 x the grid x partner points at decade separations: ICRS -> SDSSMuNu -> ICRS
          through the astropy frame graph and through the two functions called directly; round trip, isometry,
          handedness, nu = 0 circle (both directions), no NaN; scalar frames at the poles

Oracle: unit vectors and atan2(|a x b|, a.b) in 80-bit np.longdouble computed from the float64 numbers actually
passed / returned.  Tolerances: relative 1e-6 as stated plus a floor forced by float64 angles
(ulp(360 deg) = 2e-10 arcsec) and, where a latitude is recovered from a sine or cosine, the conditioning of that
inverse (error eps * tan(lat), at most sqrt(2 eps) = 0.004 arcsec at the pole).
"""
import itertools
import math

import numpy as np

from mc.core import Acc

PROP = 'C18'
LEVEL = 'exploration'
ENGINE = 'E1'
TECHNIQUE = 'model checking: bounded-exhaustive enumeration of a sphere lattice x 12 decades of separation x position angles x unit conventions, and of all stripes 0..89, against 80-bit unit-vector geometry'
LEVEL_TEXT = 'every lattice pair (grid incl. poles and seam, separations 1 micro-arcsec to 180 deg, 8 position angles, 3 unit conventions, both orders) and every stripe 0..89 on the whole lattice were executed on the real code and compared with an independent longdouble vector computation'
LEVEL_NOTE = 'decides the property on the lattice only, to the stated 1e-6 relative tolerance plus a float64 floor (1e-9 arcsec; conditioning term near latitude +-90 deg); the inclination of a stripe is taken from stripe_to_incl as the property words it; trusted: numpy longdouble trigonometry, astropy frame machinery'
RULE = ('gcirc: one case = one ordered pair (base grid point, nominal separation, position angle) in one unit convention and one '
        'calling form; non-trivial when the two points differ. munu: one case = one (stripe, route, clause, lattice point or pair); '
        'non-trivial when the stripe inclination is not 0 (mod 180) so that the rotation is exercised. angles: one case = one direction '
        'in one angle convention and one composition order; non-trivial away from phi = 0. history: one case = one sequence of 2-3 '
        'consecutive calls on identical data with changing latitude / units keyword (same array object, equal copies, scalars); '
        'non-trivial when the keyword changes. Distinct = distinct lattice indices / (array, sequence, mode).')
ASSUMPTIONS = [
    'gcirc agrees with the vector formula to 1e-6 * d plus an allowance of a few ulps of the coordinates passed (see below); coordinates '
    'in degrees are quantised at ulp(360) = 2e-10 arcsec, so a purely relative bound cannot be met at large RA by any float64 implementation',
    'positions recovered through arcsin/arccos carry the conditioning error min(sqrt(16 eps), 8 eps tan|lat|) (<= 0.012 arcsec, only '
    'within ~1 arcsec of latitude +-90 deg); round trips and preserved separations are compared with that allowance',
    'symmetry of gcirc is demanded to the same tolerance as the value; zero for identical points is demanded exactly',
    'the great circle of a stripe is the circle through (RA 95, Dec 0) that reaches Dec = incl at RA 95 + 90 deg, with '
    'incl = stripe_to_incl(stripe) evaluated by the function the property names',
    'array arguments (and the coordinate arrays of frames) must be bit-identical after every call and a second call on the '
    'same array must return bit-identical results (otherwise x_to_angles(angles_to_x(a)) == a fails for the caller\'s own a)',
    'call histories: every call in a sequence of calls on identical data with a different latitude/units keyword must be right for '
    'its own keyword; sequences of length 2 and 3, preceded by a fixed separator call',
    'gcirc in mixed calling conventions (scalar vs array in both orders, 0-d and length-1 arrays, Python lists) must return the '
    'broadcast shape and the values of the all-array call; the angle conversions are also run on every set of 1..5 points',
    'gcirc allowance: 1e-6 * d + 4 ulp(larger |RA|) + 4 ulp(larger |Dec|) of the coordinates as passed in their convention '
    '(replaces the fixed 1e-9 arcsec of earlier rounds: near RA = Dec = 0 and in radians the relative bound applies alone); '
    'float32 input is held to float32 resolution only (64 eps32 relative, float32 coordinate ulps, sqrt(eps32) near 180 deg)',
    'memory layouts (big-endian, float32, strided, Fortran order, read-only) and 2-D coordinate shapes must give the same '
    'element-wise answers as plain 1-D native float64 arrays',
    'x_to_angles is also fed the exact unit axis vectors +-x, +-y, +-z (not only outputs of angles_to_x, whose zeros are ~1e-16); '
    'non-unit vectors are outside the property (x_to_angles divides z by the squared norm, which is 1 for unit vectors only)',
    'nothing is claimed between lattice points',
]

LD = np.longdouble
PI = LD(4) * np.arctan(LD(1))
D2R = PI / LD(180)
EPS = 2.220446049250313e-16
ARCSEC = math.pi / 180.0 / 3600.0          # rad
FLOOR = 1.0e-9 * ARCSEC                    # rad
REL = 1.0e-6


# ------------------------------------------------------------------------------------------ oracle
def vec(lon_deg, lat_deg):
    lon = np.asarray(lon_deg, dtype=np.float64).astype(LD) * D2R
    lat = np.asarray(lat_deg, dtype=np.float64).astype(LD) * D2R
    return vec_rad(lon, lat)


def vec_rad(lon, lat):
    cl = np.cos(lat)
    return np.stack([cl * np.cos(lon), cl * np.sin(lon), np.sin(lat)], axis=-1)


def sep(a, b):
    """Angular separation (rad, longdouble) of unit vectors, atan2(|a x b|, a.b)."""
    cx = a[..., 1] * b[..., 2] - a[..., 2] * b[..., 1]
    cy = a[..., 2] * b[..., 0] - a[..., 0] * b[..., 2]
    cz = a[..., 0] * b[..., 1] - a[..., 1] * b[..., 0]
    return np.arctan2(np.sqrt(cx * cx + cy * cy + cz * cz), (a * b).sum(axis=-1))


def bits_differ(a, b):
    """Element-wise (row-wise for 2-D) 'not bit-identical' for float64 arrays; NaN-safe."""
    a = np.ascontiguousarray(a, dtype=np.float64)
    b = np.ascontiguousarray(b, dtype=np.float64)
    if a.shape != b.shape:
        return np.ones(len(b) if b.ndim else 1, dtype=bool)
    d = a.view(np.uint64) != b.view(np.uint64)
    return d.reshape(len(d), -1).any(axis=1) if d.ndim else np.array([bool(d)])


def cond(lat_deg, eps=EPS):
    """Allowance (rad) for a latitude recovered from its sine / a colatitude from its cosine."""
    lat = np.abs(np.asarray(lat_deg, dtype=np.float64))
    t = np.tan(np.radians(np.minimum(lat, 90.0)))
    return np.minimum(math.sqrt(16 * eps), 8 * eps * np.abs(t))


# memory layouts of an input array holding the same numbers
LAYOUTS = ['be', 'f32', 'strided', 'fortran', 'readonly']
EPS32 = float(np.finfo(np.float32).eps)


def relayout(a, layout):
    a = np.asarray(a, dtype=np.float64)
    if layout == 'be':                      # big-endian, as FITS columns are
        return a.astype('>f8')
    if layout == 'f32':
        return a.astype(np.float32)
    if layout == 'strided':                 # every second element of a wider buffer
        if a.ndim == 1:
            b = np.zeros(2 * len(a))
            b[::2] = a
            return b[::2]
        b = np.zeros(a.shape[:-1] + (2 * a.shape[-1],))
        b[..., ::2] = a
        return b[..., ::2]
    if layout == 'fortran':
        return np.asfortranarray(a)
    if layout == 'readonly':
        b = a.copy()
        b.setflags(write=False)
        return b
    return a.copy()


def values_of(w):
    """The numbers an array holds, as native float64."""
    return np.array(w, dtype=np.float64, copy=True)


def destination(ra, dec, s_rad, pa_deg):
    """Second point at nominal separation s and position angle pa from (ra, dec); float64 input generator."""
    if abs(dec) == 90.0:
        sgn = 1.0 if dec > 0 else -1.0
        return (ra + pa_deg) % 360.0, sgn * (90.0 - math.degrees(s_rad))
    d1 = math.radians(dec)
    th = math.radians(pa_deg)
    sd2 = math.sin(d1) * math.cos(s_rad) + math.cos(d1) * math.sin(s_rad) * math.cos(th)
    sd2 = max(-1.0, min(1.0, sd2))
    d2 = math.asin(sd2)
    if s_rad < 1e-3:
        d2 = d1 + s_rad * math.cos(th)         # asin cannot resolve tiny steps at high |dec|
        if abs(d2) > math.pi / 2:
            d2 = math.copysign(math.pi / 2, d2)
        dra = s_rad * math.sin(th) / math.cos(d1)
    else:
        dra = math.atan2(math.sin(th) * math.sin(s_rad) * math.cos(d1), math.cos(s_rad) - math.sin(d1) * sd2)
    return (ra + math.degrees(dra)) % 360.0, math.degrees(d2)


def grid(nra, ndec):
    return [(360.0 * i / nra, -90.0 + 180.0 * j / (ndec - 1)) for i in range(nra) for j in range(ndec)]


def sep_menu(kstep):
    """Nominal separations: ('zero', 0), ('1e<k>', 10^k micro-arcsec) ..., ('antipode', pi), ('180deg-1e<k>', ...)."""
    out = [('zero', 0.0)]
    k = 0.0
    while k <= 11.5 + 1e-9:
        out.append(('1e%g' % k, (10.0 ** k) * 1e-6 * ARCSEC))
        k += kstep
    out.append(('antipode', math.pi))
    # mirrored ladder: 180 deg minus the same decades (the antipode of the point at separation 10^k micro-arcsec)
    k = 0.0
    while k <= 11.5 + 1e-9:
        out.append(('180deg-1e%g' % k, (10.0 ** k) * 1e-6 * ARCSEC))
        k += kstep
    return out


# ------------------------------------------------------------------------------------------ gcirc
def gcirc_inputs(units, ra, dec):
    ra = np.asarray(ra, dtype=np.float64)
    dec = np.asarray(dec, dtype=np.float64)
    if units == 2:
        return ra, dec
    if units == 1:
        return ra / 15.0, dec
    return np.radians(ra), np.radians(dec)


GC_K = 4.0


def gcirc_floor(units, a1, d1, a2, d2, eps32=False):
    """Absolute allowance (rad) of gcirc: GC_K ulps of the larger |RA| plus GC_K ulps of the larger |Dec| *as passed in
    the given convention*, converted to radians.  A float64 implementation cannot promise more than the resolution of
    the coordinates it is handed (ulp(360 deg) = 2e-10 arcsec at large RA), but near RA = Dec = 0 -- and in the radian
    convention generally -- micro-arcsecond differences are resolved and the stated relative 1e-6 applies alone."""
    t = np.float32 if eps32 else np.float64
    ra = np.maximum(np.abs(np.asarray(a1, dtype=np.float64)), np.abs(np.asarray(a2, dtype=np.float64))).astype(t)
    de = np.maximum(np.abs(np.asarray(d1, dtype=np.float64)), np.abs(np.asarray(d2, dtype=np.float64))).astype(t)
    ura = {0: 1.0, 1: 15.0 * math.pi / 180.0, 2: math.pi / 180.0}[units]
    ude = 1.0 if units == 0 else math.pi / 180.0
    return GC_K * (np.spacing(ra).astype(np.float64) * ura + np.spacing(de).astype(np.float64) * ude)


def gcirc_truth(units, a1, d1, a2, d2):
    """Separation (rad, longdouble) of the points as passed in the given convention."""
    def v(a, d):
        a = np.asarray(a, dtype=np.float64).astype(LD)
        d = np.asarray(d, dtype=np.float64).astype(LD)
        if units == 2:
            return vec_rad(a * D2R, d * D2R)
        if units == 1:
            return vec_rad(a * LD(15) * D2R, d * D2R)
        return vec_rad(a, d)
    return sep(v(a1, d1), v(a2, d2))


def gcirc_check(units, form, p1, p2, same):
    """p1, p2: arrays (n,2) of RA/Dec in degrees; same: bool array, the two points are the identical pair of numbers.
    -> list of (sig, bool mask of failing pairs, message array or None)."""
    from pydl.goddard.astro import gcirc
    a1, d1 = gcirc_inputs(units, p1[:, 0], p1[:, 1])
    a2, d2 = gcirc_inputs(units, p2[:, 0], p2[:, 1])
    n = len(a1)
    modified = repeat = None
    if form == 'array':
        w = [np.array(v, dtype=np.float64, copy=True) for v in (a1, d1, a2, d2)]      # the caller's arrays
        g12 = np.asarray(gcirc(w[0], w[1], w[2], w[3], units=units), dtype=np.float64)
        modified = np.zeros(n, dtype=bool)
        for orig, work in zip((a1, d1, a2, d2), w):
            modified |= bits_differ(orig, work)
        again = np.asarray(gcirc(w[0], w[1], w[2], w[3], units=units), dtype=np.float64)
        repeat = bits_differ(g12, again) if again.shape == g12.shape else np.ones(n, dtype=bool)
        g21 = np.asarray(gcirc(a2.copy(), d2.copy(), a1.copy(), d1.copy(), units=units), dtype=np.float64)
    else:
        g12 = np.array([gcirc(float(a1[i]), float(d1[i]), float(a2[i]), float(d2[i]), units=units) for i in range(n)],
                       dtype=np.float64)
        g21 = np.array([gcirc(float(a2[i]), float(d2[i]), float(a1[i]), float(d1[i]), units=units) for i in range(n)],
                       dtype=np.float64)
    if g12.shape != (n,):
        return [('gcirc:result-shape:units=%d' % units, np.ones(n, bool), None)], None
    truth = gcirc_truth(units, a1, d1, a2, d2)                    # rad
    scale = 1.0 if units == 0 else 1.0 / ARCSEC                   # output unit per rad
    T = (truth * LD(scale)).astype(np.float64)
    tol = REL * T + gcirc_floor(units, a1, d1, a2, d2) * scale
    top = math.pi * scale
    u = ':units=%d' % units
    nan = np.isnan(g12) | np.isnan(g21)
    res = []
    res.append(('gcirc:nan' + u, nan))
    ok = ~nan
    res.append(('gcirc:range' + u, ok & ((g12 < 0) | (g12 > top * (1 + 1e-12)))))
    res.append(('gcirc:value' + u, ok & ~same & (np.abs(g12 - T) > tol)))
    res.append(('gcirc:symmetry' + u, ok & (np.abs(g12 - g21) > tol)))
    res.append(('gcirc:identical-points-not-zero' + u, ok & same & ((g12 != 0) | (g21 != 0))))
    if modified is not None:
        res.append(('gcirc:input-modified' + u, modified))
        res.append(('gcirc:repeat-call-differs' + u, repeat & ~modified))
    msgs = (g12, g21, T)
    return [(s, m, msgs) for s, m in res if m.any()], g12 / scale


def gcirc_layout_check(units, layout, p1, p2):
    """The four coordinate arrays handed over in another memory layout (same numbers; float32: the rounded numbers)."""
    from pydl.goddard.astro import gcirc
    a1, d1 = gcirc_inputs(units, p1[:, 0], p1[:, 1])
    a2, d2 = gcirc_inputs(units, p2[:, 0], p2[:, 1])
    w = [relayout(v, layout) for v in (a1, d1, a2, d2)]
    a1, d1, a2, d2 = [values_of(v) for v in w]
    n = len(a1)
    u = ':layout=%s:units=%d' % (layout, units)
    try:
        g = gcirc(w[0], w[1], w[2], w[3], units=units)
    except Exception as e:  # noqa: BLE001
        return [('gcirc:exception:%s%s' % (type(e).__name__, u), np.ones(n, dtype=bool), repr(e))]
    if np.shape(g) != (n,):
        return [('gcirc:result-shape' + u, np.ones(n, dtype=bool), 'shape %s' % (np.shape(g),))]
    g = values_of(g)
    out = []
    mod = np.zeros(n, dtype=bool)
    for orig, work in zip((a1, d1, a2, d2), w):
        mod |= bits_differ(orig, values_of(work))
    if mod.any():
        out.append(('gcirc:input-modified' + u, mod, 'caller array changed'))
    scale = 1.0 if units == 0 else 1.0 / ARCSEC
    T = (gcirc_truth(units, a1, d1, a2, d2) * LD(scale)).astype(np.float64)
    if layout == 'f32':
        # float32 arithmetic: relative 64 eps32, the resolution of float32 coordinates, and the conditioning of
        # arcsin near 180 deg in float32
        tol = 64 * EPS32 * T + 4 * gcirc_floor(units, a1, d1, a2, d2, eps32=True) * scale + \
            np.where(T > 3.0 * scale, 4 * math.sqrt(EPS32) * scale, 0.0)
    else:
        tol = REL * T + gcirc_floor(units, a1, d1, a2, d2) * scale
    same = (a1 == a2) & (d1 == d2)
    bad = ~same & ~(np.abs(g - T) <= tol)
    if bad.any():
        k = int(np.nonzero(bad)[0][0])
        out.append(('gcirc:value' + u, bad, 'pair %s %s: %r, vector formula %r' % ([a1[k], d1[k]], [a2[k], d2[k]], g[k], T[k])))
    return out


MIXED_FORMS = ['scalar-array', 'array-scalar', '0d-array', 'len1-array', 'list-list', 'list-scalar', '0d-0d']


def gcirc_mixed_check(units, form, p1, P2):
    """One base point p1 = (ra, dec) against the array P2 (n,2), passed in a mixed calling convention.
    The result must have the broadcast shape and agree element-wise with the all-array call and with the oracle."""
    from pydl.goddard.astro import gcirc
    P2 = np.asarray(P2, dtype=np.float64)
    n = len(P2)
    a1, d1 = gcirc_inputs(units, np.full(n, p1[0]), np.full(n, p1[1]))
    a2, d2 = gcirc_inputs(units, P2[:, 0], P2[:, 1])
    u = ':%s:units=%d' % (form, units)
    s1 = (float(a1[0]), float(d1[0]))
    shape = (n,)
    try:
        if form == 'scalar-array':
            g = gcirc(s1[0], s1[1], a2.copy(), d2.copy(), units=units)
        elif form == 'array-scalar':
            g = gcirc(a2.copy(), d2.copy(), s1[0], s1[1], units=units)
        elif form == '0d-array':
            g = gcirc(np.array(s1[0]), np.array(s1[1]), a2.copy(), d2.copy(), units=units)
        elif form == 'len1-array':
            g = gcirc(np.array([s1[0]]), np.array([s1[1]]), a2.copy(), d2.copy(), units=units)
        elif form == 'list-list':
            g = gcirc(a1.tolist(), d1.tolist(), a2.tolist(), d2.tolist(), units=units)
        elif form == 'list-scalar':
            g = gcirc(a2.tolist(), d2.tolist(), s1[0], s1[1], units=units)
        elif form == '0d-0d':
            g = gcirc(np.array(s1[0]), np.array(s1[1]), np.array(a2[0]), np.array(d2[0]), units=units)
            shape = ()
        else:
            raise ValueError(form)
    except Exception as e:  # noqa: BLE001
        return [('gcirc:mixed-call:exception:%s%s' % (type(e).__name__, u), repr(e))]
    if np.shape(g) != shape:
        return [('gcirc:mixed-call:result-shape' + u, 'result shape %s, broadcast shape of the arguments %s' % (np.shape(g), shape))]
    g = np.atleast_1d(np.asarray(g, dtype=np.float64))
    m = len(g)
    ref = np.asarray(gcirc(a1[:m].copy(), d1[:m].copy(), a2[:m].copy(), d2[:m].copy(), units=units), dtype=np.float64)
    scale = 1.0 if units == 0 else 1.0 / ARCSEC
    T = (gcirc_truth(units, a1[:m], d1[:m], a2[:m], d2[:m]) * LD(scale)).astype(np.float64)
    tol = REL * T + gcirc_floor(units, a1[:m], d1[:m], a2[:m], d2[:m]) * scale
    out = []
    bad = ~(np.abs(g - ref) <= tol)
    if bad.any():
        k = int(np.nonzero(bad)[0][0])
        out.append(('gcirc:mixed-call:differs-from-array-call' + u, 'element %d: %r, all-array call %r' % (k, float(g[k]), float(ref[k]))))
    bad = ~(np.abs(g - T) <= tol)
    if bad.any():
        k = int(np.nonzero(bad)[0][0])
        out.append(('gcirc:mixed-call:value' + u, 'element %d: %r, vector formula %r' % (k, float(g[k]), float(T[k]))))
    return out


# ------------------------------------------------------------------------------------------ munu
def _snap(fr):
    return np.array(fr.data.lon.value, dtype=np.float64, copy=True), np.array(fr.data.lat.value, dtype=np.float64, copy=True)


def _frame_bits_differ(s0, s1):
    return bits_differ(np.atleast_1d(s0[0]), np.atleast_1d(s1[0])) | bits_differ(np.atleast_1d(s0[1]), np.atleast_1d(s1[1]))


class ShapeMismatch(Exception):
    pass


def _transform(stripe, route, form, ra, dec, direction='icrs->munu', side=None, shape=None, layout=None):
    """direction 'icrs->munu': -> mu, nu, ra_back, dec_back; 'munu->icrs': input is (mu, nu) -> ra, dec, mu_back, nu_back
    (float64 arrays, degrees)."""
    import astropy.coordinates as ac
    import astropy.units as u
    from pydl.pydlutils.coord import SDSSMuNu, munu_to_radec, radec_to_munu

    def to_munu(fr):
        return fr.transform_to(SDSSMuNu(stripe=stripe)) if route == 'graph' else radec_to_munu(fr, SDSSMuNu(stripe=stripe))

    def to_icrs(fr):
        return fr.transform_to(ac.ICRS()) if route == 'graph' else munu_to_radec(fr, ac.ICRS())

    def step(name, f, fr):
        """Apply f to frame fr; record whether fr's coordinate arrays changed and whether a second call agrees."""
        if side is None:
            return f(fr)
        s0 = _snap(fr)
        out = f(fr)
        side[name + ':input-modified'] = _frame_bits_differ(s0, _snap(fr))
        side[name + ':repeat-call-differs'] = _frame_bits_differ(_snap(out), _snap(f(fr)))
        return out

    def q(v):
        # coordinates in another memory layout are handed over without a copy
        return u.Quantity(v, u.deg, copy=False) if layout else v * u.deg

    def one(r, d):
        if direction == 'munu->icrs':
            m = SDSSMuNu(mu=q(r), nu=q(d), stripe=stripe, copy=not layout)
            b = step('munu_to_radec', to_icrs, m)
            m2 = step('radec_to_munu', to_munu, b)
            return b.ra.deg, b.dec.deg, m2.mu.deg, m2.nu.deg
        icrs = ac.ICRS(ra=q(r), dec=q(d), copy=not layout)
        m = step('radec_to_munu', to_munu, icrs)
        b = step('munu_to_radec', to_icrs, m)
        return m.mu.deg, m.nu.deg, b.ra.deg, b.dec.deg
    if form == 'array':
        rin, din = np.asarray(ra, dtype=np.float64), np.asarray(dec, dtype=np.float64)
        if shape is not None:
            rin, din = rin.reshape(shape), din.reshape(shape)
        if layout:
            rin, din = relayout(rin, layout), relayout(din, layout)
        r = [np.asarray(v, dtype=np.float64) for v in one(rin, din)]
        for v in r:
            if v.shape != rin.shape:
                raise ShapeMismatch('coordinates of shape %s give a result of shape %s' % (rin.shape, v.shape))
        return tuple(v.ravel() for v in r)
    outs = [one(float(r), float(d)) for r, d in zip(ra, dec)]
    return tuple(np.array([float(o[i]) for o in outs], dtype=np.float64) for i in range(4))


def _from_munu(stripe, route, mu, nu):
    import astropy.coordinates as ac
    import astropy.units as u
    from pydl.pydlutils.coord import SDSSMuNu, munu_to_radec
    m = SDSSMuNu(mu=np.asarray(mu, dtype=np.float64) * u.deg, nu=np.asarray(nu, dtype=np.float64) * u.deg, stripe=stripe)
    b = m.transform_to(ac.ICRS()) if route == 'graph' else munu_to_radec(m, ac.ICRS())
    return np.asarray(b.ra.deg, dtype=np.float64), np.asarray(b.dec.deg, dtype=np.float64)


def stripe_incl(stripe):
    from pydl.pydlutils.coord import stripe_to_incl
    return float(stripe_to_incl(stripe))


def circle_pole(incl_deg, node_deg=95.0):
    i = LD(incl_deg) * D2R
    n = LD(node_deg) * D2R
    return np.array([np.sin(n) * np.sin(i), -np.cos(n) * np.sin(i), np.cos(i)], dtype=LD)


def circle_point(incl_deg, t_deg, node_deg=95.0):
    """Point of the stripe's great circle at angle t from the node (longdouble vectors)."""
    i = LD(incl_deg) * D2R
    n = LD(node_deg) * D2R
    t = np.asarray(t_deg, dtype=np.float64).astype(LD) * D2R
    N = np.array([np.cos(n), np.sin(n), LD(0)], dtype=LD)
    M = np.array([-np.sin(n) * np.cos(i), np.cos(n) * np.cos(i), np.sin(i)], dtype=LD)
    return np.cos(t)[:, None] * N[None, :] + np.sin(t)[:, None] * M[None, :]


def munu_points_check(stripe, route, form, P, pairs, triples, direction='icrs->munu', shape=None, layout=None):
    res, vals = _munu_points_check(stripe, route, form, P, pairs, triples, direction, shape, layout)
    xt = (':shape=%s' % (tuple(shape),) if shape is not None else '') + (':layout=%s' % layout if layout else '')
    return [(sg + xt, k, i, m) for sg, k, i, m in res], vals


def _munu_points_check(stripe, route, form, P, pairs, triples, direction, shape, layout):
    """P: (n,2) RA/Dec (or mu/nu for direction 'munu->icrs'); pairs: (m,2) index pairs for the isometry clause;
    triples: (k,3) for handedness.  -> list of (sig, kind, failing indices, msg)."""
    out = []
    first, second = ('radec_to_munu', 'munu_to_radec') if direction == 'icrs->munu' else ('munu_to_radec', 'radec_to_munu')
    dtag = '' if direction == 'icrs->munu' else ':munu->icrs'
    eps = EPS32 if layout == 'f32' else EPS
    base = 64 * EPS32 if layout == 'f32' else 5 * FLOOR
    if layout == 'f32':
        P = P.astype(np.float32).astype(np.float64)
    try:
        side = {} if (form == 'array' and shape is None and layout is None) else None
        mu, nu, rb, db = _transform(stripe, route, form, P[:, 0], P[:, 1], direction, side, shape, layout)
    except ShapeMismatch as e:
        return [('munu:result-shape:%s%s' % (route, dtag), 'all', np.array([0]), str(e))], None
    except Exception as e:  # noqa: BLE001
        return [('munu:exception:%s:%s%s' % (type(e).__name__, route, dtag), 'all', np.array([0]), repr(e))], None
    pole = np.abs(P[:, 1]) > 90.0 - 1.0e-6       # within 3.6 mas of a celestial pole: sin(dec) can round to 1
    spole = np.abs(nu) > 90.0 - 1.0e-6           # same for the poles of the stripe's own system
    nan_f = np.isnan(mu) | np.isnan(nu)
    if nan_f.any() and direction == 'icrs->munu':
        # nu is NaN there; locate the stripe pole independently
        off = np.arcsin(np.clip((vec(P[:, 0], P[:, 1]) * circle_pole(stripe_incl(stripe))[None, :]).sum(axis=1), -1, 1))
        spole = np.abs(np.degrees(off.astype(np.float64))) > 90.0 - 1.0e-6
    if direction == 'munu->icrs':
        spole = np.abs(P[:, 1]) > 90.0 - 1.0e-6              # the input latitude is nu here
        # celestial latitude of the input (mu, nu) from the reference rotation
        incl = stripe_incl(stripe)
        v = vec(P[:, 0] - 95.0, P[:, 1])
        z = v[:, 1] * np.sin(LD(incl) * D2R) + v[:, 2] * np.cos(LD(incl) * D2R)
        pole = np.abs(np.degrees(np.arcsin(np.clip(z, -1, 1)).astype(np.float64))) > 90.0 - 1.0e-6
    nan_b = (np.isnan(rb) | np.isnan(db)) & ~nan_f
    for name, m in ((first, nan_f), (second, nan_b)):
        if m.any():
            for tag, mm in ((':|dec|>90-1e-6deg', m & pole), (':|nu|>90-1e-6deg', m & ~pole & spole),
                            ('', m & ~pole & ~spole)):
                if mm.any():
                    out.append(('munu:nan:%s%s%s' % (name, tag, dtag), 'point', np.nonzero(mm)[0],
                                'NaN in the result of %s' % name))
    for name, m in sorted((side or {}).items()):
        if name.endswith('repeat-call-differs'):
            m = m & ~side[name.replace('repeat-call-differs', 'input-modified')]
        if m.any():
            out.append(('munu:%s:%s%s' % (name, route, dtag), 'point', np.nonzero(m)[0],
                        'frame coordinates changed by the call' if name.endswith('modified') else
                        'second call on the same frame returns different coordinates'))
    good = ~(nan_f | nan_b)
    vP = vec(P[:, 0], P[:, 1])
    vM = vec(mu, nu)
    vB = vec(rb, db)
    # round trip
    rt = sep(vP, vB).astype(np.float64)
    tol = base + cond(nu, eps) + cond(db, eps)
    bad = good & (rt > tol)
    if bad.any():
        out.append(('munu:round-trip' + dtag, 'point', np.nonzero(bad)[0], 'returns %.3g arcsec away' % (rt[bad].max() / ARCSEC)))
    # isometry
    if len(pairs):
        i, j = pairs[:, 0], pairs[:, 1]
        s0 = sep(vP[i], vP[j]).astype(np.float64)
        s1 = sep(vM[i], vM[j]).astype(np.float64)
        tol = REL * s0 + base + cond(nu[i], eps) + cond(nu[j], eps)
        bad = good[i] & good[j] & (np.abs(s1 - s0) > tol)
        if bad.any():
            k = np.nonzero(bad)[0]
            out.append(('munu:separation-not-preserved' + dtag, 'pair', k,
                        'separation %.12g arcsec becomes %.12g' % (s0[k[0]] / ARCSEC, s1[k[0]] / ARCSEC)))
    # handedness
    if len(triples):
        def det(v, t):
            a, b, c = v[t[:, 0]], v[t[:, 1]], v[t[:, 2]]
            return (a[:, 0] * (b[:, 1] * c[:, 2] - b[:, 2] * c[:, 1]) - a[:, 1] * (b[:, 0] * c[:, 2] - b[:, 2] * c[:, 0]) +
                    a[:, 2] * (b[:, 0] * c[:, 1] - b[:, 1] * c[:, 0])).astype(np.float64)
        d0, d1 = det(vP, triples), det(vM, triples)
        g = good[triples].all(axis=1) & (np.abs(d0) > 0.05)
        bad = g & (np.sign(d0) != np.sign(d1))
        if bad.any():
            out.append(('munu:orientation-reversed' + dtag, 'triple', np.nonzero(bad)[0], 'triple product changes sign'))
    return out, (mu, nu, rb, db)


def circle_check(stripe, route, t_deg):
    """nu = 0 <=> on the great circle of inclination stripe_to_incl(stripe) through RA 95."""
    out = []
    t_deg = np.asarray(t_deg, dtype=np.float64)
    incl = stripe_incl(stripe)
    pole = circle_pole(incl)
    # (mu, 0) -> ICRS lies on the circle
    try:
        ra, dec = _from_munu(stripe, route, 95.0 + t_deg, np.zeros_like(t_deg))
    except Exception as e:  # noqa: BLE001
        return [('munu:exception:%s:%s' % (type(e).__name__, route), 'circle', np.array([0]), repr(e))]
    nan = np.isnan(ra) | np.isnan(dec)
    if nan.any():
        out.append(('munu:nan:munu_to_radec:nu=0', 'circle', np.nonzero(nan)[0], 'NaN for a point with nu = 0'))
    off = np.abs(np.arcsin(np.clip((vec(ra, dec) * pole[None, :]).sum(axis=1), -1, 1))).astype(np.float64)
    bad = ~nan & (off > 5 * FLOOR + cond(dec))
    if bad.any():
        out.append(('munu:nu=0-off-the-great-circle', 'circle', np.nonzero(bad)[0],
                    'image of (mu, 0) lies %.3g arcsec off the circle of inclination %g' % (off[bad].max() / ARCSEC, incl)))
    # points of the circle -> nu = 0 ; points 1 deg north of it -> nu = +1
    cp = circle_point(incl, t_deg)
    for shift, name in ((0.0, 'munu:circle-point-has-nu!=0'), (1.0, 'munu:parallel-of-the-circle-has-wrong-nu')):
        sh = LD(shift) * D2R
        q = np.cos(sh) * cp + np.sin(sh) * pole[None, :]
        qra = (np.degrees(np.arctan2(q[:, 1], q[:, 0]).astype(np.float64))) % 360.0
        qdec = np.degrees(np.arctan2(q[:, 2], np.sqrt(q[:, 0] ** 2 + q[:, 1] ** 2)).astype(np.float64))
        try:
            mu, nu, _rb, _db = _transform(stripe, route, 'array', qra, qdec)
        except Exception as e:  # noqa: BLE001
            return [('munu:exception:%s:%s' % (type(e).__name__, route), 'circle', np.array([0]), repr(e))]
        nan = np.isnan(nu)
        if nan.any():
            out.append(('munu:nan:radec_to_munu:on-circle', 'circle', np.nonzero(nan)[0], 'NaN nu'))
        # the float64 (qra, qdec) is itself within ~1e-10 arcsec of q
        bad = ~nan & (np.abs(np.radians(nu) - shift * math.pi / 180.0) > 5 * FLOOR)
        if bad.any():
            out.append((name, 'circle', np.nonzero(bad)[0], 'nu = %.3g arcsec instead of %g deg'
                        % (np.radians(nu[bad][0]) / ARCSEC, shift)))
    return out


# ------------------------------------------------------------------------------------------ angles
def angles_check(latitude, A, layout=None):
    """A: (n,2) angles (phi, theta or RA, Dec), optionally handed over in another memory layout.
    -> list of (sig, failing indices, msg)."""
    import pydl.pydlutils.mangle as mng
    out = []
    lt = ':latitude=%s' % latitude + (':layout=%s' % layout if layout else '')
    eps = EPS32 if layout == 'f32' else EPS
    base = 64 * EPS32 if layout == 'f32' else 5 * FLOOR
    try:
        WA = relayout(A, layout)                        # the caller's angle array
        A = values_of(WA)
        X = mng.angles_to_x(WA, latitude=latitude)
        modA = bits_differ(A, values_of(WA))
        if modA.any():
            out.append(('angles_to_x:input-modified' + lt, np.nonzero(modA)[0],
                        'caller array %s became %s' % (A[modA][0].tolist(), values_of(WA)[modA][0].tolist())))
            X = mng.angles_to_x(relayout(A, layout), latitude=latitude)
        else:
            rep = bits_differ(values_of(X), values_of(mng.angles_to_x(WA, latitude=latitude)))
            if rep.any():
                out.append(('angles_to_x:repeat-call-differs' + lt, np.nonzero(rep)[0], 'second call on the same array'))
        X = values_of(X)
        WX = relayout(X, layout)                        # the caller's vector array
        X = values_of(WX)
        B = mng.x_to_angles(WX, latitude=latitude)
        modX = bits_differ(X, values_of(WX))
        if modX.any():
            out.append(('x_to_angles:input-modified' + lt, np.nonzero(modX)[0],
                        'caller array %s became %s' % (X[modX][0].tolist(), values_of(WX)[modX][0].tolist())))
            B = mng.x_to_angles(relayout(X, layout), latitude=latitude)
        else:
            rep = bits_differ(values_of(B), values_of(mng.x_to_angles(WX, latitude=latitude)))
            if rep.any():
                out.append(('x_to_angles:repeat-call-differs' + lt, np.nonzero(rep)[0], 'second call on the same array'))
        B = values_of(B)
        X2 = values_of(mng.angles_to_x(relayout(B, layout), latitude=latitude))
    except Exception as e:  # noqa: BLE001
        return [('angles:exception:%s%s' % (type(e).__name__, ':layout=%s' % layout if layout else ''), np.array([0]), repr(e))]
    lat = A[:, 1] if latitude else 90.0 - A[:, 1]
    sfx = ':layout=%s' % layout if layout else ''
    if X.shape != (len(A), 3) or B.shape != (len(A), 2):
        return [('angles:result-shape' + sfx, np.array([0]), '%s %s' % (X.shape, B.shape))]
    nanx = np.isnan(X).any(axis=1)
    nanb = np.isnan(B).any(axis=1) & ~nanx
    if nanx.any():
        out.append(('angles_to_x:nan' + sfx, np.nonzero(nanx)[0], 'NaN component'))
    if nanb.any():
        out.append(('x_to_angles:nan' + sfx, np.nonzero(nanb)[0], 'NaN angle for a unit vector'))
    good = ~(nanx | nanb)
    norm = np.sqrt((X.astype(LD) ** 2).sum(axis=1)).astype(np.float64)
    bad = ~nanx & (np.abs(norm - 1) > (1e-12 if layout != 'f32' else 16 * EPS32))
    if bad.any():
        out.append(('angles_to_x:not-a-unit-vector' + sfx, np.nonzero(bad)[0], 'norm %r' % norm[bad][0]))
    latB = B[:, 1] if latitude else 90.0 - B[:, 1]
    # angles -> x -> angles is the same direction (RA modulo 360)
    d = sep(vec(A[:, 0], lat), vec(B[:, 0], latB)).astype(np.float64)
    bad = good & ~(d <= base + cond(lat, eps))
    if bad.any():
        out.append(('x_to_angles(angles_to_x):not-inverse' + sfx, np.nonzero(bad)[0],
                    'direction moves by %.3g arcsec' % (np.nanmax(d[bad]) / ARCSEC)))
    # x -> angles -> x returns the vector
    dx = np.sqrt(((X2 - X) ** 2).sum(axis=1))
    bad = good & ~(dx <= base + cond(lat, eps))
    if bad.any():
        out.append(('angles_to_x(x_to_angles):not-inverse' + sfx, np.nonzero(bad)[0], 'vector moves by %.3g' % np.nanmax(dx[bad])))
    return out


AXES = [(1.0, 0.0, 0.0), (-1.0, 0.0, 0.0), (0.0, 1.0, 0.0), (0.0, -1.0, 0.0), (0.0, 0.0, 1.0), (0.0, 0.0, -1.0)]
AXIS_SCALES = [1.0]     # unit vectors only: the property (and the docstring) speak of unit vectors; non-unit input is out of scope


def axis_vectors():
    """Exact axis vectors (not outputs of angles_to_x, whose zeros are ~1e-16) and scaled copies: (vector, axis, scale)."""
    return [([sc * c for c in ax], ax, sc) for sc in AXIS_SCALES for ax in AXES]


def axis_check(latitude, X):
    """x_to_angles fed directly with exact (possibly scaled) axis vectors: the angles must name the axis direction and
    angles_to_x must map them back onto the unit axis.  -> list of (sig, failing indices, msg)."""
    import pydl.pydlutils.mangle as mng
    X = np.asarray(X, dtype=np.float64)
    lt = ':latitude=%s' % latitude
    try:
        B = values_of(mng.x_to_angles(X.copy(), latitude=latitude))
        X2 = values_of(mng.angles_to_x(B.copy(), latitude=latitude))
    except Exception as e:  # noqa: BLE001
        return [('x_to_angles:exact-axis-vector:exception:%s%s' % (type(e).__name__, lt), np.array([0]), repr(e))]
    if B.shape != (len(X), 2):
        return [('x_to_angles:exact-axis-vector:result-shape' + lt, np.array([0]), str(B.shape))]
    nrm = np.sqrt((X ** 2).sum(axis=1))
    U = X / nrm[:, None]                                  # exact for axis vectors
    unit = nrm == 1.0
    latB = B[:, 1] if latitude else 90.0 - B[:, 1]
    d = sep(U.astype(LD), vec(B[:, 0], latB)).astype(np.float64)
    latU = np.degrees(np.arcsin(U[:, 2]))
    tol = 5 * FLOOR + cond(latU)
    bad = ~(d <= tol) | ~(np.sqrt(((X2 - U) ** 2).sum(axis=1)) <= tol)
    out = []
    for name, m in (('unit', bad & unit), ('scaled', bad & ~unit)):
        if m.any():
            k = int(np.nonzero(m)[0][0])
            out.append(('x_to_angles:exact-axis-vector:%s%s' % (name, lt), np.nonzero(m)[0],
                        'vector %s -> angles %s (direction off by %.6g deg), back to %s'
                        % (X[k].tolist(), B[k].tolist(), np.degrees(d[k]), X2[k].tolist())))
    return out


def angle_lattice(latitude, T):
    nphi = 72 if T else 24
    nth = 37 if T else 13
    phis = [-180.0 + 720.0 * i / (2 * nphi) for i in range(2 * nphi + 1)]        # -180 .. 540
    ths = [180.0 * j / (nth - 1) for j in range(nth)]
    A = [(p, t) for p in phis for t in ths]
    step = 0.25 if T else 1.0
    k = 0.0
    while k <= 11.5 + 1e-9:
        off = (10.0 ** k) * 1e-6 / 3600.0
        for p in (0.0, 7.0, 95.0, 180.0, 233.0, 359.0):
            A.append((p, off))
            A.append((p, 180.0 - off))
        k += step
    A = np.array(A, dtype=np.float64)
    if latitude:
        A[:, 1] = 90.0 - A[:, 1]
    return A


# ------------------------------------------------------------------------------------------ lattice for gcirc / munu
# base points at small |RA|, |Dec| (degrees): there micro-arcsecond steps are resolved by float64 in every convention and
# the stated relative 1e-6 applies without an absolute floor
SMALL_RA = [0.0, 2.0 ** -30, 2.0 ** -20, 1.0e-7, 1.0e-4, 2.0 ** -10]
SMALL_DEC = [0.0, 2.0 ** -20, -2.0 ** -20, 1.0e-5, -1.0e-5, 1.0e-3, -0.5]


def gcirc_bases(col, nra, ndec):
    if col < 0:                 # the small-|RA| columns: col = -1 - index
        ra = SMALL_RA[-1 - col]
        return [(ra, dec) for dec in SMALL_DEC]
    return [(360.0 * col / nra, -90.0 + 180.0 * j / (ndec - 1)) for j in range(ndec)]


def gcirc_pairs(col, nra, ndec, kstep, npa):
    """All pairs whose base point lies in RA column `col` of the grid (col < 0: small-|RA| column)."""
    P1, P2, same, keys = [], [], [], []
    seps = sep_menu(kstep)
    colkey = col if col >= 0 else 1000 - col
    for j, (ra, dec) in enumerate(gcirc_bases(col, nra, ndec)):
        for si, (name, s) in enumerate(seps):
            for a in range(npa):
                pa = 360.0 * a / npa + 10.0
                if name == 'zero':
                    q = (ra, dec)
                elif name == 'antipode':
                    q = ((ra + 180.0) % 360.0, -dec)
                elif name.startswith('180deg-'):
                    q = destination(ra, dec, s, pa)
                    q = ((q[0] + 180.0) % 360.0, -q[1])
                else:
                    q = destination(ra, dec, s, pa)
                P1.append((ra, dec))
                P2.append(q)
                same.append(q == (ra, dec))
                keys.append((colkey * 64 + j) * 4096 + si * 32 + a)
    return np.array(P1), np.array(P2), np.array(same, dtype=bool), np.array(keys, dtype=np.uint64)


def munu_lattice(T):
    nra, ndec = (72, 37) if T else (24, 13)
    G = grid(nra, ndec)
    P = list(G)
    pairs = []
    ks = [0, 1, 2, 3, 4, 5, 6, 7, 8, 9, 10, 11] if T else [0, 3, 6, 9, 11]
    for g, (ra, dec) in enumerate(G):
        for k in ks:
            for pa in (30.0, 120.0):
                P.append(destination(ra, dec, (10.0 ** k) * 1e-6 * ARCSEC, pa))
                pairs.append((g, len(P) - 1))
    n = len(G)
    for g in range(n):
        pairs.append((g, (g + 7 * ndec + 3) % n))         # far pairs across the grid
    triples = [(g, (g + 5 * ndec + 2) % n, (g + 11 * ndec + 5) % n) for g in range(n)]
    return np.array(P, dtype=np.float64), np.array(pairs, dtype=np.int64), np.array(triples, dtype=np.int64)


# a small generic (non-symmetric) set of sky positions for the shape / layout variants
MUNU_SMALL = np.array([((41.7 * i + 3.3) % 360.0, -71.0 + 143.0 * ((i * 0.6180339887498949) % 1.0)) for i in range(12)],
                      dtype=np.float64)


def stripe_pole_points(incl):
    """ICRS coordinates (float64) of the two poles of the stripe's system and of points 10^k micro-arcsec from them."""
    n = circle_pole(incl).astype(np.float64)
    out = []
    for sg in (1.0, -1.0):
        ra = math.degrees(math.atan2(sg * n[1], sg * n[0])) % 360.0
        dec = math.degrees(math.atan2(sg * n[2], math.hypot(n[0], n[1])))
        out.append((ra, dec))
        for k in (0, 3, 6, 9):
            if abs(dec) < 90.0:
                out.append(destination(ra, dec, (10.0 ** k) * 1e-6 * ARCSEC, 40.0))
    return np.array(out, dtype=np.float64)


_lat_cache = {}


def _munu_lattice(T):
    if T not in _lat_cache:
        _lat_cache[T] = munu_lattice(T)
    return _lat_cache[T]


# ------------------------------------------------------------------------------------------ call histories
# Consecutive calls on identical data with a different keyword (latitude / units): every result must be right for ITS
# OWN convention, whatever was called before.  A fixed separator call precedes every history so that any module-level
# state left by earlier histories is the same in every process (determinism of the shard digests).
SEP_ANGLES = np.array([[12.5, 33.0], [200.0, 71.0]])
SEP_VECS = np.array([[0.6, 0.0, 0.8], [0.0, -1.0, 0.0]])


def sequences(menu, lengths, distinct=False):
    out = []
    for n in lengths:
        for seq in (itertools.permutations(menu, n) if distinct else itertools.product(menu, repeat=n)):
            out.append(list(seq))
    return out


def _hist_sig(func, kw, k, seq, matches_prev):
    if k > 0 and seq[k - 1] != seq[k] and matches_prev:
        return '%s:call-history:returns-the-result-for-the-previous-call\'s-%s' % (func, kw)
    return '%s:call-history:wrong-result-for-its-own-%s' % (func, kw)


def hist_angles_to_x(A, seq, same):
    """A: (n,2) angles valid in both conventions (second column in [0, 90])."""
    import pydl.pydlutils.mangle as mng
    A = np.asarray(A, dtype=np.float64)
    mng.angles_to_x(SEP_ANGLES.copy(), latitude=False)
    W = A.copy()
    ora = {lat: vec(A[:, 0], A[:, 1] if lat else 90.0 - A[:, 1]) for lat in (False, True)}
    out = []
    for k, lat in enumerate(seq):
        X = np.asarray(mng.angles_to_x(W if same else A.copy(), latitude=lat), dtype=np.float64)
        if X.shape != (len(A), 3):
            out.append(('angles_to_x:call-history:result-shape', 'call %d: shape %s' % (k + 1, X.shape)))
            continue
        bad = ~(sep(ora[lat], X.astype(LD)).astype(np.float64) <= 5 * FLOOR)
        if bad.any():
            prev = bool((sep(ora[not lat], X.astype(LD)).astype(np.float64)[bad] <= 5 * FLOOR).all())
            out.append((_hist_sig('angles_to_x', 'latitude', k, seq, prev),
                        'call %d of latitude=%s (%s): angles %s -> %s' % (k + 1, seq, 'same array' if same else 'equal copies',
                                                                         A[bad][0].tolist(), X[bad][0].tolist())))
    return out


def hist_x_to_angles(A, seq, same):
    """The unit vectors of the directions A (RA/Dec) are converted back under changing conventions."""
    import pydl.pydlutils.mangle as mng
    A = np.asarray(A, dtype=np.float64)
    V = vec(A[:, 0], A[:, 1])
    X0 = V.astype(np.float64)
    V = X0.astype(LD)
    mng.x_to_angles(SEP_VECS.copy(), latitude=False)
    W = X0.copy()
    out = []
    tol = 5 * FLOOR + cond(A[:, 1])

    def direction(B, lat):
        return vec(B[:, 0], B[:, 1] if lat else 90.0 - B[:, 1])
    for k, lat in enumerate(seq):
        B = np.asarray(mng.x_to_angles(W if same else X0.copy(), latitude=lat), dtype=np.float64)
        if B.shape != (len(A), 2):
            out.append(('x_to_angles:call-history:result-shape', 'call %d: shape %s' % (k + 1, B.shape)))
            continue
        bad = ~(sep(V, direction(B, lat)).astype(np.float64) <= tol)
        if bad.any():
            prev = bool((sep(V, direction(B, not lat)).astype(np.float64)[bad] <= tol[bad]).all())
            out.append((_hist_sig('x_to_angles', 'latitude', k, seq, prev),
                        'call %d of latitude=%s (%s): vector %s -> %s' % (k + 1, seq, 'same array' if same else 'equal copies',
                                                                         X0[bad][0].tolist(), B[bad][0].tolist())))
    return out


def hist_gcirc(C, seq, same, form):
    """C: (n,4) numbers (a1, d1, a2, d2) that are valid coordinates in all three unit conventions."""
    from pydl.goddard.astro import gcirc
    C = np.asarray(C, dtype=np.float64)
    gcirc(np.array([0.25]), np.array([0.5]), np.array([1.25]), np.array([-0.5]), units=2)
    W = [C[:, i].copy() for i in range(4)]
    out = []
    truth = {}
    for un in (0, 1, 2):
        scale = 1.0 if un == 0 else 1.0 / ARCSEC
        T = (gcirc_truth(un, C[:, 0], C[:, 1], C[:, 2], C[:, 3]) * LD(scale)).astype(np.float64)
        truth[un] = (T, REL * T + gcirc_floor(un, C[:, 0], C[:, 1], C[:, 2], C[:, 3]) * scale)
    for k, un in enumerate(seq):
        if form == 'array':
            args = W if same else [C[:, i].copy() for i in range(4)]
            g = np.asarray(gcirc(args[0], args[1], args[2], args[3], units=un), dtype=np.float64)
        else:
            g = np.array([gcirc(float(r[0]), float(r[1]), float(r[2]), float(r[3]), units=un) for r in C], dtype=np.float64)
        if g.shape != (len(C),):
            out.append(('gcirc:call-history:result-shape', 'call %d: shape %s' % (k + 1, g.shape)))
            continue
        T, tol = truth[un]
        bad = ~(np.abs(g - T) <= tol)
        if bad.any():
            prev = False
            if k > 0:
                Tp, tolp = truth[seq[k - 1]]
                prev = bool((np.abs(g - Tp)[bad] <= tolp[bad]).all())
            out.append((_hist_sig('gcirc', 'units', k, seq, prev),
                        'call %d of units=%s (%s, %s): %s -> %r, vector formula %r'
                        % (k + 1, seq, form, 'same arrays' if same else 'equal copies', C[bad][0].tolist(),
                           float(g[bad][0]), float(T[bad][0]))))
    return out


def history_arrays(T):
    """Angle arrays valid in both conventions (one per longitude), and coordinate arrays valid in all unit conventions."""
    nphi, nth = (72, 19) if T else (24, 7)
    ang = []
    for i in range(nphi + 1):
        phi = 360.0 * i / nphi
        ang.append([[phi, 90.0 * j / (nth - 1)] for j in range(nth)])
    ang.append([[p, (10.0 ** k) * 1e-6 / 3600.0] for p in (7.0, 233.0) for k in range(0, 12, 2)])
    ras = [0.0, 0.5, 1.0, 1.5, 2.0, 3.0, 3.5, 4.5, 5.0, 6.0, 6.25] if T else [0.0, 1.0, 2.5, 4.5, 6.25]
    decs = [-1.5, -1.0, -0.5, 0.0, 0.25, 1.0, 1.5]
    steps = [(1e-9, 5e-10), (0.001, -0.0005), (0.3, -0.2), (1.0, 0.7), (3.0, 0.1)]
    co = []
    for ra in ras:
        rows = []
        for dec in decs:
            for da, dd in steps:
                rows.append([ra, dec, min(ra + da, 6.28), max(-1.57, min(1.57, dec + dd))])
        co.append(rows)
    return ang, co


def run_history(acc, task):
    ang, co = history_arrays(task['T'])
    what = task['what']

    def emit(keyd, nontrivial, label, viol, case):
        acc.case(tuple(sorted((k, repr(v)) for k, v in keyd.items())), nontrivial,
                 label if not viol else 'bad:' + viol[0][0], sample=None if acc.samples else keyd)
        for sig, msg in viol:
            acc.violation(sig, case, msg)
    if what in ('angles_to_x', 'x_to_angles'):
        f = hist_angles_to_x if what == 'angles_to_x' else hist_x_to_angles
        for ai, A in enumerate(ang):
            for seq in sequences([False, True], (2, 3)):
                for same in (True, False):
                    v = f(A, seq, same)
                    emit({'h': what, 'array': ai, 'seq': seq, 'same': same}, len(set(seq)) > 1,
                         'ok:%s:history:%s' % (what, 'mixed' if len(set(seq)) > 1 else 'one-convention'), v,
                         {'layer': 'history', 'what': what, 'a': A, 'seq': seq, 'same': same})
    else:
        for ci, C in enumerate(co):
            for seq in sequences([0, 1, 2], (2, 3), distinct=True):
                for same, form in ((True, 'array'), (False, 'array'), (False, 'scalar')):
                    v = hist_gcirc(C, seq, same, form)
                    emit({'h': 'gcirc', 'array': ci, 'seq': seq, 'same': same, 'form': form}, True,
                         'ok:gcirc:history:%s' % form, v,
                         {'layer': 'history', 'what': 'gcirc', 'c': C, 'seq': seq, 'same': same, 'form': form})


# ------------------------------------------------------------------------------------------ tasks
def tasks(tier):
    T = tier == 'thorough'
    t = [{'layer': 'angles', 'latitude': False, 'T': T}, {'layer': 'angles', 'latitude': True, 'T': T}]
    nra, ndec = (72, 37) if T else (24, 13)
    for col in range(nra):
        t.append({'layer': 'gcirc', 'col': col, 'nra': nra, 'ndec': ndec, 'kstep': 0.25 if T else 1.0, 'npa': 8})
    for i in range(len(SMALL_RA)):
        t.append({'layer': 'gcirc', 'col': -1 - i, 'nra': nra, 'ndec': ndec, 'kstep': 0.25 if T else 1.0, 'npa': 8})
    per = 1 if T else 3
    for s0 in range(0, 90, per):
        t.append({'layer': 'munu', 'stripes': list(range(s0, s0 + per)), 'T': T})
    for what in ('angles_to_x', 'x_to_angles', 'gcirc'):
        t.append({'layer': 'history', 'what': what, 'T': T})
    return t


def _bulk(acc, keys, nontrivial, label, fails):
    """fails: dict sig -> bool mask over the cases."""
    anybad = np.zeros(len(keys), dtype=bool)
    for m in fails.values():
        anybad |= m
    if (~anybad).any():
        acc.bulk(keys[~anybad], nontrivial[~anybad] if nontrivial is not True else True, 'ok:' + label)
    for sig, m in fails.items():
        # a case is listed under the first signature that fails for it
        mm = m & anybad
        if mm.any():
            acc.bulk(keys[mm], nontrivial[mm] if nontrivial is not True else True, 'bad:' + sig)
            anybad = anybad & ~mm


def run_gcirc(acc, task):
    P1, P2, same, keys = gcirc_pairs(task['col'], task['nra'], task['ndec'], task['kstep'], task['npa'])
    k0 = len(P1) // 2
    acc.sample({'layer': 'gcirc', 'units': 2, 'form': 'array', 'p1': P1[k0].tolist(), 'p2': P2[k0].tolist()})
    ref = {}
    for units in (2, 1, 0):
        for form in ('array', 'scalar'):
            if form == 'scalar':
                sel = (keys % np.uint64(32)) == 0          # first position angle only
            else:
                sel = np.ones(len(keys), dtype=bool)
            p1, p2, sm, ky = P1[sel], P2[sel], same[sel], keys[sel]
            res, g = gcirc_check(units, form, p1, p2, sm)
            fails = {}
            for sig, m, msgs in res:
                fails[sig] = m
                idx = np.nonzero(m)[0]
                for i in idx[:3]:
                    acc.violation(sig, {'layer': 'gcirc', 'units': units, 'form': form, 'p1': p1[i].tolist(),
                                        'p2': p2[i].tolist()},
                                  'gcirc -> %r / reversed %r, vector formula %r' % tuple(float(x[i]) for x in msgs)
                                  if msgs is not None else 'bad shape')
                if len(idx) > 3:
                    acc.viol_count[sig] += len(idx) - 3
            kk = ky * np.uint64(8) + np.uint64(units * 2 + (1 if form == 'scalar' else 0))
            _bulk(acc, kk, ~sm, 'gcirc:units=%d:%s' % (units, form), fails)
            if form == 'array' and g is not None:
                ref[units] = g
    run_gcirc_mixed(acc, task)
    for layout in ('be', 'f32', 'strided', 'readonly'):
        for units in (2, 1, 0):
            res = gcirc_layout_check(units, layout, P1, P2)
            fails = {}
            for sig, m, msg in res:
                fails[sig] = m
                idx = np.nonzero(m)[0]
                sel = sorted(set([int(idx[0])] + [0, len(P1) // 2]))
                acc.violation(sig, {'layer': 'gcirc-layout', 'units': units, 'layout': layout,
                                    'p1': P1[sel].tolist(), 'p2': P2[sel].tolist()}, msg)
                if len(idx) > 1:
                    acc.viol_count[sig] += len(idx) - 1
            kk = keys * np.uint64(64) + np.uint64(32 + LAYOUTS.index(layout) * 4 + units)
            _bulk(acc, kk, ~same, 'gcirc:layout=%s:units=%d' % (layout, units), fails)
    # the three conventions agree with each other
    if 2 in ref:
        T = gcirc_truth(2, P1[:, 0], P1[:, 1], P2[:, 0], P2[:, 1]).astype(np.float64)
        for u in (1, 0):
            if u in ref:
                fl = _cross_floor(u, P1, P2)
                m = ~np.isnan(ref[2]) & ~np.isnan(ref[u]) & (np.abs(ref[2] - ref[u]) > 2 * REL * T + fl)
                sig = 'gcirc:unit-conventions-disagree:units=%d-vs-2' % u
                idx = np.nonzero(m)[0]
                for i in idx[:3]:
                    acc.violation(sig, {'layer': 'gcirc-units', 'units': u, 'p1': P1[i].tolist(), 'p2': P2[i].tolist()},
                                  '%r rad vs %r rad' % (float(ref[u][i]), float(ref[2][i])))
                if len(idx) > 3:
                    acc.viol_count[sig] += len(idx) - 3
                _bulk(acc, keys * np.uint64(8) + np.uint64(6 + u), ~same, 'gcirc:units=%d-vs-2' % u, {sig: m} if m.any() else {})


def _cross_floor(u, P1, P2):
    """Allowance (rad) when the same points are passed in convention u and in degrees: both floors, plus the rounding
    of the conversion of the coordinates themselves (one more ulp each, contained in the factor GC_K)."""
    out = 0.0
    for un in (2, u):
        a1, d1 = gcirc_inputs(un, P1[:, 0], P1[:, 1])
        a2, d2 = gcirc_inputs(un, P2[:, 0], P2[:, 1])
        out = out + gcirc_floor(un, a1, d1, a2, d2)
    return out


def run_gcirc_mixed(acc, task):
    P1, P2, _same, keys = gcirc_pairs(task['col'], task['nra'], task['ndec'], task['kstep'], task['npa'])
    nb = len(gcirc_bases(task['col'], task['nra'], task['ndec']))
    per = len(P1) // nb
    for j in range(nb):
        p1 = P1[j * per].tolist()
        Q = P2[j * per:(j + 1) * per]
        for units in (2, 1, 0):
            res = {}
            for form in MIXED_FORMS:
                v = gcirc_mixed_check(units, form, p1, Q)
                res[form] = v
                keyd = ('gcirc-mixed', task['col'], j, form, units)
                acc.case(keyd, True, 'ok:gcirc:mixed:%s' % form if not v else 'bad:' + v[0][0])
                for sig, msg in v:
                    acc.violation(sig, {'layer': 'gcirc-mixed', 'units': units, 'form': form, 'p1': p1,
                                        'p2': Q[[0, len(Q) // 2, len(Q) - 1]].tolist()}, msg)


def _case_pts(P, idx):
    return [P[i].tolist() for i in idx]


def run_munu(acc, task):
    P, pairs, triples = _munu_lattice(task['T'])
    npole = np.nonzero(np.abs(P[:, 1]) == 90.0)[0]
    tl = np.arange(0.0, 360.0, 2.5 if task['T'] else 5.0)
    P0 = P
    for stripe in task['stripes']:
        incl = stripe_incl(stripe)
        nt = (incl % 180.0) != 0.0
        P = np.vstack([P0, stripe_pole_points(incl)])
        for route, direction in (('graph', 'icrs->munu'), ('direct', 'icrs->munu'), ('graph', 'munu->icrs'),
                                 ('direct', 'munu->icrs')):
            res, _vals = munu_points_check(stripe, route, 'array', P if direction == 'icrs->munu' else P0, pairs, triples,
                                           direction)
            base = np.uint64((stripe * 4 + (route == 'direct') + 2 * (direction != 'icrs->munu')) << 32)
            if direction != 'icrs->munu':
                P = P0
            kinds = {'point': (np.arange(len(P)), 0), 'pair': (np.arange(len(pairs)), 1), 'triple': (np.arange(len(triples)), 2)}
            fails = {'point': {}, 'pair': {}, 'triple': {}}
            for sig, kind, idx, msg in res:
                if kind == 'all':
                    acc.violation(sig, {'layer': 'munu', 'stripe': stripe, 'route': route, 'form': 'array',
                                        'pts': _case_pts(P, [0]), 'direction': direction}, msg)
                    continue
                m = np.zeros(len(kinds[kind][0]), dtype=bool)
                m[idx] = True
                fails[kind][sig] = m
                for i in idx[:3]:
                    if kind == 'point':
                        pts = _case_pts(P, [i])
                    elif kind == 'pair':
                        pts = _case_pts(P, pairs[i])
                    else:
                        pts = _case_pts(P, triples[i])
                    acc.violation(sig, {'layer': 'munu', 'stripe': stripe, 'route': route, 'form': 'array', 'kind': kind,
                                        'pts': pts, 'direction': direction},
                                  'stripe %d (incl %g): %s' % (stripe, incl, msg))
                if len(idx) > 3:
                    acc.viol_count[sig] += len(idx) - 3
            for kind, (ar, code) in kinds.items():
                k = base + np.uint64(code << 28) + ar.astype(np.uint64)
                _bulk(acc, k, np.full(len(ar), nt), 'munu:%s:%s:%s' % (route, direction, kind), fails[kind])
            if direction != 'icrs->munu':
                continue
            # nu = 0 circle
            cres = circle_check(stripe, route, tl)
            cf = {}
            for sig, _kind, idx, msg in cres:
                m = np.zeros(len(tl), dtype=bool)
                m[idx] = True
                cf[sig] = m
                for i in idx[:3]:
                    acc.violation(sig, {'layer': 'circle', 'stripe': stripe, 'route': route, 't': [float(tl[i])]},
                                  'stripe %d: %s' % (stripe, msg))
                if len(idx) > 3:
                    acc.viol_count[sig] += len(idx) - 3
            _bulk(acc, base + np.uint64(3 << 28) + np.arange(len(tl)).astype(np.uint64), np.full(len(tl), nt),
                  'munu:%s:circle' % route, cf)
        # scalar frames: the poles and two ordinary points
        S = np.array([P[i] for i in npole[:2]] + [(95.0, 0.0), (10.0, 33.0)])
        for ri, route in enumerate(('graph', 'direct')):
            res, _vals = munu_points_check(stripe, route, 'scalar', S, np.array([[2, 3]]), np.zeros((0, 3), dtype=np.int64))
            sf = {}
            for sig, kind, idx, msg in res:
                m = np.zeros(len(S), dtype=bool)
                m[idx if kind == 'point' else [0]] = True
                sf[sig] = m
                for i in idx[:3]:
                    pts = _case_pts(S, [i]) if kind == 'point' else _case_pts(S, [2, 3])
                    acc.violation(sig, {'layer': 'munu', 'stripe': stripe, 'route': route, 'form': 'scalar', 'kind': kind,
                                        'pts': pts}, 'stripe %d (incl %g): %s' % (stripe, incl, msg))
            _bulk(acc, np.uint64((stripe * 4 + ri) << 32) + np.uint64(4 << 28) + np.arange(len(S)).astype(np.uint64),
                  np.full(len(S), nt), 'munu:%s:scalar' % route, sf)
        # coordinate arrays with two dimensions, and one-dimensional arrays in other memory layouts
        S12 = MUNU_SMALL
        pr = np.array([[i, i + 1] for i in range(0, 11)])
        for route in ('graph', 'direct'):
            variants = [(direction, shape, None) for direction in ('icrs->munu', 'munu->icrs')
                        for shape in ((3, 4), (4, 3), (2, 2), (1, 5))]
            variants += [('icrs->munu', (3, 4) if layout == 'fortran' else None, layout) for layout in LAYOUTS]
            for direction, shape, layout in variants:
                npt = int(np.prod(shape)) if shape is not None else len(S12)
                Q = S12[:npt]
                res, _vals = munu_points_check(stripe, route, 'array', Q, pr[pr[:, 1] < npt], np.zeros((0, 3), dtype=np.int64),
                                               direction, shape, layout)
                acc.case(('munu-shape', stripe, route, direction, shape, layout), nt,
                         'ok:munu:%s:%s' % (route, 'shape=%s' % (shape,) if layout is None else 'layout=%s' % layout)
                         if not res else 'bad:' + res[0][0])
                for sig, kind, idx, msg in res:
                    acc.violation(sig, {'layer': 'munu', 'stripe': stripe, 'route': route, 'form': 'array', 'kind': 'pairs',
                                        'pts': Q.tolist(), 'direction': direction, 'shape': shape, 'layout': layout},
                                  'stripe %d (incl %g): %s' % (stripe, incl, msg))


def small_angle_sets(latitude, T):
    """Every run of 1..5 consecutive directions of a generic (non-symmetric) sequence of directions."""
    m = 60 if T else 24
    G = []
    for i in range(m):
        phi = (37.3 * i + 3.1) % 360.0
        th = 11.0 + 157.0 * ((i * 0.6180339887498949) % 1.0)
        G.append((phi, 90.0 - th if latitude else th))
    G = np.array(G, dtype=np.float64)
    return [(n, st, G[st:st + n]) for n in range(1, 6) for st in range(0, m - n + 1)]


def run_angles(acc, task):
    lat = task['latitude']
    AV = axis_vectors()
    sets = [[i] for i in range(len(AV))] + [list(range(len(AV)))] + [[5, 4], [4, 5, 0], [1, 3, 5, 0, 2]]
    for si, idx in enumerate(sets):
        Xs = np.array([AV[i][0] for i in idx], dtype=np.float64)
        res = axis_check(lat, Xs)
        acc.case(('axis', lat, si), True, 'ok:x_to_angles:axis-vectors:%d' % len(idx) if not res else 'bad:' + res[0][0])
        for sig, _i, msg in res:
            acc.violation(sig, {'layer': 'axis', 'latitude': lat, 'x': Xs.tolist()}, msg)
    for n, st, S in small_angle_sets(lat, task['T']):
        res = angles_check(lat, S)
        acc.case(('angles-small', lat, n, st), True, 'ok:angles:%d-points:latitude=%s' % (n, lat) if not res
                 else 'bad:' + res[0][0])
        for sig, _idx, msg in res:
            acc.violation(sig + ':%d-points' % n, {'layer': 'angles', 'latitude': lat, 'a': S.tolist(), 'npoints': n}, msg)
    A = angle_lattice(lat, task['T'])
    for layout in LAYOUTS:
        res = angles_check(lat, A, layout)
        fails = {}
        for sig, idx, msg in res:
            m = np.zeros(len(A), dtype=bool)
            m[idx] = True
            fails[sig] = m
            i0 = int(idx[0])
            acc.violation(sig, {'layer': 'angles', 'latitude': lat, 'layout': layout,
                                'a': A[max(0, i0 - 1):i0 + 2].tolist()}, msg)
            if len(idx) > 1:
                acc.viol_count[sig] += len(idx) - 1
        keys = np.uint64(((2 + LAYOUTS.index(layout)) * 2 + (1 if lat else 0)) << 40) + np.arange(len(A)).astype(np.uint64)
        _bulk(acc, keys, (A[:, 0] % 360.0) != 0.0, 'angles:latitude=%s:layout=%s' % (lat, layout), fails)
    res = angles_check(lat, A)
    fails = {}
    for sig, idx, msg in res:
        m = np.zeros(len(A), dtype=bool)
        m[idx] = True
        fails[sig] = m
        for i in idx[:3]:
            acc.violation(sig, {'layer': 'angles', 'latitude': lat, 'a': [A[i].tolist()]}, msg)
        if len(idx) > 3:
            acc.viol_count[sig] += len(idx) - 3
    keys = np.uint64((1 if lat else 0) << 40) + np.arange(len(A)).astype(np.uint64)
    _bulk(acc, keys, (A[:, 0] % 360.0) != 0.0, 'angles:latitude=%s' % lat, fails)


def run_task(task):
    acc = Acc()
    layer = task['layer']
    if layer == 'angles':
        run_angles(acc, task)
    elif layer == 'gcirc':
        run_gcirc(acc, task)
    elif layer == 'munu':
        run_munu(acc, task)
    elif layer == 'history':
        run_history(acc, task)
    else:
        raise ValueError(layer)
    if not acc.samples:
        acc.sample({'shard': task})
    return acc


# ------------------------------------------------------------------------------------------ replay
def replay(case):
    layer = case['layer']
    if layer == 'history':
        if case['what'] == 'angles_to_x':
            return hist_angles_to_x(case['a'], case['seq'], case['same'])
        if case['what'] == 'x_to_angles':
            return hist_x_to_angles(case['a'], case['seq'], case['same'])
        return hist_gcirc(case['c'], case['seq'], case['same'], case['form'])
    if layer == 'gcirc':
        p1 = np.array([case['p1']], dtype=np.float64)
        p2 = np.array([case['p2']], dtype=np.float64)
        same = np.array([tuple(case['p1']) == tuple(case['p2'])])
        res, _g = gcirc_check(case['units'], case['form'], p1, p2, same)
        return [(s, 'gcirc -> %r / reversed %r, vector formula %r' % tuple(float(x[0]) for x in msgs) if msgs else '')
                for s, _m, msgs in res]
    if layer == 'gcirc-layout':
        res = gcirc_layout_check(case['units'], case['layout'], np.array(case['p1'], dtype=np.float64),
                                 np.array(case['p2'], dtype=np.float64))
        return [(sg, m) for sg, _mask, m in res]
    if layer == 'gcirc-mixed':
        return gcirc_mixed_check(case['units'], case['form'], case['p1'], case['p2'])
    if layer == 'gcirc-units':
        p1 = np.array([case['p1']], dtype=np.float64)
        p2 = np.array([case['p2']], dtype=np.float64)
        same = np.array([False])
        out = []
        g = {}
        for u in (2, case['units']):
            _res, g[u] = gcirc_check(u, 'array', p1, p2, same)
        T = float(gcirc_truth(2, p1[:, 0], p1[:, 1], p2[:, 0], p2[:, 1])[0])
        if abs(g[2][0] - g[case['units']][0]) > 2 * REL * T + _cross_floor(case['units'], p1, p2)[0]:
            out.append(('gcirc:unit-conventions-disagree:units=%d-vs-2' % case['units'], '%r vs %r rad'
                        % (float(g[case['units']][0]), float(g[2][0]))))
        return out
    if layer == 'munu':
        P = np.array(case['pts'], dtype=np.float64)
        kind = case.get('kind', 'point')
        pairs = np.array([[0, 1]]) if kind == 'pair' else np.zeros((0, 2), dtype=np.int64)
        if kind == 'pairs':
            pairs = np.array([[i, i + 1] for i in range(len(P) - 1)])
        triples = np.array([[0, 1, 2]]) if kind == 'triple' else np.zeros((0, 3), dtype=np.int64)
        res, _v = munu_points_check(case['stripe'], case['route'], case['form'], P, pairs, triples,
                                    case.get('direction', 'icrs->munu'), case.get('shape'), case.get('layout'))
        return [(s, m) for s, _k, _i, m in res]
    if layer == 'circle':
        return [(s, m) for s, _k, _i, m in circle_check(case['stripe'], case['route'], case['t'])]
    if layer == 'axis':
        return [(sg, m) for sg, _i, m in axis_check(case['latitude'], case['x'])]
    if layer == 'angles':
        suffix = ':%d-points' % case['npoints'] if 'npoints' in case else ''
        return [(s + suffix, m) for s, _i, m in angles_check(case['latitude'], np.array(case['a'], dtype=np.float64),
                                                               case.get('layout'))]
    raise ValueError('unknown layer %r' % layer)
