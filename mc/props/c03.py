"""C03 — yanny: object and file never diverge over write/append histories.

Explicit-state search: a state is the operation history that reaches it; every transition is executed on
fresh real objects in a fresh directory (the history is replayed), in lock-step with a reference model."""
import collections
import copy
import hashlib
import os
import warnings

import numpy as np

from mc.core import Acc
from mc.props import _yanny as Y
from mc.props import c02
from pydl.pydlutils import PydlutilsException, PydlutilsUserWarning
from pydl.pydlutils.yanny import yanny

PROP = 'C03'
LEVEL = 'model_checking'
ENGINE = 'E2'
TECHNIQUE = 'model checking: explicit-state breadth-first search over all operation histories up to a depth, each history replayed on the real yanny class in lock-step with a reference model, canonical-state deduplication'
LEVEL_TEXT = ('all histories of <=3 (quick) / <=5 (thorough) operations from a menu of ~20 write/append/re-read/refusal operations, from 6 initial states '
              '(3 table sets x normal/raw), explored breadth-first with deduplication on a canonical state; after every transition object == reference model == fresh read of the file, '
              'append preserves the old bytes as a prefix, refused operations raise the documented exception and change nothing')
LEVEL_NOTE = ('bounded depth; one process, no concurrent writers or I/O faults; state merging assumes every operation reads only (file bytes, object filename, contents, tables, pairs, raw), '
              'which is what the canonical state contains; trusted: the reference model in mc/props/c03.py and the comparison code shared with C02')
RULE = ('BFS over histories: initial states x operation menu, depth-bounded; a state is expanded once per shard (canonical hash of all file bytes + object fields). '
        'evaluations = transitions executed (each by replaying its whole history on fresh real objects); distinct_nontrivial = distinct canonical successor states.')
ASSUMPTIONS = ['one append adds one new keyword or two at once, the two given in an order that is not the sorted one; the array column of the second table is long[2] with values above 2^53 and at +-2^63', 'a second pre-existing file with the same table/column names but different column types can be opened at any point (operation open)', 'wall clock replaced by a fixed clock (timestamps in comments are not part of the property)',
               'appended pairs use new keywords (fresh upper-case ones and lower-case siblings of existing upper-case ones); a zero-length file is among the pre-existing files; appended rows come from a per-table menu indexed by the current row count']
MIN_OUTCOMES = 4

DEPTH = {'quick': 3, 'thorough': 5}

# ------------------------------------------------------------------ initial states
TAB1 = {'name': 'TAB1', 'cols': [['i', 'int'], ['x', 'double'], ['s', 'char[8]'], ['u', 'char[]']]}
TAB2 = {'name': 'tab2', 'cols': [['name', 'char[8]'], ['arr', 'long[2]'], ['tags', 'char[2][4]']]}
ROWMENU = {
    'TAB1': [[1, 0.5, 'a', 'u'], [-2147483648, 0.1, 'a b', 'uu'], [7, 1.0 / 3.0, '', 'u u u'], [0, -0.0, '#', 'uuuuuu'],
             [2147483647, 1e300, 'a#b', 'u#uuuuu'], [5, 2.5, "it's", 'uuuuuuuuu'], [6, -1.5, 'a\x0cb', ''],
             [8, 4.0, 'x\\y', 'uuuuuuuuuuu']],
    'TAB2': [['n0', [1, 2], ['ab', 'cd']], ['a b', [-1, 1237648720693755918], ['', 'x y']], ['', [9223372036854775807, -9223372036854775808], ['a#b', 'q']],
             ['#', [3, 4], ['e', '']], ['trail ', [5, 6], ['it', 'is']], [' lead', [7, 8], ['a;b', 'zz']],
             ['z', [9, 10], ['u', 'v']], ['y', [11, 12], ['w', 'x']]],
}
TAB1_O = {'name': 'TAB1', 'menu': 'TAB1_O', 'cols': [['i', 'long'], ['x', 'float[2]'], ['s', 'char[2][4]'], ['u', 'char[8]']]}
TAB2_O = {'name': 'tab2', 'menu': 'TAB2_O', 'cols': [['name', 'int'], ['arr', 'double'], ['tags', 'char[6]']]}
ROWMENU['TAB1_O'] = [[9223372036854775807, [0.5, -1.5], ['ab', 'c d'], 'w'], [-5, [0.1, 2.5], ['', 'x'], 'a b'], [6, [1.0, 2.0], ['q', 'r'], ''],
                     [7, [3.0, 4.0], ['s', 't'], '#'], [8, [5.0, 6.0], ['u', 'v'], 'zz']]
ROWMENU['TAB2_O'] = [[3, 0.25, 'ab'], [-4, 1.0 / 3.0, 'c d'], [5, 1e300, ''], [6, -0.0, 'a#b'], [7, 2.5, 'x']]
OTHER = 'other.par'
EMPTY = 'empty.par'     # a pre-existing file of length zero: it exists, so a write onto it must be refused like any other
INITS = [
    {'structs': [TAB1], 'nrows': [1], 'pairs': [], 'other': [TAB1_O]},
    {'structs': [TAB2], 'nrows': [1], 'pairs': [], 'other': [TAB2_O]},
    {'structs': [TAB1, TAB2], 'nrows': [1, 0], 'pairs': [['MJD', '54579'], ['alpha', 'beta gamma']], 'other': [TAB1_O, TAB2_O]},
    # the same content as the first, but the pre-existing file has CRLF line ends (byte-for-byte preservation of earlier lines)
    {'structs': [TAB1], 'nrows': [1], 'pairs': [['mjd', '54579']], 'other': [TAB1_O], 'eol': '\r\n'},
]
F0 = 'orig.par'
CANON_LAYOUT = {'eol': '\n', 'cmt': 'header', 'trail': False, 'blank': 'blocks', 'sep': 'one', 'cont': 'none', 'sstyle': 'bare',
                'arr': '[]', 'case': 'upper', 'inter': 'grouped', 'chan': 'path', 'raw': False}


def ops_menu(nt):
    ops = [['write', 'A.par'], ['write', 'B.par'], ['write', None], ['write', F0], ['write', EMPTY], ['append_pairs'], ['append_pairs', 2], ['append_empty'],
           ['rebind_missing'], ['re_read'], ['open', OTHER], ['open', F0]]
    for t in range(nt):
        for form in ('lists', 'recarray'):
            for key in ('upper', 'lower'):
                for n in (1, 2):
                    ops.append(['append_rows', t, form, key, n])
        for key in ('upper', 'lower'):
            ops.append(['append_rows_pairs', t, key])
        ops.append(['append_zero', t])
    return ops


# ------------------------------------------------------------------ reference model
def _menu(s):
    return ROWMENU[s.get('menu', s['name'].upper())]


class Model:
    """Object content (structs, pairs, rows), the file it is bound to, and the logical content of every file."""

    def __init__(self, init, raw):
        self.raw = raw
        self.structs = init['structs']
        self.pairs = [list(p) for p in init['pairs']]
        self.rows = [[_menu(s)[k] for k in range(n)] for s, n in zip(self.structs, init['nrows'])]
        self.filename = F0
        self.files = {F0: self.snapshot()}
        # a second, pre-existing file: same table and column names, different column types
        self.files[OTHER] = {'structs': init['other'], 'pairs': [['note', 'other file']],
                             'rows': [[_menu(s)[0]] for s in init['other']]}
        self.files[EMPTY] = None       # exists, no logical content

    def snapshot(self):
        return {'structs': self.structs, 'pairs': copy.deepcopy(self.pairs), 'rows': copy.deepcopy(self.rows)}

    def doc(self, snap=None):
        snap = snap or self.snapshot()
        return {'id': 'model', 'pairs': snap['pairs'], 'enums': [], 'structs': snap['structs'],
                'rows': [[ti, r] for ti, rows in enumerate(snap['rows']) for r in rows]}

    def next_rows(self, t, n):
        menu = _menu(self.structs[t])
        k = len(self.rows[t])
        return [menu[(k + j) % len(menu)] for j in range(n)]

    def next_pair(self):
        # a NEW keyword each time (keywords are case-sensitive): the lower-case sibling of an upper-case keyword that has
        # none yet, else a fresh upper-case keyword - so new keywords collide with existing ones under case folding
        n = len(self.pairs)
        have = [k for k, v in self.pairs]
        sib = [k.lower() for k in have if k.isupper() and k.lower() not in have]
        return [sib[0] if sib else 'KEY%d' % n, ['value %d' % n, 54580 + n, n + 0.5][n % 3]]      # str, int and float values

    def next_pairs(self, op):
        # ['append_pairs', 2]: two new keywords in ONE append, given in an order that is not the sorted one
        first = self.next_pair()
        if op[0] == 'append_pairs' and len(op) > 1 and op[1] == 2:
            return [first, ['AA%d' % len(self.pairs), 7000 + len(self.pairs)]]
        return [first]

    def apply(self, op):
        """Return expected result class: 'ok', 'refused:<Exc>', 'warned'."""
        kind = op[0]
        if kind == 'write':
            target = op[1] if op[1] is not None else self.filename
            if target in self.files:
                return 'refused:PydlutilsException'
            self.files[target] = self.snapshot()
            self.filename = target
            return 'ok'
        if kind in ('append_rows', 'append_pairs', 'append_rows_pairs'):
            if self.filename not in self.files:
                return 'refused:PydlutilsException'
            if kind in ('append_pairs', 'append_rows_pairs'):
                for k, v in self.next_pairs(op):
                    self.pairs.append([k, str(v)])
            if kind != 'append_pairs':
                t = op[1]
                n = op[4] if kind == 'append_rows' else 1
                self.rows[t].extend(self.next_rows(t, n))
            self.files[self.filename] = self.snapshot()
            return 'ok'
        if kind in ('append_empty', 'append_zero'):
            return 'warned'
        if kind == 'rebind_missing':
            self.filename = 'missing.par'
            return 'ok'
        if kind == 're_read':
            return 'ok'
        if kind == 'open':
            snap = self.files[op[1]]
            self.structs = snap['structs']
            self.pairs = copy.deepcopy(snap['pairs'])
            self.rows = copy.deepcopy(snap['rows'])
            self.filename = op[1]
            return 'ok'
        raise ValueError(op)

    def enabled(self, op):
        if op[0] == 'rebind_missing':
            return 'missing.par' not in self.files and self.filename != 'missing.par'
        if op[0] == 're_read':
            return self.filename in self.files
        if op[0] == 'open':
            return op[1] in self.files and op[1] != self.filename
        return True


# ------------------------------------------------------------------ implementation side
class World:
    def __init__(self, init, raw, d):
        self.d = d
        self.model = Model(init, raw)
        text = c02.render(self.model.doc(), dict(CANON_LAYOUT, eol=init.get('eol', '\n')))
        with open(os.path.join(d, F0), 'wb') as f:
            f.write(text.encode('ascii'))
        with open(os.path.join(d, OTHER), 'w') as f:
            f.write(c02.render(self.model.doc(self.model.files[OTHER]), CANON_LAYOUT))
        open(os.path.join(d, EMPTY), 'w').close()
        self.y = yanny(os.path.join(d, F0), raw=raw)
        self.raw = raw

    def files(self):
        out = {}
        for n in sorted(os.listdir(self.d)):
            with open(os.path.join(self.d, n), 'rb') as f:
                out[n] = f.read()
        return out

    def data_for(self, op):
        m = self.model
        kind = op[0]
        data = collections.OrderedDict()
        if kind in ('append_pairs', 'append_rows_pairs'):
            for k, v in m.next_pairs(op):
                data[k] = v
        if kind in ('append_rows', 'append_rows_pairs', 'append_zero'):
            t = op[1]
            s = m.structs[t]
            form, key, n = (op[2], op[3], op[4]) if kind == 'append_rows' else ('lists', op[2] if kind == 'append_rows_pairs' else 'upper', 1)
            rows = m.next_rows(t, n) if kind != 'append_zero' else []
            name = s['name'].upper() if key == 'upper' else s['name'].lower()
            if form == 'lists':
                data[name] = {cn: [r[ci] for r in rows] for ci, (cn, ct) in enumerate(s['cols'])}
            else:
                dt = []
                for cn, ct in s['cols']:
                    base = {'int': 'i4', 'long': 'i8', 'double': 'f8', 'float': 'f4', 'char': 'S8'}[ct.split('[')[0]]
                    if ct.startswith('char'):
                        base = 'S' + (ct[ct.rfind('[') + 1:ct.rfind(']')] or '16')
                        dt.append((cn, base, (2,)) if ct.count('[') == 2 else (cn, base))
                    else:
                        dt.append((cn, base, (2,)) if '[' in ct else (cn, base))
                arr = np.zeros((len(rows),), dtype=dt)
                for i, r in enumerate(rows):
                    for ci, (cn, ct) in enumerate(s['cols']):
                        v = r[ci]
                        if ct.startswith('char'):
                            v = [x.encode() for x in v] if isinstance(v, list) else v.encode()
                        arr[cn][i] = v
                data[name] = arr.view(np.recarray)
        return data

    def apply(self, op, data):
        """Apply op to the real object; return ('ok'|'refused:<Exc>'|'warned'|'raised:<Exc>')."""
        kind = op[0]
        try:
            with warnings.catch_warnings(record=True) as w:
                warnings.simplefilter('always')
                if kind == 'write':
                    if op[1] is None:
                        self.y.write()
                    else:
                        self.y.write(os.path.join(self.d, op[1]))
                elif kind == 'rebind_missing':
                    self.y.filename = os.path.join(self.d, 'missing.par')
                elif kind == 're_read':
                    self.y = yanny(self.y.filename, raw=self.raw)
                elif kind == 'open':
                    self.y = yanny(os.path.join(self.d, op[1]), raw=self.raw)
                else:
                    self.y.append(data)
            if any(issubclass(x.category, PydlutilsUserWarning) for x in w):
                return 'warned'
            return 'ok'
        except PydlutilsException:
            return 'refused:PydlutilsException'
        except Exception as e:
            return 'raised:' + type(e).__name__

    def canon(self):
        h = hashlib.blake2b(digest_size=8)
        for n, b in self.files().items():
            h.update(n.encode() + b'\0' + b + b'\1')
        y = self.y
        h.update(os.path.basename(y.filename).encode() + b'\2' + str(y).encode() + b'\3' + str(y.raw).encode())
        h.update(repr(list(y.pairs())).encode() + repr([y[k] for k in y.pairs()]).encode())
        for t in y.tables():
            tab = y[t]
            if isinstance(tab, np.ndarray):
                h.update(repr(tab.dtype).encode() + tab.tobytes())
            else:
                h.update(repr(tab).encode())
        return int.from_bytes(h.digest(), 'little')


def obj_snapshot(y):
    snap = [os.path.basename(y.filename), str(y), list(y.pairs()), [repr(y[k]) for k in y.pairs()], list(y.tables())]
    for t in y.tables():
        tab = y[t]
        snap.append((repr(tab.dtype), tab.tobytes()) if isinstance(tab, np.ndarray) else repr(tab))
    return snap


def step_and_check(world, op):
    """Execute one transition on implementation and model; return (result label, list of (sig, msg))."""
    bad = []
    m = world.model
    files_before = world.files()
    obj_before = obj_snapshot(world.y)
    target_before = os.path.basename(world.y.filename)
    data = world.data_for(op)      # computed from the model state BEFORE the model advances
    exp = m.apply(op)
    got = world.apply(op, data)
    kind = op[0]
    if got != exp:
        bad.append(('%s:result' % kind, 'expected %s got %s' % (exp, got)))
        return got, bad
    files_after = world.files()
    # files: existence set, untouched files, prefix preservation
    if sorted(files_after) != sorted(m.files):
        bad.append(('%s:file-set' % kind, 'files %s, model %s' % (sorted(files_after), sorted(m.files))))
        return got, bad
    for n, b in files_before.items():
        a = files_after.get(n)
        if kind.startswith('append') and exp == 'ok' and n == target_before:
            if not (a.startswith(b) and len(a) > len(b)):
                bad.append(('%s:earlier-bytes-not-preserved' % kind, 'file %s' % n))
        elif a != b:
            bad.append(('%s:other-file-changed' % kind, 'file %s changed (result %s)' % (n, exp)))
    if exp != 'ok' and kind not in ('re_read', 'open'):
        if obj_snapshot(world.y) != obj_before:
            bad.append(('%s:object-changed-by-%s' % (kind, exp.split(':')[0]), ''))
    # object == model
    if os.path.basename(world.y.filename) != m.filename:
        bad.append(('%s:filename' % kind, 'object bound to %s, model %s' % (world.y.filename, m.filename)))
    for s, msg in c02.compare(m.doc(), world.y, world.raw):
        bad.append(('%s:object-vs-model:%s' % (kind, s), msg))
    # fresh read of every file == its logical content in the model
    for n, snap in m.files.items():
        if snap is None:
            continue        # the zero-length file: its bytes are compared above, it has no content to read
        try:
            fresh = yanny(os.path.join(world.d, n), raw=world.raw)
        except Exception as e:
            bad.append(('%s:fresh-read:exception:%s' % (kind, type(e).__name__), 'file %s: %r' % (n, e)))
            continue
        for s, msg in c02.compare(m.doc(snap), fresh, world.raw):
            bad.append(('%s:fresh-read-vs-model:%s' % (kind, s), 'file %s: %s' % (n, msg)))
    return got, bad


def build(init_idx, raw, history, d):
    """Fresh world, history replayed WITHOUT checks (they were checked when first explored)."""
    for n in os.listdir(d):
        os.remove(os.path.join(d, n))
    w = World(INITS[init_idx], raw, d)
    for op in history:
        data = w.data_for(op)
        w.model.apply(op)
        w.apply(op, data)
    return w


# ------------------------------------------------------------------ exploration
PREFIX = 2   # the parent enumerates all distinct states at this depth; each becomes a shard


def _bfs(acc, ii, raw, start, levels, d, check):
    """Breadth-first from the state reached by history `start`, `levels` more levels. Returns frontier histories."""
    menu = ops_menu(len(INITS[ii]['structs']))
    root = build(ii, raw, start, d)
    seen = {build(ii, raw, [], d).canon(), root.canon()}
    frontier = [list(start)]
    for _ in range(levels):
        nxt = []
        for hist in frontier:
            probe = build(ii, raw, hist, d)
            for op in menu:
                if not probe.model.enabled(op):
                    continue
                w = build(ii, raw, hist, d)
                if check:
                    _transition(acc, w, ii, raw, hist, op)
                else:
                    data = w.data_for(op)
                    w.model.apply(op)
                    w.apply(op, data)
                c = w.canon()
                if c not in seen:
                    seen.add(c)
                    nxt.append(hist + [op])
        frontier = nxt
    return frontier


_task_cache = {}


def tasks(tier):
    if tier in _task_cache:
        return _task_cache[tier]
    Y.fix_clock()
    depth = DEPTH[tier]
    t = []
    with Y.TempDir() as d:
        for ii in range(len(INITS)):
            for raw in (False, True):
                t.append({'init': ii, 'raw': raw, 'hist': [], 'levels': min(PREFIX, depth)})
                if depth > PREFIX:
                    for h in _bfs(None, ii, raw, [], PREFIX, d, check=False):
                        t.append({'init': ii, 'raw': raw, 'hist': h, 'levels': depth - PREFIX})
    _task_cache[tier] = t
    return t


def run_task(task):
    Y.fix_clock()
    acc = Acc()
    with Y.TempDir() as d:
        _bfs(acc, task['init'], task['raw'], task['hist'], task['levels'], d, check=True)
    return acc


def _transition(acc, w, ii, raw, hist, op):
    got, bad = step_and_check(w, op)
    case = {'init': ii, 'raw': raw, 'history': hist + [op]}
    acc.case(w.canon(), True, 'bad:' + bad[0][0] if bad else '%s:%s' % (op[0], got), sample=case)
    acc.extra['transitions'] += 1
    acc.extra['traces_validated_against_impl'] += 1
    for sig, msg in bad:
        acc.violation(sig, case, msg)


def finish(tier, cov):
    return {'states': cov['distinct_nontrivial'], 'max_depth': DEPTH[tier],
            'initial_states': 2 * len(INITS), 'operations_in_menu': len(ops_menu(2))}


def replay(case):
    Y.fix_clock()
    with Y.TempDir() as d:
        hist = case['history']
        w = build(case['init'], case['raw'], hist[:-1], d)
        got, bad = step_and_check(w, hist[-1])
        return bad
