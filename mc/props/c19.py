"""C19 - wavelength (air/vacuum), photometric-system (sdssflux2ab) and band-flux (filter_thru) conversions.

Bounded-exhaustive product enumeration; all clauses are relations between outputs of the functions under
test for related inputs (identity below 2000 A, strict ordering above, mutual inverse, form/unit invariance,
input untouched; one AB offset per band in three forms; filter_thru = non-negative response-weighted mean).
"""
import itertools
import os

import numpy as np

from mc.core import Acc

PROP = 'C19'
LEVEL = 'exploration'
ENGINE = 'E1'
TECHNIQUE = 'model checking: bounded-exhaustive product enumeration of wavelengths x input forms x units, 5-band rows, and flux/wavelength-solution/mask menus, with relational oracles'
LEVEL_TEXT = ('every case of the finite menus (wavelength lattice 100 A..30 um x 20 scalar/array/Quantity forms x 2 directions; '
              '{0.5,1,20}^5 band rows x 3 modes; filter_thru impulse-comb pairs x wavelength solutions x dtypes x masks) was executed '
              'against the real functions and every stated relation compared; no case of the bound is sampled or skipped except the counted don\'t-care bands')
LEVEL_NOTE = ('relations only: the absolute value of the refractive index, of the AB offsets and of the filter response are not asserted; '
              'float32 forms are held to 1e-6 relative (their own resolution) instead of 1e-6 A; wavelengths within 1e-6 A of the 2000 A '
              'threshold are don\'t-care when a unit conversion or float32 rounding sits between the menu value and the comparison')
RULE = ('air/vac: every menu wavelength (log lattice 100 A..30 um plus threshold neighbours) x every scalar form (float, int, np.float64, '
        'np.float32, 0-d array, scalar Quantity in A/nm/um/m) and every menu block as array (1-D, reversed, 2-D, strided view, float32, int64, '
        'Quantity A/nm/um; memory layouts: Fortran-ordered 2-D/3-D, transposed and non-contiguous transposed views, 2-D strided view, big-endian, '
        'read-only, Fortran-ordered float32 and Quantity) x {airtovac, vactoair}; non-trivial = at least one element >= 2000 A (a conversion happens). '
        'sdssflux2ab: every single row of {0.5,1,20}^5, every ordered pair of rows of a sub-menu and rotated stacks of 3..6 rows (these also in 6 memory layouts) x {flux, magnitude, ivar} x {f8,f4}; '
        'non-trivial = row not constant across bands or more than one row. '
        'filter_thru: every unordered pair of comb impulses x coefficient menu x (wavelength solution, image/trace-set form, dtype, toair, mask) '
        '(solutions include wing3: traces reaching only 3-6 pixels into a band wing, summed weight ~1e-6 of the band), a reduced relation set in 5 memory layouts of flux/waveimg/mask, '
        'every single masked run of 1..10 pixels starting on the comb x wild values, and 14 mask flag conventions (bool, 0/1, bitmasks, uint8, int64, -1, int32 bit 31, mixed-sign flags summing to zero, float masks) x 5 runs; non-trivial = at least one band overlapped by the trace. '
        'Distinct = distinct (function, input, form/configuration) tuples.')
ASSUMPTIONS = ['solution ends3: three traces with identical first and last wavelength and different dispersion; for one linear-combination case per adjacent comb pair every trace is also evaluated alone and must give the same answer as in the joint call', 'every trace passed to filter_thru keeps at least one unmasked pixel (with none the answer is undefined; the code then integrates the masked values)',
               'float64 forms: inverse relations to 1e-6 A as stated; agreement between forms to 1e-12 relative (unit-conversion rounding)',
               'float32 forms are compared at 1e-6 relative; a float32 cannot hold 1e-6 A at 5000 A',
               'filter_thru clauses are evaluated only in bands that at least one pixel of the trace overlaps by more than 5 A inside the '
               'tabulated support and the trace\'s summed weight in the band (lower bound) exceeds 1e-8 of the whole band; thinner or edge-grazing overlaps are counted don\'t-care; in bands without overlap no value is demanded',
               'filter_thru tolerance 1e-9 x (sum of |coefficients|) for float64 flux, 2e-5 for float32 flux',
               'a pixel whose wavelength lies more than 5 A outside the tabulated support of a band must get zero weight in that band',
               'lists and other non-array sequences are outside the claim (float, array and Quantity input only)']

UNIT_FAC = {'AA': 1.0, 'nm': 10.0, 'um': 1.0e4, 'm': 1.0e10}      # Angstrom per unit
SCALAR_FORMS = ['float', 'int', 'f64', 'f32', 'arr0', 'q:AA', 'q:nm', 'q:um', 'q:m']
ARRAY_FORMS = ['a1', 'a1rev', 'a2', 'astride', 'a1f32', 'a1int', 'aq:AA', 'aq:nm', 'aq:um', 'aq2:nm', 'a1len1',
               # memory layouts: Fortran order, transposed / strided 2-D views, 3-D Fortran, big-endian, read-only
               'a2F', 'a2T', 'a2Tnc', 'a2stride', 'a3F', 'abig', 'a2Fbig', 'aro', 'a2Fro', 'a2Ff32', 'aqF:AA', 'aqF:nm', 'aqT:um']
THRESH = 2000.0
BAND = 1.0e-6


# ------------------------------------------------------------------ air / vacuum
def wave_menu(n):
    """n log-spaced wavelengths 100 A .. 30 um plus threshold neighbours and round numbers (Angstrom)."""
    lat = [100.0 * 3000.0 ** (k / float(n - 1)) for k in range(n)]
    lat[-1] = 300000.0
    sp = [100.0, 1500.0, 1999.0, 1999.999, float(np.nextafter(2000.0, 0.0)), 2000.0 - 1e-6, 2000.0,
          2000.0 + 1e-6, float(np.nextafter(2000.0, 3000.0)), 2000.001, 2000.3, 2000.64, 2000.66, 2001.0,
          3000.0, 5000.0, 10000.0, 300000.0]
    return sorted(set(lat + sp))


def _unit(name):
    import astropy.units as u
    return {'AA': u.AA, 'nm': u.nm, 'um': u.um, 'm': u.m}[name]


def build_input(form, wl):
    """wl: list of wavelengths in Angstrom (or a single float for scalar forms).
    Returns (x, W, fac, rel) : the object to pass, the physical wavelengths in A as float64 array shaped like x,
    Angstrom per output unit, relative tolerance of the form; or None if the form does not apply."""
    import astropy.units as u
    if form in SCALAR_FORMS:
        w = float(wl)
        if form == 'float':
            return w, np.float64(w), 1.0, 0.0
        if form == 'int':
            if w != int(w):
                return None
            return int(w), np.float64(w), 1.0, 0.0
        if form == 'f64':
            return np.float64(w), np.float64(w), 1.0, 0.0
        if form == 'f32':
            x = np.float32(w)
            return x, np.float64(x), 1.0, 1e-6
        if form == 'arr0':
            return np.array(w), np.float64(w), 1.0, 0.0
        un = form.split(':')[1]
        fac = UNIT_FAC[un]
        return u.Quantity(w / fac, _unit(un)), np.float64(w), fac, 1e-12
    w = np.array(wl, dtype=np.float64)
    if form == 'a1':
        return w.copy(), w, 1.0, 0.0
    if form == 'a1len1':
        return w[:1].copy(), w[:1], 1.0, 0.0
    if form == 'a1rev':
        return w[::-1].copy(), w[::-1].copy(), 1.0, 0.0
    if form == 'a2':
        if len(w) % 2:
            w = w[:-1]
        return w.reshape(2, -1).copy(), w.reshape(2, -1), 1.0, 0.0
    if form == 'astride':
        big = np.zeros(2 * len(w))
        big[::2] = w
        big[1::2] = 77.0
        return big[::2], w, 1.0, 0.0
    if form == 'a1f32':
        x = w.astype(np.float32)
        return x, x.astype(np.float64), 1.0, 1e-6
    if form == 'a1int':
        x = np.round(w).astype(np.int64)
        return x, x.astype(np.float64), 1.0, 0.0
    if form in ('a2F', 'a2T', 'a2Tnc', 'a2stride', 'a3F', 'abig', 'a2Fbig', 'aro', 'a2Fro', 'a2Ff32') or form.startswith(('aqF', 'aqT')):
        w = w[:len(w) - len(w) % 4]
        if len(w) < 4:
            return None
        fac, rel, un = 1.0, 0.0, None
        if form.startswith('aq'):
            un = form.split(':')[1]
            fac, rel = UNIT_FAC[un], 1e-12
        if form in ('a2F', 'a2Fbig', 'a2Fro', 'a2Ff32', 'aqF:AA', 'aqF:nm'):
            W = w.reshape(2, -1)
            x = np.asfortranarray(W / fac)
        elif form in ('a2T', 'aqT:um'):
            W = w.reshape(-1, 2).T
            x = (w.reshape(-1, 2) / fac).copy().T                 # transposed view of a C array (Fortran-contiguous)
        elif form == 'a2Tnc':
            base = np.full((len(w) // 2, 4), 77.0)
            base[:, :2] = w.reshape(-1, 2)
            W = w.reshape(-1, 2).T
            x = base[:, :2].T                                      # transposed + strided view: not contiguous at all
        elif form == 'a2stride':
            base = np.full((4, len(w) // 2 * 3), 77.0)
            base[::2, ::3] = w.reshape(2, -1)
            W = w.reshape(2, -1)
            x = base[::2, ::3]
        elif form == 'a3F':
            W = w.reshape(2, 2, -1)
            x = np.asfortranarray(W)
        else:
            W = w
            x = w.copy()
        if form in ('abig', 'a2Fbig'):
            x = x.astype('>f8')                                    # astype keeps the memory order ('K')
        if form == 'a2Ff32':
            x = x.astype(np.float32)
            W = x.astype(np.float64)
            rel = 1e-6
        if form in ('aro', 'a2Fro'):
            x.setflags(write=False)
        if un is not None:
            x = u.Quantity(x, _unit(un), copy=False)
        if form in ('a2F', 'a2Fbig', 'a2Fro', 'a2Ff32', 'a3F', 'aqF:AA', 'aqF:nm', 'a2T', 'aqT:um'):
            v = x.value if un is not None else x
            assert v.flags.f_contiguous and not v.flags.c_contiguous, form
        return x, np.array(W, dtype=np.float64), fac, rel
    if form.startswith('aq'):
        un = form.split(':')[1]
        fac = UNIT_FAC[un]
        if form.startswith('aq2'):
            if len(w) % 2:
                w = w[:-1]
            w = w.reshape(-1, 2)
        return u.Quantity(w / fac, _unit(un)), w, fac, 1e-12
    raise ValueError(form)


def _snapshot(x):
    if hasattr(x, 'unit'):
        return (str(x.unit), np.asarray(x.value).tobytes(), np.asarray(x.value).shape)
    if hasattr(x, 'dtype'):
        return (str(x.dtype), np.asarray(x).tobytes(), np.asarray(x).shape)
    return repr(x)


def _phys(y, fac):
    if hasattr(y, 'unit'):
        return np.asarray(y.value, dtype=np.float64) * fac
    return np.asarray(y, dtype=np.float64)


def _is0d(x):
    return hasattr(x, 'dtype') and np.ndim(x) == 0


def check_av(case):
    """case: {'f':'av','fn':'airtovac'|'vactoair','form':..., 'wl': float | [floats]} -> (bad, outcome, nontrivial, skipped)"""
    from pydl.goddard import astro
    fname = case['fn']
    fn = getattr(astro, fname)
    inv = getattr(astro, 'vactoair' if fname == 'airtovac' else 'airtovac')
    invname = inv.__name__
    form = case['form']
    b = build_input(form, case['wl'])
    if b is None:
        return [], 'n/a', False, 'form-not-applicable'
    x, W, fac, rel = b
    exact_units = (fac == 1.0 and rel == 0.0)
    near = np.abs(W - THRESH) < BAND
    if not exact_units and np.any(near & (W != THRESH)) or (not exact_units and fac != 1.0 and np.any(near)):
        return [], 'skip', False, 'dont-care:threshold-within-1e-6A-under-unit-or-f32-rounding'
    bad = []
    snap = _snapshot(x)
    try:
        y = fn(x)
    except Exception as e:
        trig = '0-d>=2000' if (_is0d(x) and np.any(W >= THRESH)) else form
        return [('%s:exception:%s:%s' % (fname, type(e).__name__, trig), repr(e))], 'exc', True, None
    if _snapshot(x) != snap:
        bad.append(('%s:input-modified' % fname, 'form %s' % form))
    # ---- answer in the caller's unit / shape
    if hasattr(x, 'unit'):
        if not hasattr(y, 'unit') or y.unit != x.unit:
            bad.append(('%s:unit-not-callers' % fname, 'in %s out %r' % (x.unit, getattr(y, 'unit', None))))
            return bad, 'bad', True, None
    elif hasattr(y, 'unit'):
        bad.append(('%s:unit-not-callers' % fname, 'plain input, Quantity output'))
        return bad, 'bad', True, None
    if np.shape(y) != np.shape(x):
        bad.append(('%s:shape' % fname, 'in %s out %s' % (np.shape(x), np.shape(y))))
        return bad, 'bad', True, None
    Y = _phys(y, fac)
    tol_form = rel * np.abs(W)
    below = W < THRESH
    above = W > THRESH
    # ---- below 2000 A: unchanged
    if np.any(below):
        if exact_units:
            ok = Y[below] == W[below] if Y.ndim else (Y == W)
        else:
            ok = np.abs(Y - W)[below] <= tol_form[below] if Y.ndim else np.abs(Y - W) <= tol_form
        if not np.all(ok):
            bad.append(('%s:below2000-changed' % fname, 'W=%s Y=%s' % (W[below].ravel()[:3] if W.ndim else W, Y[below].ravel()[:3] if Y.ndim else Y)))
    # ---- above: vacuum > air
    if np.any(above):
        gt = (Y > W) if fname == 'airtovac' else (Y < W)
        if not np.all(gt[above] if Y.ndim else gt):
            bad.append(('%s:vacuum-not-greater-than-air' % fname, 'W=%s Y=%s' % (np.ravel(W)[:3], np.ravel(Y)[:3])))
    # ---- same physical result as the plain-float form
    if form != 'float':
        ref = np.array([fn(float(v)) for v in np.ravel(W)], dtype=np.float64).reshape(np.shape(W))
        if not np.all(np.abs(Y - ref) <= np.maximum(rel, 1e-12) * np.abs(ref)):
            i = int(np.argmax(np.abs(np.ravel(Y) - np.ravel(ref))))
            bad.append(('%s:form-mismatch:%s' % (fname, form.split(':')[0]),
                        'W=%r float form %r this form %r' % (np.ravel(W)[i], np.ravel(ref)[i], np.ravel(Y)[i])))
    # ---- inverse relation
    if fname == 'airtovac':
        dom = W >= THRESH
        dc = np.zeros(np.shape(W), dtype=bool)
    else:
        dom = (W >= THRESH) & (Y >= THRESH)
        dc = (W >= THRESH) & (np.abs(Y - THRESH) < BAND)
        dom = dom & ~dc
    n_dc = int(np.sum(dc))
    excluded = int(np.sum((W >= THRESH) & ~dom & ~dc))
    if np.any(dom):
        snap_y = _snapshot(y)
        try:
            z = inv(y)
        except Exception as e:
            trig = '0-d>=2000' if (_is0d(y) and np.any(Y >= THRESH)) else form
            bad.append(('%s:exception:%s:%s' % (invname, type(e).__name__, trig), 'on the output of %s: %r' % (fname, e)))
            return bad, 'bad', True, None
        if _snapshot(y) != snap_y:
            bad.append(('%s:input-modified' % invname, 'form %s (round trip)' % form))
        if np.shape(z) != np.shape(x):
            bad.append(('%s:shape' % invname, 'round trip'))
            return bad, 'bad', True, None
        Z = _phys(z, fac)
        tol = 1e-6 * np.abs(W) if rel == 1e-6 else (1e-6 + 1e-12 * np.abs(W))
        err = np.abs(Z - W)
        if not np.all((err <= tol)[dom] if err.ndim else err <= tol):
            e2 = np.where(dom, err, 0.0)
            i = int(np.argmax(np.ravel(e2)))
            bad.append(('%s:roundtrip>1e-6A' % fname, '%s(%s(w)) - w = %.3e A at w = %r A' % (invname, fname, np.ravel(e2)[i], np.ravel(W)[i])))
    if bad:
        return bad, 'bad', True, None
    nt = bool(np.any(W >= THRESH))
    if not nt:
        out = 'ok:all-below-unchanged'
    elif np.any(below):
        out = 'ok:mixed'
    elif excluded and not np.any(dom):
        out = 'ok:converted,inverse-excluded(air<2000)'
    elif n_dc and not np.any(dom):
        return [], 'skip', False, 'dont-care:vactoair(v)-within-1e-6A-of-2000'
    else:
        out = 'ok:converted+inverse'
    return bad, out + (':q' if hasattr(x, 'unit') else ''), nt, None


# ------------------------------------------------------------------ sdssflux2ab
AB_VALUES = (0.5, 1.0, 20.0)


def check_ab(case):
    """case: {'f':'ab','rows':[[5 floats]...],'mode':'flux'|'mag'|'ivar','dtype':'f8'|'f4'}"""
    from pydl.photoop.sdssio import sdssflux2ab
    dt = np.float64 if case['dtype'] == 'f8' else np.float32
    tol = 1e-12 if case['dtype'] == 'f8' else 2e-6
    x = np.array(case['rows'], dtype=dt)
    lay = case.get('layout', 'C')
    if lay == 'F':
        x = np.asfortranarray(x)
    elif lay == 'T':
        x = np.ascontiguousarray(x.T).T
    elif lay == 'stride':
        base = np.full((2 * x.shape[0], 15), 77.0, dtype=dt)
        base[::2, ::3] = x
        x = base[::2, ::3]
    elif lay == 'be':
        x = x.astype(x.dtype.newbyteorder('>'))
    elif lay == 'ro':
        x.setflags(write=False)
    bad = []
    # the per-band offset c is defined by the magnitude form acting on a zero row
    try:
        c = np.asarray(sdssflux2ab(np.zeros((1, 5), dtype=np.float64), magnitude=True), dtype=np.float64)[0]
        mode = case['mode']
        if mode == 'mag':
            y = sdssflux2ab(x, magnitude=True)
        elif mode == 'flux':
            y = sdssflux2ab(x)
        else:
            y = sdssflux2ab(x, ivar=True)
    except Exception as e:
        return [('sdssflux2ab:exception:%s' % type(e).__name__, repr(e))]
    y = np.asarray(y, dtype=np.float64)
    X = x.astype(np.float64)
    if y.shape != X.shape:
        return [('sdssflux2ab:shape', '%s -> %s' % (X.shape, y.shape))]
    if mode == 'mag':
        exp = X + c
        name = 'magnitude-offset-not-one-per-band'
    elif mode == 'flux':
        exp = X * 10.0 ** (-c / 2.5)
        name = 'flux-inconsistent-with-magnitude-offset'
    else:
        exp = X / (10.0 ** (-c / 2.5)) ** 2
        name = 'ivar-inconsistent-with-flux-factor'
    if not np.all(np.abs(y - exp) <= tol * np.abs(exp) + (tol if mode == 'mag' else 0.0)):
        bad.append(('sdssflux2ab:' + name, 'offsets %s rows %s got %s expected %s' % (c.tolist(), X.tolist(), y.tolist(), exp.tolist())))
    return bad


# ------------------------------------------------------------------ filter_thru
_bands = None


def band_support():
    """[(lo, hi)] per band ugriz: the open wavelength interval on which any tabulated response column is positive,
    read directly from the filter files of the tree under test (plain text parse)."""
    global _bands
    if _bands is None:
        import pydl.pydlutils
        d = os.path.join(os.path.dirname(pydl.pydlutils.__file__), 'data', 'filters')
        out = []
        for b in 'ugriz':
            lam, pos, rmin = [], [], []
            with open(os.path.join(d, 'sdss_jun2001_%s_atm.dat' % b)) as f:
                for ln in f:
                    if ln.startswith('#') or not ln.strip():
                        continue
                    t = ln.split()
                    lam.append(float(t[0]))
                    pos.append(any(float(v) > 0 for v in t[1:4]))
                    rmin.append(min(float(v) for v in t[1:4]))
            ip = [i for i, p in enumerate(pos) if p]
            lo = lam[max(ip[0] - 1, 0)]
            hi = lam[min(ip[-1] + 1, len(lam) - 1)]
            la, rm = np.array(lam), np.array(rmin)
            full = float(np.sum(0.5 * (rm[1:] + rm[:-1]) * np.diff(np.log10(la))))
            out.append((lo, hi, la, rm / full))
        _bands = out
    return _bands


# wavelength solutions: name -> (nx, legendre coefficients per trace of log10(lambda) on xnorm in [-1,1])
def _ll(lo, hi):
    a, b = np.log10(lo), np.log10(hi)
    return [(a + b) / 2.0, (b - a) / 2.0]


SOLS = {
    'full3': (400, [_ll(3000., 11000.)] * 3),
    'stag3': (400, [_ll(3000., 11000.), _ll(3800., 9200.), _ll(5000., 7000.)]),
    'curv2': (400, [_ll(3500., 10500.) + [0.012], _ll(3600., 10400.) + [-0.015, 0.004]]),
    'rev2': (400, [_ll(11000., 3000.), _ll(9200., 3800.)]),
    # identical first and last wavelength in every trace, different dispersion in between (c*(P2 - P0) vanishes at both ends)
    'ends3': (400, [_ll(3000., 11000.), [_ll(3000., 11000.)[0] - 0.02, _ll(3000., 11000.)[1], 0.02],
                    [_ll(3000., 11000.)[0] + 0.015, _ll(3000., 11000.)[1], -0.015]]),
    'short2': (60, [_ll(4300., 5300.), _ll(8800., 10800.)]),
    # thin overlaps: a handful of pixels reach into the blue wing of g, the red wing of g, the blue wing of u; summed weight
    # 3e-8 .. 7e-8 (about 1e-6 of the band), positive but below the float32 machine epsilon
    'wing3': (400, [_ll(3000., 3639.), _ll(5812., 7000.), _ll(2500., 2992.)]),
}


def sol_loglam(name):
    from numpy.polynomial import legendre
    nx, co = SOLS[name]
    nc = max(len(c) for c in co)
    coeff = np.array([list(c) + [0.0] * (nc - len(c)) for c in co], dtype=np.float64)
    xn = 2.0 * np.arange(nx, dtype=np.float64) / (nx - 1.0) - 1.0
    return nx, coeff, np.array([legendre.legval(xn, c) for c in coeff])


def make_wset(nx, coeff):
    from astropy.io import fits
    from pydl.pydlutils.trace import TraceSet
    nt, nc = coeff.shape
    cols = [fits.Column(name='FUNC', format='8A', array=np.array(['legendre'])),
            fits.Column(name='XMIN', format='D', array=np.array([0.0])),
            fits.Column(name='XMAX', format='D', array=np.array([nx - 1.0])),
            fits.Column(name='COEFF', format='%dD' % (nt * nc), dim='(%d,%d)' % (nc, nt), array=coeff.reshape(1, nt, nc))]
    return TraceSet(fits.BinTableHDU.from_columns(cols).data)


def comb(nx, c):
    """c comb pixels, roughly equally spaced, away from the two ends."""
    return [int(round((j + 0.5) * nx / c)) for j in range(c)]


THIN = 1.0e-8


def overlap_table(wave):
    """per (trace, band): +1 overlapped for sure, 0 not overlapped for sure, -1 don't care; and per pixel 'surely outside'.
    Overlapped for sure = some pixel lies more than 5 A inside the tabulated support AND a lower bound of the trace's summed
    weight in that band (smallest response column, evaluated 3 A nearer the edge to allow for an air/vacuum shift, times
    |d log10 lambda|, pixels > 5 A inside only) exceeds THIN = 1e-8 of the weight of the whole band: positive and ~8 decades
    above float64 rounding.  Thinner overlaps are don't-care."""
    sup = band_support()
    nt = wave.shape[0]
    ov = np.zeros((nt, 5), dtype=int)
    outside = np.zeros(wave.shape + (5,), dtype=bool)
    dl = np.abs(np.gradient(np.log10(wave), axis=1))
    for b, (lo, hi, la, rn) in enumerate(sup):
        inside = (wave > lo + 5.0) & (wave < hi - 5.0)
        out = (wave < lo - 5.0) | (wave > hi + 5.0)
        outside[:, :, b] = out
        mid = 0.5 * (lo + hi)
        for r in range(nt):
            if inside[r].any():
                lam = wave[r][inside[r]]
                lam = np.where(lam < mid, lam - 3.0, lam + 3.0)
                frac = float(np.sum(np.interp(lam, la, rn) * dl[r][inside[r]]))
                ov[r, b] = 1 if frac > THIN else -1
            else:
                ov[r, b] = 0 if out[r].all() else -1
    return ov, outside


MASK_DTYPES = {'i4': np.int32, 'i2': np.int16, 'i8': np.int64, 'u1': np.uint8, 'f4': np.float32, 'f8': np.float64}
# "masked" means non-zero, whatever the flag convention: (dtype, value or values cycled along the run)
MASK_VALUES = [('i4', 1), ('bool', 1), ('i4', 64), ('u1', 255), ('i8', 1 << 40), ('i4', -1), ('i2', -1), ('i4', -2147483648),
               ('i4', [5, -5]), ('i4', [1, 2, -3]), ('f8', 0.5), ('f8', -1.0), ('f4', 1.0), ('f8', [0.25, -0.25])]


def mask_image(spec, ntr, g, nx):
    """spec: None | {'kind':'run','start':p,'len':L,'shift':s,'val':v|[v...],'dt':<MASK_DTYPES>|'bool'} | {'kind':'allbut','keep':[pixels],...}.
    Image rows are ordered trace-major: row t*g + r is group row r on trace t; 'shift' moves the run by s pixels per trace.
    A list of values is cycled along the masked pixels (mixed-sign flags)."""
    if spec is None:
        return None
    dt = spec.get('dt', 'i4')
    val = spec.get('val', 1)
    vals = list(val) if isinstance(val, (list, tuple)) else [val]
    m = np.zeros((ntr * g, nx), dtype=np.int32 if dt == 'bool' else MASK_DTYPES[dt])
    for t in range(ntr):
        for r in range(g):
            if spec['kind'] == 'run':
                s0 = spec['start'] + spec.get('shift', 0) * t
                idx = list(range(s0, min(nx, s0 + spec['len'])))
            else:
                idx = [k for k in range(nx) if k not in spec['keep']]
            for n, k in enumerate(idx):
                m[t * g + r, k] = vals[n % len(vals)]
    if dt == 'bool':
        return m != 0
    return m


def flux_rows(spec, nx, pix):
    """spec: list of row descriptions, each {'c':const, 'imp':[[comb index, amplitude], ...]}."""
    rows = []
    for rs in spec:
        v = np.zeros(nx, dtype=np.float64) + rs.get('c', 0.0)
        for j, a in rs.get('imp', []):
            v[pix[j]] += a
        rows.append(v)
    return np.array(rows)


def _layout(arr, lay):
    """Same values and shape, different memory layout."""
    if lay in (None, 'C'):
        return arr
    if lay == 'F':
        return np.asfortranarray(arr)
    if lay == 'T':
        return np.ascontiguousarray(arr.T).T
    if lay == 'stride':
        base = np.zeros((2 * arr.shape[0], 3 * arr.shape[1]), dtype=arr.dtype)
        base[::2, ::3] = arr
        return base[::2, ::3]
    if lay == 'be':
        return arr if arr.dtype == bool else arr.astype(arr.dtype.newbyteorder('>'))
    if lay == 'ro':
        arr = arr.copy()
        arr.setflags(write=False)
        return arr
    raise ValueError(lay)


def ft_call(cfg, flux, mask, nx, coeff, loglam):
    """Call filter_thru for configuration cfg on a float64 flux image (cast to the cfg dtype and memory layout).
"""
    from pydl.pydlspec2d.spec2d import filter_thru
    dt = np.float64 if cfg['dtype'] == 'f8' else np.float32
    lay = cfg.get('layout')
    kw = {}
    if cfg['form'] == 'waveimg':
        kw['waveimg'] = _layout((10.0 ** loglam).astype(dt), lay)
    else:
        kw['wset'] = make_wset(nx, coeff)
    if mask is not None:
        kw['mask'] = _layout(mask, lay)
    if cfg['toair']:
        kw['toair'] = True
    fl = _layout(flux.astype(dt), lay)
    res = np.asarray(filter_thru(fl, **kw), dtype=np.float64)
    return res


def check_ft(case):
    """case: {'f':'ft','cfg':{sol,form,dtype,toair},'mask':spec,'rel':'lin'|'const'|'maskind'|'hidden','rows':[g row specs],
    'ab':[a,b],'ncomb':c,'wild':[values],'wildrows':[group rows]}.  The g group rows are evaluated on every trace of the
    solution in ONE call (image rows trace-major), so relations between rows always compare results for the same wavelengths."""
    cfg = case['cfg']
    nx, coeff0, loglam0 = sol_loglam(cfg['sol'])
    ntr = loglam0.shape[0]
    pix = comb(nx, case['ncomb'])
    rows = case['rows']
    g = len(rows)
    nt = ntr * g
    coeff = np.repeat(coeff0, g, axis=0)
    loglam = np.repeat(loglam0, g, axis=0)
    flux = np.tile(flux_rows(rows, nx, pix), (ntr, 1))
    mask = mask_image(case.get('mask'), ntr, g, nx)
    good = np.ones((nt, nx), dtype=bool) if mask is None else (np.asarray(mask) == 0)
    wild = case.get('wild')
    fin = flux.copy()
    if wild is not None:
        for r, val in zip(case['wildrows'], wild):
            for t in range(ntr):
                fin[t * g + r, ~good[t * g + r]] = val
    tol = (1e-9 if cfg['dtype'] == 'f8' else 2e-5)
    wave = 10.0 ** loglam
    ov, outside = overlap_table(wave)
    bad = []
    nogood = [R for R in range(nt) if not good[R].any()]
    try:
        res = ft_call(cfg, fin, mask, nx, coeff, loglam)
    except Exception as e:
        return [('filter_thru:exception:%s%s' % (type(e).__name__, ':layout-' + cfg['layout'] if cfg.get('layout') else ''), repr(e))], 'exc', True, 0
    if res.shape != (nt, 5):
        return [('filter_thru:shape', str(res.shape))], 'bad', True, 0
    if not np.all(np.isfinite(res)) and not nogood:
        return [('filter_thru:non-finite', str(res.tolist()))], 'bad', True, 0
    scale = np.array([max(1.0, float(np.max(np.abs(flux[R])))) for R in range(nt)])
    sure = ov == 1
    rel = case['rel']
    for R in range(nt):
        if R in nogood:
            continue
        rs = rows[R % g]
        # ---- within the minimum and maximum of the (unmasked) flux, in overlapped bands
        gd = flux[R][good[R]]
        lo, hi = float(gd.min()), float(gd.max())
        for b in range(5):
            if sure[R, b] and not (lo - tol * scale[R] <= res[R, b] <= hi + tol * scale[R]):
                bad.append(('filter_thru:outside-min-max', 'trace %d row %d band %d: %r not in [%r, %r]' % (R // g, R % g, b, res[R, b], lo, hi)))
        # ---- constants are preserved; impulses outside the support of a band get zero weight
        if not rs.get('imp'):
            for b in range(5):
                if sure[R, b] and abs(res[R, b] - rs.get('c', 0.0)) > tol * scale[R]:
                    bad.append(('filter_thru:constant-not-preserved', 'trace %d band %d: c=%r got %r' % (R // g, b, rs.get('c', 0.0), res[R, b])))
        elif mask is None and rs.get('c', 0.0) == 0.0:
            for b in range(5):
                if all(outside[R, pix[j], b] for j, a in rs['imp']) and res[R, b] != 0.0:
                    bad.append(('filter_thru:weight-outside-band', 'trace %d band %d: impulse at %s A got %r'
                                % (R // g, b, [float(wave[R, pix[j]]) for j, a in rs['imp']], res[R, b])))
    if rel == 'lin':
        a, b_ = case['ab']
        for t in range(ntr):
            r0 = t * g
            exp = a * res[r0] + b_ * res[r0 + 1]
            s = abs(a) * scale[r0] + abs(b_) * scale[r0 + 1]
            if not np.all(np.abs(res[r0 + 2] - exp) <= tol * s):
                bad.append(('filter_thru:not-linear', 'trace %d: F(a f1 + b f2) - a F(f1) - b F(f2) = %s' % (t, (res[r0 + 2] - exp).tolist())))
                break
    elif rel == 'maskind':
        # all group rows are the same flux up to the values of masked pixels
        done = False
        for t in range(ntr):
            for r in range(1, g):
                if not np.all(np.abs(res[t * g + r] - res[t * g]) <= tol * scale[t * g]) and not done:
                    trig = ':no-good-pixel' if (t * g) in nogood else ''
                    wv = wild[case['wildrows'].index(r)] if r in case['wildrows'] else None
                    bad.append(('filter_thru:depends-on-masked-values' + trig,
                                'trace %d: masked pixels set to %r change the result by %s' % (t, wv, (res[t * g + r] - res[t * g]).tolist())))
                    done = True
    if case.get('alone'):
        # "per trace and band": the answer for a trace does not depend on which other traces share the call
        for t in range(ntr):
            sl = slice(t * g, (t + 1) * g)
            try:
                r1 = ft_call(cfg, fin[sl], None if mask is None else np.asarray(mask)[sl], nx, coeff[sl], loglam[sl])
            except Exception as e:
                bad.append(('filter_thru:exception:%s:single-trace-call' % type(e).__name__, repr(e)))
                break
            if r1.shape != (g, 5) or not np.all(np.abs(r1 - res[sl]) <= tol * scale[sl][:, None]):
                bad.append(('filter_thru:trace-result-depends-on-the-other-traces-in-the-call',
                            'trace %d alone %s, in the %d-trace call %s' % (t, r1.tolist(), ntr, res[sl].tolist())))
                break
    nt_ = bool(sure.any())
    ndc = int((ov[::g] == -1).sum())
    if bad:
        return bad, 'bad', nt_, ndc
    out = 'ok:%s:%s:%d(trace,band)overlaps%s%s' % (rel, cfg['form'], int(sure[::g].sum()), ':masked' if mask is not None else '',
                                                  ':' + cfg['layout'] if cfg.get('layout') else '')
    return bad, out, nt_, ndc


# ------------------------------------------------------------------ task lists
def ft_configs(tier):
    T = tier == 'thorough'
    cfgs = []
    for sol in ['full3', 'stag3', 'curv2', 'rev2', 'short2', 'wing3', 'ends3']:
        for form in ('waveimg', 'wset'):
            for dtype in ('f8', 'f4'):
                for toair in (False, True):
                    if not T and sol == 'wing3' and toair and dtype == 'f8':
                        continue
                    if not T and (dtype == 'f4' or toair) and sol not in ('full3', 'stag3', 'wing3'):
                        continue
                    if not T and sol == 'ends3' and form == 'wset':
                        continue
                    cfgs.append({'sol': sol, 'form': form, 'dtype': dtype, 'toair': toair})
    return cfgs


LIN_COEF = [(1.0, 1.0, 0.0, 1.0), (2.0, -3.0, 0.5, 4.0)]      # (a, b, constant under f2, amplitude of f2's impulse)


def tasks(tier):
    T = tier == 'thorough'
    t = []
    # shard 0: small and fast
    t.append({'k': 'ab1', 'dtype': 'f8'})
    t.append({'k': 'ab1', 'dtype': 'f4'})
    t.append({'k': 'ab3'})
    sub = [0.5, 20.0] if not T else [0.5, 1.0, 20.0]
    for first in itertools.product(sub, repeat=(1 if not T else 2)):
        t.append({'k': 'ab2', 'first': list(first), 'menu': sub})
    n = 4000 if T else 1000
    m = len(wave_menu(n))
    nshard = 16 if T else 8
    step = -(-m // nshard)
    for i in range(0, m, step):
        t.append({'k': 'avs', 'n': n, 'lo': i, 'hi': min(m, i + step)})
    t.append({'k': 'ava', 'n': n, 'block': 24 if T else 40})
    ncomb = 12 if T else 6
    for cfg in ft_configs(tier):
        masks = [None]
        if cfg['sol'] == 'full3':
            masks.append({'kind': 'run', 'start': comb(400, ncomb)[2], 'len': 5, 'shift': 0})
        for mk in masks:
            if T:
                for half in (0, 1):
                    t.append({'k': 'ftlin', 'cfg': cfg, 'mask': mk, 'ncomb': ncomb, 'half': half})
            else:
                t.append({'k': 'ftlin', 'cfg': cfg, 'mask': mk, 'ncomb': ncomb, 'half': None})
    for sol, form, dtype, toair in ([('stag3', 'waveimg', 'f8', False), ('stag3', 'waveimg', 'f4', False), ('stag3', 'wset', 'f8', False),
                                    ('curv2', 'waveimg', 'f8', True), ('wing3', 'waveimg', 'f4', False)]
                                   + ([('stag3', 'wset', 'f4', True), ('rev2', 'waveimg', 'f4', True), ('wing3', 'waveimg', 'f8', True)] if T else [])):
        for lay in ('F', 'T', 'stride', 'be', 'ro'):
            t.append({'k': 'ftlay', 'cfg': {'sol': sol, 'form': form, 'dtype': dtype, 'toair': toair, 'layout': lay}, 'ncomb': ncomb})
    # mask flag conventions: every (dtype, value) of MASK_VALUES on a few runs (incl. even lengths, so mixed-sign flags sum to zero)
    for sol, form, dtype, toair in ([('full3', 'waveimg', 'f8', False), ('stag3', 'wset', 'f4', False)]
                                   + ([('stag3', 'waveimg', 'f8', True), ('curv2', 'waveimg', 'f4', False), ('rev2', 'wset', 'f8', False)] if T else [])):
        for part in range(2):
            t.append({'k': 'ftmval', 'cfg': {'sol': sol, 'form': form, 'dtype': dtype, 'toair': toair}, 'ncomb': ncomb, 'part': part})
    for cfg in ft_configs(tier):
        if cfg['sol'] == 'wing3':
            continue
        if not T and not (cfg['sol'] in ('full3', 'stag3') and not cfg['toair']):
            continue
        for dt, val in (('i4', 1), ('bool', 1), ('i4', 64)):
            if (dt, val) != ('i4', 1) and cfg['sol'] not in (('full3', 'stag3') if T else ('full3',)):
                continue
            full = T and cfg['sol'] in ('full3', 'stag3') and cfg['dtype'] == 'f8'
            for part in ((0, 1) if full else (None,)):
                t.append({'k': 'ftmask', 'cfg': cfg, 'ncomb': ncomb, 'dt': dt, 'val': val, 'part': part,
                          'lens': list(range(1, 11)) if full else [1, 3, 10]})
    return t


def _key(case):
    return repr(sorted((k, repr(v)) for k, v in case.items()))


def _do_av(acc, case):
    bad, out, nt, skipped = check_av(case)
    if skipped:
        acc.skip(skipped)
        return
    acc.case(_key(case), nt, out if not bad else 'bad:' + bad[0][0], sample=case if np.ndim(case['wl']) == 0 else None)
    for sig, msg in bad:
        acc.violation(sig, case, msg)


def _do_ft(acc, case):
    bad, out, nt, ndc = check_ft(case)
    if ndc:
        acc.skip('dont-care:(trace,band)-within-5A-of-band-edge-or-weight<1e-8-of-band', ndc)
    acc.case(_key(case), nt, out if not bad else 'bad:' + bad[0][0], sample=case)
    seen = set()
    for sig, msg in bad:
        if sig not in seen:
            acc.violation(sig, case, msg)
            seen.add(sig)


def run_task(task):
    acc = Acc()
    k = task['k']
    if k == 'ab1':
        for row in itertools.product(AB_VALUES, repeat=5):
            for mode in ('mag', 'flux', 'ivar'):
                case = {'f': 'ab', 'rows': [list(row)], 'mode': mode, 'dtype': task['dtype']}
                bad = check_ab(case)
                acc.case(_key(case), len(set(row)) > 1, 'ok:ab:' + mode if not bad else 'bad:' + bad[0][0], sample=case)
                for sig, msg in bad:
                    acc.violation(sig, case, msg)
    elif k == 'ab2':
        menu = task['menu']
        rest = 5 - len(task['first'])
        for r1 in itertools.product(menu, repeat=rest):
            row1 = task['first'] + list(r1)
            for row2 in itertools.product(menu, repeat=5):
                for mode in ('mag', 'flux', 'ivar'):
                    case = {'f': 'ab', 'rows': [row1, list(row2)], 'mode': mode, 'dtype': 'f8'}
                    bad = check_ab(case)
                    acc.case(_key(case), True, 'ok:ab2:' + mode if not bad else 'bad:' + bad[0][0], sample=case)
                    for sig, msg in bad:
                        acc.violation(sig, case, msg)
    elif k == 'ab3':
        # taller arrays: every cyclic rotation of the band values, stacked 3..6 rows high
        base = [[0.5, 1.0, 20.0, 1.0, 0.5], [20.0, 0.5, 1.0, 20.0, 1.0], [1.0, 20.0, 0.5, 0.5, 20.0]]
        for nrow in (3, 4, 5, 6):
            for rot in range(5):
                for start in range(3):
                    rows = [base[(start + i) % 3][rot:] + base[(start + i) % 3][:rot] for i in range(nrow)]
                    for mode in ('mag', 'flux', 'ivar'):
                        for dt in ('f8', 'f4'):
                            for lay in ('C', 'F', 'T', 'stride', 'be', 'ro'):
                                case = {'f': 'ab', 'rows': rows, 'mode': mode, 'dtype': dt, 'layout': lay}
                                bad = check_ab(case)
                                acc.case(_key(case), True, 'ok:ab3+:%s:%s' % (mode, lay) if not bad else 'bad:' + bad[0][0], sample=case)
                                for sig, msg in bad:
                                    acc.violation(sig, case, msg)
    elif k == 'avs':
        menu = wave_menu(task['n'])[task['lo']:task['hi']]
        for w in menu:
            for fn in ('airtovac', 'vactoair'):
                for form in SCALAR_FORMS:
                    if form == 'int' and w != int(w):
                        continue
                    _do_av(acc, {'f': 'av', 'fn': fn, 'form': form, 'wl': w})
    elif k == 'ava':
        menu = wave_menu(task['n'])
        bl = task['block']
        blocks = [menu[i:i + bl] for i in range(0, len(menu), bl)]
        # plus blocks that straddle the threshold by construction: every third element of the menu
        blocks += [menu[i::max(1, len(menu) // bl)] for i in range(3)]
        for blk in blocks:
            if len(blk) < 2:
                continue
            for fn in ('airtovac', 'vactoair'):
                for form in ARRAY_FORMS:
                    _do_av(acc, {'f': 'av', 'fn': fn, 'form': form, 'wl': list(blk)})
    elif k == 'ftlin':
        cfg, nc = task['cfg'], task['ncomb']
        pairs = list(itertools.combinations(range(nc), 2))
        if task['half'] is not None:
            pairs = pairs[task['half']::2]
        if not task['half']:
            _do_ft(acc, {'f': 'ft', 'cfg': cfg, 'mask': task['mask'], 'rel': 'const',
                         'rows': [{'c': 1.0}, {'c': -2.5}, {'c': 1000.0}], 'ncomb': nc})
        for i, j in pairs:
            for a, b, c0, amp in LIN_COEF:
                for order in (((i, j), (j, i)) if (a, b) != (1.0, 1.0) else ((i, j),)):
                    f1 = {'c': 0.0, 'imp': [[order[0], 1.0]]}
                    f2 = {'c': c0, 'imp': [[order[1], amp]]}
                    f3 = {'c': b * c0, 'imp': [[order[0], a], [order[1], b * amp]]}
                    case = {'f': 'ft', 'cfg': cfg, 'mask': task['mask'], 'rel': 'lin', 'rows': [f1, f2, f3], 'ab': [a, b], 'ncomb': nc}
                    if j == i + 1 and (a, b) != (1.0, 1.0) and order == (i, j):
                        case['alone'] = True        # each trace also on its own, once per adjacent pair of comb pixels
                    _do_ft(acc, case)
    elif k == 'ftlay':
        cfg, nc = task['cfg'], task['ncomb']
        nx = SOLS[cfg['sol']][0]
        pix = comb(nx, nc)
        _do_ft(acc, {'f': 'ft', 'cfg': cfg, 'mask': None, 'rel': 'const', 'rows': [{'c': 1.0}, {'c': -2.5}, {'c': 1000.0}], 'ncomb': nc})
        for (i, j) in ((0, 1), (2, nc - 1), (nc - 2, 1)):
            a, b, c0, amp = LIN_COEF[1]
            f1 = {'c': 0.0, 'imp': [[i, 1.0]]}
            f2 = {'c': c0, 'imp': [[j, amp]]}
            f3 = {'c': b * c0, 'imp': [[i, a], [j, b * amp]]}
            for mk in (None, {'kind': 'run', 'start': pix[2], 'len': 5, 'shift': 1}):
                _do_ft(acc, {'f': 'ft', 'cfg': cfg, 'mask': mk, 'rel': 'lin', 'rows': [f1, f2, f3], 'ab': [a, b], 'ncomb': nc})
        gen = {'c': 0.5, 'imp': [[j, float((j * 7) % 5 - 2)] for j in range(nc)]}
        for dt_, val in (('i4', 1), ('bool', 1)):
            sp = dict(kind='run', start=pix[1], len=4, shift=2, val=val, dt=dt_)
            _do_ft(acc, {'f': 'ft', 'cfg': cfg, 'mask': sp, 'rel': 'maskind', 'rows': [gen, gen, gen], 'ncomb': nc,
                         'wild': [1000.0, float('nan')], 'wildrows': [1, 2]})
    elif k == 'ftmval':
        cfg, nc = task['cfg'], task['ncomb']
        nx = SOLS[cfg['sol']][0]
        pix = comb(nx, nc)
        gen = {'c': 0.5, 'imp': [[j, float((j * 7) % 5 - 2)] for j in range(nc)]}
        for dt_, val in MASK_VALUES[task['part']::2]:
            for start, L, shift in ((pix[1], 1, 0), (pix[1], 4, 0), (pix[2], 6, 1), (nx - 2, 2, 0)):
                sp = dict(kind='run', start=start, len=L, shift=shift, val=val, dt=dt_)
                _do_ft(acc, {'f': 'ft', 'cfg': cfg, 'mask': sp, 'rel': 'maskind', 'rows': [gen, gen, gen], 'ncomb': nc,
                             'wild': [1000.0, float('nan')], 'wildrows': [1, 2]})
            sp = dict(kind='run', start=pix[1], len=2, shift=0, val=val, dt=dt_)
            _do_ft(acc, {'f': 'ft', 'cfg': cfg, 'mask': sp, 'rel': 'hidden',
                         'rows': [{'c': 3.0}, {'c': 0.0, 'imp': [[1, 1.0]]}], 'ncomb': nc, 'wild': [55.0], 'wildrows': [0]})
    elif k == 'ftmask':
        cfg, nc = task['cfg'], task['ncomb']
        nx = SOLS[cfg['sol']][0]
        pix = comb(nx, nc)
        gen = {'c': 0.5, 'imp': [[j, float((j * 7) % 5 - 2)] for j in range(nc)]}
        extra = {'val': task['val'], 'dt': task['dt']}
        specs = []
        for p in pix:
            for L in task['lens']:
                if p + L <= nx:
                    specs.append(dict(kind='run', start=p, len=L, shift=0, **extra))
        for L in task['lens']:
            specs.append(dict(kind='run', start=0, len=L, shift=0, **extra))
            specs.append(dict(kind='run', start=nx - L, len=L, shift=0, **extra))
        specs.append(dict(kind='run', start=pix[1], len=3, shift=2, **extra))
        specs.append(dict(kind='allbut', keep=[pix[1]], **extra))
        specs.append(dict(kind='allbut', keep=[pix[0], pix[-1]], **extra))
        # a trace with every pixel masked is not generated: interpolating over masked pixels needs at least one good pixel,
        # the property defines no answer there (it was reported as filter_thru:depends-on-masked-values:no-good-pixel)
        if task['part'] is not None:
            specs = specs[task['part']::2]
        for sp in specs:
            for wv in ([1000.0, -777.0], [float('nan'), 1e30]):
                _do_ft(acc, {'f': 'ft', 'cfg': cfg, 'mask': sp, 'rel': 'maskind', 'rows': [gen, gen, gen], 'ncomb': nc,
                             'wild': wv, 'wildrows': [1, 2]})
            # a constant with wild masked pixels, and an impulse hidden under the mask
            if sp['kind'] == 'run' and sp['start'] in pix and sp['shift'] == 0:
                j0 = pix.index(sp['start'])
                _do_ft(acc, {'f': 'ft', 'cfg': cfg, 'mask': sp, 'rel': 'hidden',
                             'rows': [{'c': 3.0}, {'c': 0.0, 'imp': [[j0, 1.0]]}], 'ncomb': nc, 'wild': [55.0], 'wildrows': [0]})
    return acc


def replay(case):
    f = case['f']
    if f == 'av':
        return check_av(case)[0]
    if f == 'ab':
        return check_ab(case)
    return check_ft(case)[0]
