"""C08 - B-spline construction and evaluation equal the Cox-de Boor spline of the knots and coefficients.

Layer K: every breakpoint option/value on small sorted data sets -> knot-vector clauses.
Layer B: basis (bsplvn o intrv) non-negative, sums to one on the breakpoint range.
Layer V: value() on knots, midpoints, data and slightly-outside points, in many orders, for unit and small-integer
         coefficient vectors, against an own Cox-de Boor recursion (mc/props/_bsp.py).
"""
import itertools

import numpy as np

from mc.core import Acc
from mc.props import _bsp

PROP = 'C08'
LEVEL = 'exploration'
ENGINE = 'E1'
TECHNIQUE = 'model checking: bounded-exhaustive enumeration of breakpoint options, orders, coefficient vectors and evaluation-point orders against an own Cox-de Boor recursion'
LEVEL_TEXT = ('every breakpoint option/value of the menus on 4 data families with 4..12 abscissae and orders 1..6 is constructed, and every resulting '
              'knot vector is evaluated for every unit coefficient vector (and all of {-1,0,1}^nc for nc<=5) at all knots, midpoints, data and '
              'outside points in sorted, reversed, rotated, interleaved and (n<=6: all) permuted order; each call is compared with the textbook recursion')
LEVEL_NOTE = ('holds for the enumerated menus only (float64 abscissae, sorted data for the constructor, one-dimensional splines, no masked breakpoint); '
              'trusted: the 40-line reference recursion in mc/props/_bsp.py, numpy; comparison tolerance 1e-11*max|coeff|, knots compared to float32 rounding')
RULE = ('case = (data family, n, order, breakpoint option and value, bkspread) for construction; plus (coefficient vector, point set, point order) for '
        'evaluation, evaluated once per distinct (knot vector, order) of a shard. Construction cases are non-trivial when the option yields >= 3 '
        'breakpoints or must be adjusted/raises; evaluation cases are non-trivial when the expected values are not all equal '
        '(a constant spline would hide mis-ordering). Distinct = distinct case tuples.')
ASSUMPTIONS = ['abscissae and evaluation points are float64; data passed to the constructor are sorted (everyn places breakpoints by rank, as iterfit does)',
               'explicit/placed breakpoint vectors are sorted float64 arrays; npoly=1 (no second variable); no breakpoint masked',
               'at an interior knot either one-sided limit is accepted (they differ only for order 1 or repeated knots); outside the breakpoint range only the mask is checked',
               'knot range versus data range compared with tolerance 2^-22 * max(|x|) ("to single-precision rounding")']

FAMS = ('uni', 'geo', 'dup', 'dec')
TOL32 = 2.0 ** -22


# ------------------------------------------------------------------ menus
def data_x(fam, n):
    i = np.arange(n, dtype=np.float64)
    if fam == 'uni':
        return i
    if fam == 'geo':
        return 1.5 ** i - 1.0
    if fam == 'dup':
        return np.floor(i * 2 / 3.0)              # 0 0 1 2 2 3 4 4 ...  (ties, also at the low end)
    if fam == 'dec':
        return 0.1 * i + 0.05
    raise ValueError(fam)


def grid6(x):
    a, b = float(x.min()), float(x.max())
    return [a + (b - a) * j / 5.0 for j in range(6)]


def option_menu(x, tier):
    """List of (name, value) - value JSON-able; see option_kwargs."""
    n = len(x)
    m = []
    for sub in itertools.chain.from_iterable(itertools.combinations((1, 2, 3, 4), r) for r in range(5)):
        m.append(('bkpt', ['grid'] + [0] + list(sub) + [5]))
    m += [('bkpt', ['inner']), ('bkpt', ['wider']), ('bkpt', ['dupmid']), ('bkpt', ['dupend']), ('bkpt', ['dup3']), ('bkpt', ['data'])]
    m += [('placed', [v]) for v in ('inside', 'partly', 'one', 'none', 'ends')]
    for k in range(1, 7):
        m.append(('bkspace', ['div', k]))
        m.append(('bkspace', ['div', k + 0.5]))
    m.append(('bkspace', ['div', 0.5]))
    m += [('nbkpts', [k]) for k in range(1, 9)]
    m += [('everyn', [k]) for k in range(1, n + 1)]
    return m


def option_kwargs(x, name, val):
    a, b = float(x.min()), float(x.max())
    g = grid6(x)
    r = b - a
    if name == 'bkpt':
        kind = val[0]
        if kind == 'grid':
            v = [g[j] for j in val[1:]]
        elif kind == 'inner':
            v = g[1:5]
        elif kind == 'wider':
            v = [a - 1.0, g[2], b + 1.0]
        elif kind == 'dupmid':
            v = [a, g[2], g[2], b]
        elif kind == 'dupend':
            v = [a, a, g[3], b]
        elif kind == 'dup3':
            v = [a, g[3], g[3], g[3], b]
        elif kind == 'data':
            v = list(x)
        return {'bkpt': np.array(v, dtype=np.float64)}
    if name == 'placed':
        v = {'inside': [g[1], g[2], g[4]], 'partly': [a - 1.0, g[2], g[3], b + 1.0], 'one': [a - 1.0, g[2], b + 1.0],
             'none': [a - 2.0, a - 1.0, b + 1.0], 'ends': [a, g[2], b]}[val[0]]
        return {'placed': np.array(v, dtype=np.float64)}
    if name == 'bkspace':
        return {'bkspace': r / val[1]}
    if name == 'nbkpts':
        return {'nbkpts': int(val[0])}
    if name == 'everyn':
        return {'everyn': int(val[0])}
    raise ValueError(name)


def coef_vector(spec, nc):
    kind = spec[0]
    if kind == 'unit':
        c = np.zeros(nc)
        c[spec[1]] = 1.0
    elif kind == 'ones':
        c = np.ones(nc)
    elif kind == 'alt':
        c = np.array([(j + 1) * (-1.0) ** j for j in range(nc)])
    elif kind == 'tern':
        c = np.array(spec[1], dtype=np.float64)
    elif kind == 'arange':
        c = np.arange(nc, dtype=np.float64)
    else:
        raise ValueError(kind)
    if isinstance(spec[-1], str) and spec[-1] in ('int64', 'int32', 'float32'):
        c = c.astype(spec[-1])          # the coefficient vector may be handed over in any numeric dtype (values are small integers)
    return c


def point_set(kind, t, k, x):
    """Sorted evaluation points."""
    t = np.asarray(t, dtype=np.float64)
    nc = len(t) - k
    a, b = t[k - 1], t[nc]
    if kind == 'data':
        return np.sort(np.asarray(x, dtype=np.float64))
    kn = np.unique(t[k - 1:nc + 1])
    mid = (kn[:-1] + kn[1:]) / 2.0
    r = b - a
    out = np.array([a - 1e-3 * r, b + 1e-3 * r])
    qu = kn[:-1] + (kn[1:] - kn[:-1]) * 0.25
    return np.sort(np.concatenate([kn, mid, qu, out]))


def apply_order(spec, npts):
    kind = spec[0]
    idx = list(range(npts))
    if kind == 'sorted':
        return idx
    if kind == 'rev':
        return idx[::-1]
    if kind == 'rot':
        s = spec[1] % npts
        return idx[s:] + idx[:s]
    if kind == 'rotrev':
        s = spec[1] % npts
        return (idx[s:] + idx[:s])[::-1]
    if kind == 'inter':
        return idx[0::2] + idx[1::2][::-1]
    if kind == 'perm':
        return list(spec[1])
    raise ValueError(kind)


# ------------------------------------------------------------------ the checks
def build(case):
    from pydl.pydlutils.bspline import bspline
    x = data_x(case['fam'], case['n'])
    kw = option_kwargs(x, case['opt'][0], case['opt'][1])
    return x, bspline(x.copy(), nord=case['k'], bkspread=case['spread'], **kw), kw


def trigger_init(case, x):
    """Trigger predicate for constructor failures (computed on the case, not on the failure)."""
    name, val = case['opt']
    nx = len(x)
    if name == 'everyn':
        e = int(val[0])
        nb = max(nx // e, 1)
        if nb == 1:
            return 'everyn>nx/2'
        if nx % (nb - 1) == 0:
            return 'everyn:nx%(nx//everyn-1)==0'
        return 'everyn'
    return name if name != 'bkpt' else 'bkpt-' + val[0]


@_bsp.guarded(lambda bad: (bad, None, np.zeros(1), 'bad:check-exception'))
def check_knots(case):
    """-> (bad, sset_or_None, x, outcome)"""
    bad = []
    x = data_x(case['fam'], case['n'])
    trig = trigger_init(case, x)
    try:
        x, s, kw = build(case)
    except Exception as e:
        bad.append(('bspline-init:exception:%s:%s' % (type(e).__name__, trig), repr(e)))
        return bad, None, x, 'bad:init-exception'
    k = case['k']
    t = np.asarray(s.breakpoints, dtype=np.float64)
    m = len(t)
    if m < 2 * (k - 1) + 1:
        bad.append(('bspline-init:too-few-knots:' + trig, 'size %d' % m))
        return bad, None, x, 'bad:too-few-knots'
    if np.any(np.diff(t) < 0) or not np.all(np.isfinite(t)):
        bad.append(('bspline-init:not-non-decreasing:' + trig, str(t.tolist())))
    nc = m - k
    scale = max(abs(x.min()), abs(x.max()))
    tol = TOL32 * scale
    if not (t[k - 1] <= x.min() + tol and t[nc] >= x.max() - tol):
        bad.append(('bspline-init:range-not-covered:' + trig,
                    'breakpoint range [%r, %r] data range [%r, %r]' % (t[k - 1], t[nc], x.min(), x.max())))
    if case['opt'][0] == 'bkpt':
        # an explicit breakpoint vector is kept (ends moved onto the data range if it did not cover it)
        want = kw['bkpt'].copy()
        want[0] = min(want[0], x.min())
        want[-1] = max(want[-1], x.max())
        inner = t[k - 1:nc + 1]
        if len(inner) != len(want) or np.any(np.abs(inner - want) > tol):
            bad.append(('bspline-init:extra-knots!=order-1-per-side:' + trig,
                        'knots %s for explicit breakpoints %s' % (t.tolist(), want.tolist())))
    if s.coeff.shape != (nc,) or s.mask.shape != (m,) or not s.mask.all():
        bad.append(('bspline-init:state-shape:' + trig, 'coeff %s mask %s' % (s.coeff.shape, s.mask.shape)))
    nbk = nc + 1 - (k - 1)
    return bad, s, x, ('bad:' + bad[0][0].split(':')[1]) if bad else 'ok:knots:%s' % ('2bk' if nbk <= 2 else '3+bk')


def ref_tables(t, k, pts):
    Br = _bsp.basis_matrix(t, k, pts, 'right')
    Bl = _bsp.basis_matrix(t, k, pts, 'left')
    nc = len(t) - k
    a, b = t[k - 1], t[nc]
    at_a = pts == a
    at_b = pts == b
    Bl[at_a] = Br[at_a]
    Br[at_b] = Bl[at_b]
    return Br, Bl


def knot_trigger(t, k, pts_bad):
    """Describe where a failing evaluation point lies relative to the knots."""
    t = np.asarray(t, dtype=np.float64)
    nc = len(t) - k
    inner = t[k - 1:nc + 1]
    rep = set(inner[:-1][np.diff(inner) == 0].tolist())
    p = float(pts_bad)
    if p in rep:
        if p == inner[0]:
            return 'at-repeated-knot-left-end'
        if p == inner[-1]:
            return 'at-repeated-knot-right-end'
        return 'at-repeated-knot'
    if p in set(inner.tolist()):
        return 'at-knot'
    return 'between-knots'


@_bsp.guarded(lambda bad: (bad, np.zeros(1)))
def check_value(s, t, k, coef, pts, order, tables=None, lay=None):
    """value() at pts[order] against the reference; -> list of (sig, msg).  lay: memory layout / dtype of the point array."""
    bad = []
    nc = len(t) - k
    a, b = t[k - 1], t[nc]
    if lay == 'float32':
        pts = pts.astype(np.float32).astype(np.float64)      # the reference sees the values that are actually passed
        tables = None
    xe = pts[order] if lay is None else _bsp.layout(pts[order], lay)
    Br, Bl = tables if tables is not None else ref_tables(t, k, pts)
    vr, vl = Br.dot(coef)[order], Bl.dot(coef)[order]
    lo, hi = np.minimum(vr, vl), np.maximum(vr, vl)
    s.coeff = coef.copy()
    keep = xe.copy()
    try:
        y, msk = s.value(xe)
    except Exception as e:
        return [('value:exception:' + type(e).__name__, repr(e))], lo
    y = np.asarray(y)
    msk = np.asarray(msk)
    if y.shape != xe.shape or msk.shape != xe.shape:
        return [('value:shape', 'y %s mask %s for %d points' % (y.shape, msk.shape, len(xe)))], lo
    inside = (xe >= a) & (xe <= b)
    if not np.array_equal(msk.astype(bool), inside):
        bad.append(('value:mask!=inside-breakpoint-range', 'x %s mask %s range [%r,%r]' % (xe.tolist(), msk.tolist(), a, b)))
    tol = (1e-5 if lay == 'float32' else 1e-11) * max(1.0, float(np.max(np.abs(coef))))
    variant = ('' if coef.dtype == np.float64 else ':coeff-' + str(coef.dtype)) + ('' if lay is None else ':x-' + lay)
    y64 = y.astype(np.float64)
    ok = (y64 >= lo - tol) & (y64 <= hi + tol)
    w = inside & ~ok
    if w.any():
        i0 = int(np.nonzero(w)[0][0])
        trig = knot_trigger(t, k, xe[i0])
        cls = 'nan' if not np.isfinite(y64[i0]) else 'wrong'
        # is it the right multiset in the wrong order?
        if cls == 'wrong':
            ys, ls, hs = np.sort(y64[inside]), np.sort(lo[inside]), np.sort(hi[inside])
            if np.all((ys >= ls - tol) & (ys <= hs + tol)):
                cls = 'misordered'
        if trig.startswith('at-repeated-knot'):
            cls = 'mismatch'        # one root cause (zero-length interval chosen), whatever the symptom
        bad.append(('value:%s:%s%s' % (cls, trig, variant), 'x=%r got %r expected [%r, %r]; knots %s' % (xe[i0], y64[i0], lo[i0], hi[i0], t.tolist())))
    if not np.array_equal(xe, keep):
        bad.append(('value:input-modified', ''))
    return bad, lo


@_bsp.guarded(lambda bad: bad)
def check_basis(s, t, k, pts):
    bad = []
    nc = len(t) - k
    a, b = t[k - 1], t[nc]
    xs = pts[(pts >= a) & (pts <= b)]
    try:
        v = s.bsplvn(xs, s.intrv(xs))
    except Exception as e:
        return [('basis:exception:' + type(e).__name__, repr(e))]
    v = np.asarray(v, dtype=np.float64)
    if v.shape != (len(xs), k):
        return [('basis:shape', str(v.shape))]
    neg = ~(v >= -1e-15)
    if neg.any():
        i0 = int(np.nonzero(neg.any(axis=1))[0][0])
        bad.append(('basis:negative-or-nan:' + knot_trigger(t, k, xs[i0]), 'x=%r row %s' % (xs[i0], v[i0].tolist())))
    else:
        sm = v.sum(axis=1)
        w = ~(np.abs(sm - 1.0) <= 1e-12)
        if w.any():
            i0 = int(np.nonzero(w)[0][0])
            bad.append(('basis:sum!=1:' + knot_trigger(t, k, xs[i0]), 'x=%r sum %r' % (xs[i0], sm[i0])))
    return bad


# ------------------------------------------------------------------ enumeration
def tasks(tier):
    T = tier == 'thorough'
    ns = list(range(4, 13)) if T else [4, 5, 6, 8, 12]
    t = [{'fam': 'uni', 'n': 4, 'k': 2, 'spreads': [1.0]}]      # small shard 0 for the determinism self-test
    for n in ns:
        for fam in FAMS:
            for k in range(1, 7):
                for sp in ([[1.0], [0.5]] if T else [[1.0, 0.5]]):
                    d = {'fam': fam, 'n': n, 'k': k, 'spreads': sp, 'tier': tier}
                    if d != t[0]:
                        t.append(d)
    return t


def coef_specs(nc, full):
    specs = [['unit', j] for j in range(nc)] + [['ones'], ['alt']]
    if nc <= 5 and full:
        specs += [['tern', list(c)] for c in itertools.product((-1, 0, 1), repeat=nc)]
    return specs


def orders_for(npts, rich):
    o = [['sorted'], ['rev'], ['inter']]
    if rich:
        o += [['rot', j] for j in range(1, npts)]
        o += [['rotrev', j] for j in range(1, npts, 3)]
    return o


def run_task(task):
    acc = Acc()
    T = task.get('tier') == 'thorough'
    fam, n, k = task['fam'], task['n'], task['k']
    x = data_x(fam, n)
    seen = set()
    for spread in task['spreads']:
        if spread != 1.0 and not T:
            menu = [o for o in option_menu(x, 'q') if o[0] != 'bkpt' or o[1][0] != 'grid' or len(o[1]) in (3, 4, 7)]
        else:
            menu = option_menu(x, 'q')
        for name, val in menu:
            case = {'layer': 'K', 'fam': fam, 'n': n, 'k': k, 'opt': [name, val], 'spread': spread}
            bad, s, _x, outcome = check_knots(case)
            acc.case(_bsp.ckey(case), True, outcome, sample=case)
            for sig, msg in bad:
                acc.violation(sig, case, msg)
            if s is None:
                continue
            t = np.asarray(s.breakpoints, dtype=np.float64)
            nc = len(t) - k
            if not (np.all(np.diff(t) >= 0) and t[k - 1] < t[nc]):
                acc.skip('evaluation skipped: degenerate breakpoint range')
                continue
            tk = (tuple(t.tolist()), k)
            if tk in seen:
                continue
            seen.add(tk)
            base = {'fam': fam, 'n': n, 'k': k, 'opt': [name, val], 'spread': spread}
            # ---- basis
            pts = point_set('knots', t, k, x)
            cb = dict(base, layer='B')
            badb = check_basis(s, t, k, pts)
            acc.case(_bsp.ckey(cb), True, 'ok:basis' if not badb else 'bad:' + badb[0][0], sample=None)
            for sig, msg in badb:
                acc.violation(sig, cb, msg)
            # ---- values on knots/midpoints/outside
            tables = ref_tables(t, k, pts)
            for cs in coef_specs(nc, True):
                coef = coef_vector(cs, nc)
                rich = cs[0] in ('alt',) or (cs[0] == 'unit' and T)
                for od in orders_for(len(pts), rich):
                    if cs[0] == 'tern' and od[0] != 'inter':
                        continue
                    cv = dict(base, layer='V', coef=cs, pts='knots', ord=od)
                    order = apply_order(od, len(pts))
                    badv, lo = check_value(s, t, k, coef, pts, order, tables)
                    nt = bool(np.ptp(lo) > 0)
                    acc.case(_bsp.ckey(cv), nt, ('ok:value:' + cs[0] + ':' + od[0]) if not badv else 'bad:' + badv[0][0], sample=cv)
                    for sig, msg in badv:
                        acc.violation(sig, cv, msg)
            # ---- coefficient vectors of other numeric dtypes (values must not be truncated) and point arrays in other layouts
            variants = [(['unit', j, 'int64'], None) for j in range(nc)] + [(['unit', j, 'int32'], None) for j in (0, nc - 1)]
            variants += [(['alt', 'int64'], None), (['alt', 'int32'], None), (['arange', 'int64'], None), (['ones', 'int32'], None),
                         (['alt', 'float32'], None), (['unit', 0, 'float32'], None)]
            variants += [(['alt'], lay) for lay in _bsp.LAYOUTS[1:]] + [(['arange', 'int64'], 'strided')]
            for cs, lay in variants:
                coef = coef_vector(cs, nc)
                for od in ([['inter']] if not T else [['inter'], ['rev']]):
                    cv = dict(base, layer='V', coef=cs, pts='knots', ord=od)
                    if lay:
                        cv['layout'] = lay
                    order = apply_order(od, len(pts))
                    badv, lo = check_value(s, t, k, coef, pts, order, tables, lay)
                    acc.case(_bsp.ckey(cv), bool(np.ptp(lo) > 0),
                             ('ok:value:%s:%s' % (cs[-1] if isinstance(cs[-1], str) and cs[-1] != cs[0] else 'f8', lay or 'plain')) if not badv else 'bad:' + badv[0][0], sample=None)
                    for sig, msg in badv:
                        acc.violation(sig, cv, msg)
            # ---- values on the data abscissae, permuted
            ptsd = point_set('data', t, k, x)
            tabd = ref_tables(t, k, ptsd)
            if n <= (6 if T else 5):
                ods = [['perm', list(p)] for p in itertools.permutations(range(n))]
            else:
                ods = [['sorted'], ['rev'], ['inter']] + [['rot', j] for j in range(1, n)] + [['rotrev', j] for j in range(1, n)]
            coef = coef_vector(['alt'], nc)
            for od in ods:
                cv = dict(base, layer='V', coef=['alt'], pts='data', ord=od)
                order = apply_order(od, len(ptsd))
                badv, lo = check_value(s, t, k, coef, ptsd, order, tabd)
                nt = bool(np.ptp(lo) > 0) and order != sorted(order)
                acc.case(_bsp.ckey(cv), nt, ('ok:value:data:' + od[0]) if not badv else 'bad:' + badv[0][0], sample=None)
                for sig, msg in badv:
                    acc.violation(sig, cv, msg)
    return acc


def replay(case):
    bad, s, x, _o = check_knots(dict(case, layer='K'))
    if case['layer'] == 'K':
        return bad
    if s is None:
        return [('replay:construction-failed', str(bad))]
    k = case['k']
    t = np.asarray(s.breakpoints, dtype=np.float64)
    if case['layer'] == 'B':
        return check_basis(s, t, k, point_set('knots', t, k, x))
    pts = point_set(case['pts'], t, k, x)
    coef = coef_vector(case['coef'], len(t) - k)
    order = apply_order(case['ord'], len(pts))
    badv, _lo = check_value(s, t, k, coef, pts, order, None, case.get('layout'))
    return badv
