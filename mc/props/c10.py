"""C10 - iterfit: order independence, mask honours weights, rejection loop equals the documented procedure.

Part P (procedure): sorted input; every placement of <=2 outliers x magnitudes x every set of <=2 non-positive weights x
        orders x knot options x thresholds x maxiter; oracle = the documented loop re-implemented on dense lstsq.
Part O (order):     every permutation of a 7-point data set (and transpositions/rotations/reversal of a 12-point one)
        for a menu of configurations; oracle = iterfit's own answer for the sorted order (curve equal, mask permuted).
Part W (weights):   data sets with fewer positively weighted points than the order - only "non-positive weight => False".
"""
import itertools
import traceback
import warnings

import numpy as np

from mc.core import Acc
from mc.props import _bsp

PROP = 'C10'
LEVEL = 'exploration'
ENGINE = 'E1'
TECHNIQUE = 'model checking: bounded-exhaustive enumeration of input permutations, outlier and zero-weight placements, thresholds and iteration limits against a re-implementation of the documented fit/reject/refit loop on dense least squares'
LEVEL_TEXT = ('all 5040 orders of a 7-point data set (and all adjacent transpositions, rotations and the reversal of 12-point sets, one of them with tied abscissae, and of a 16-point set with a coverage hole) for a menu of configurations; '
              'all placements of 0..2 outliers of +-6 and +-50 sigma x all sets of <=2 non-positive weights x orders 2..4 x knot options x thresholds x maxiter 0,1,2,10 '
              'are run through iterfit and compared, curve and mask, with the documented procedure carried out by numpy.linalg.lstsq on an own Cox-de Boor basis; '
              'knot menus include intervals holding exactly one point; on the data set with a hole the returned curve is compared with dense least squares on the breakpoints that survive')
LEVEL_NOTE = ('holds for the enumerated data sets only (float64, grow=0, no maxrej/groupbadpix, 1-D); cases where a residual lies within 1e-6 sigma of a '
              'threshold or where rejection leaves a rank-deficient/ill-conditioned (cond>1e4) problem are skipped and counted; where "maxiter" is ambiguous '
              '(number of fits maxiter or maxiter+1, mask before or after the last rejection pass) every reading is accepted; trusted: mc/props/_bsp.py, numpy')
RULE = ('case = one iterfit call: (data set, order, knot option, non-positive-weight set, outlier placement+magnitudes, weight pattern, upper, lower, maxiter, input permutation). '
        'Non-trivial: part P when the reference loop rejects at least one point or a weight is non-positive; part O when the permutation is not the identity; parts W and G (coverage hole) always. '
        'Distinct = distinct case tuples.')
ASSUMPTIONS = ['coverage-hole layer: when every failed fit precedes the successful ones the returned mask must be a member of the documented reject/refit chain on the surviving breakpoints; too-few-good-points layer in 11 input orders (sorted, reversed, 6 rotations, interleave, 2 shuffles)', 'a threshold keyword that is not passed acts as the documented default 5 (calls with only upper, only lower, or neither are enumerated)',
               'documented breakpoint construction is checked where the docstring pins it down: nbkpts = that many equally spaced breakpoints over the good-point range (minimum 2); bkspace = breakpoints exactly bkspace apart when the range is a whole multiple of it (otherwise floor or ceil(range/bkspace) equal intervals are both accepted)',
               'tied abscissae are included (one 12-point set): the curve is still unique and the mask is compared per point identity; at least one positive inverse variance (otherwise iterfit raises ValueError by design)',
               'coverage hole (part G): decidable clauses only - mask False at invvar<=0, permutation invariance, curve == dense weighted LSQ on the surviving breakpoints (sset.mask) for the returned mask or a predecessor mask whose rejection pass yields it; runs that stop at the iteration limit right after a failed fit (status codes observed through a pass-through wrapper of bspline.fit) and runs whose surviving-knot problem is rank deficient are skipped and counted',
               'curve tolerances (1e-9 + 1e-13*cond^2)*scale against the oracle (cond <= 1e4), 1e-6*scale between two pydl runs that differ only in input order',
               'knots are taken from the returned object (their placement is C08); the reference fits on exactly those knots',
               'rejection decisions closer than 1e-6 sigma to a threshold are don\'t-care (skipped); reference fits with cond > 1e4 or rank deficiency are skipped (failure paths belong to C09)',
               'documented procedure: fit with invvar*mask; reject unrejected points with (y-fit)*sqrt(invvar) > upper or < -lower; rejected points stay rejected; '
               'stop when a pass rejects nothing or the iteration limit is reached; accepted readings of the limit: maxiter or maxiter+1 fits, mask after the last or the previous pass',
               'djs_reject options other than lower/upper (grow, maxrej, sticky, groupbadpix) are C17']

BAND = 1e-6
COND_MAX = 1e4
X7 = [0.0, 1.0, 2.5, 3.0, 4.5, 5.0, 6.0]
NOISE = [0.3, -0.5, 0.2, -0.1, 0.4, -0.3, 0.1, -0.2, 0.5, -0.4, 0.15, -0.25, 0.35, -0.15, 0.05, -0.45]
TIE12 = [0.0, 0.0, 1.0, 2.0, 2.0, 3.0, 4.0, 4.0, 5.0, 6.0, 6.0, 7.0]      # tie groups (0,1) (3,4) (6,7) (9,10)
GAP16 = [float(i) for i in range(8)] + [20.0 + i for i in range(8)]       # a hole of 13 units between x=7 and x=20


# ------------------------------------------------------------------ data
def make_data(case):
    n = case['n']
    xset = case.get('xset')
    if xset == 'tie':
        x = np.array(TIE12)
    elif xset == 'gap':
        x = np.array(GAP16)
    elif n == 7:
        x = np.array(X7)
    else:
        x = np.arange(n, dtype=np.float64) + 0.25 * (np.arange(n) % 3 == 1)
    assert len(x) == n
    if xset == 'gap':
        y = 1.0 + 0.5 * x - 0.01 * x * x + np.array(NOISE[:n])
    else:
        y = 1.0 + 0.5 * x - 0.05 * x * x + np.array(NOISE[:n])
    w = np.ones(n)
    if case.get('ivpat', 0) == 1:
        w = np.array([(1.0, 4.0)[i % 2] for i in range(n)])
    for pos, mag in case.get('out', []):
        y[pos] += mag / np.sqrt(w[pos])
    for j, pos in enumerate(case.get('zero', [])):
        w[pos] = 0.0 if j % 2 == 0 else -1.0
        y[pos] = 1000.0
    return x, y, w


def knot_kwargs(spec):
    """[name, value] or [name, value, {extra constructor keywords}]; list values become fresh float arrays (bkpt, placed)."""
    v = spec[1]
    kw = {spec[0]: np.array(v, dtype=np.float64) if isinstance(v, (list, tuple)) else v}
    if len(spec) > 2:
        kw.update(spec[2])
    return kw


def call_iterfit(case, perm=None):
    from pydl.pydlutils.bspline import iterfit
    x, y, w = make_data(case)
    if perm is not None:
        p = np.array(perm)
        x, y, w = x[p], y[p], w[p]
    if case.get('layout'):                      # [layout name, which of x / y / w / all]
        name, which = case['layout']
        x, y, w = (_bsp.layout(a, name) if which in (key, 'all') else a for key, a in (('x', x), ('y', y), ('w', w)))
    keep = (x.copy(), y.copy(), w.copy())
    with warnings.catch_warnings():
        warnings.simplefilter('ignore')
        thr_kw = {key: case[key] for key in ('upper', 'lower') if case.get(key) is not None}      # None: keyword not passed at all
        sset, mask = iterfit(x, y, invvar=w, nord=case['k'], maxiter=case['maxiter'], **thr_kw, **knot_kwargs(case['knots']))
    modified = not (np.array_equal(x, keep[0]) and np.array_equal(y, keep[1]) and np.array_equal(w, keep[2]))
    return sset, np.asarray(mask), modified


def thresholds(case):
    """(upper, lower) the documented procedure uses: a threshold that is not passed defaults to 5 sigma, each on its own."""
    return (5 if case.get('upper') is None else case['upper'], 5 if case.get('lower') is None else case['lower'])


def check_breakpoints(case, sset, x, w):
    """Documented breakpoint construction for the options that state one: nbkpts = that many equally spaced breakpoints
    spanning the good-point range (minimum 2); bkspace = breakpoints that far apart - decided only where it is unambiguous:
    if the range is a whole multiple of bkspace the breakpoints are exactly bkspace apart; otherwise any equal spacing with
    floor or ceil(range/bkspace) intervals is accepted."""
    name, val = case['knots'][0], case['knots'][1]
    if name not in ('nbkpts', 'bkspace') or not np.asarray(sset.mask).all():
        return []
    k = case['k']
    t = np.asarray(sset.breakpoints, dtype=np.float64)
    inner = t[k - 1:len(t) - k + 1]
    xg = x[w > 0]
    lo, hi = float(xg.min()), float(xg.max())
    R = hi - lo
    tol = 2.0 ** -22 * max(1.0, abs(lo), abs(hi))
    if name == 'nbkpts':
        cands, trig = [max(int(val), 2) - 1], 'nbkpts'
    else:
        r = R / float(val)
        if abs(r - round(r)) <= 1e-9 * max(1.0, r) and round(r) >= 1:
            cands, trig = [int(round(r))], 'bkspace:range-is-a-whole-multiple'
        else:
            cands, trig = sorted({max(int(np.floor(r)), 1), max(int(np.ceil(r)), 1)}), 'bkspace'
    for m in cands:
        want = lo + R * np.arange(m + 1) / float(m)
        if len(inner) == m + 1 and np.all(np.abs(inner - want) <= tol):
            return []
    return [('iterfit:breakpoints!=documented:' + trig, '%s=%r on good-point range [%r, %r]: breakpoints %s, expected %d interval(s)'
             % (name, val, lo, hi, inner.tolist(), cands[0]))]


def where_raised(tb):
    name = '?'
    for fr in traceback.extract_tb(tb):
        if fr.filename.endswith(('bspline.py', 'math.py')):
            name = fr.name
    return name


def eval_grid(t, k, x):
    nc = len(t) - k
    a, b = t[k - 1], t[nc]
    xs = np.sort(np.asarray(x, dtype=np.float64))
    g = np.concatenate([xs, (xs[:-1] + xs[1:]) / 2.0])
    g = g[(g >= a) & (g <= b)]
    return np.sort(g)


def curve_of(sset, grid):
    with warnings.catch_warnings():
        warnings.simplefilter('ignore')
        v, _m = sset.value(grid.copy())
    return np.asarray(v, dtype=np.float64)


# ------------------------------------------------------------------ the documented procedure, on dense lstsq
def reference_loop(t, k, x, y, w, upper, lower, maxfits):
    """-> (fits, masks, converged_at, status).  masks[0] = w>0; masks[j] = mask after the rejection pass following fit j.

    status: 'ok', 'ill-posed' (a fit was rank deficient / ill conditioned), 'band' (a decision inside the don't-care band).
    """
    A = _bsp.design_for_fit(t, k, np.clip(x, t[k - 1], t[len(t) - k]), 'left')
    mask = w > 0
    fits, masks = [], [mask.copy()]
    sq = np.sqrt(np.where(w > 0, w, 0.0))
    reference_loop.maxcond = 1.0
    for it in range(maxfits):
        c, rank, cond = _bsp.wlsq(A, y, np.where(mask, w, 0.0))
        if rank < A.shape[1] or not cond <= COND_MAX:
            return fits, masks, None, 'ill-posed'
        reference_loop.maxcond = max(reference_loop.maxcond, cond)
        fits.append(c)
        r = (y - A.dot(c)) * sq
        live = mask
        if np.any(live & ((np.abs(r - upper) < BAND) | (np.abs(r + lower) < BAND))):
            return fits, masks, None, 'band'
        new = mask & ~(r > upper) & ~(r < -lower)
        masks.append(new.copy())
        if np.array_equal(new, mask):
            return fits, masks, it + 1, 'ok'
        mask = new
    return fits, masks, None, 'ok'


@_bsp.guarded(lambda bad: (bad, 'bad:check-exception', True, None))
def check_procedure(case):
    """-> (bad, outcome, nontrivial, skip_reason)"""
    k = case['k']
    x, y, w = make_data(case)
    m = case['maxiter']
    try:
        sset, mask, modified = call_iterfit(case)
    except Exception as e:
        # was it a failure path (a refit that is ill-posed)?  Those are C09's subject, not C10's.
        try:
            from pydl.pydlutils.bspline import bspline
            with warnings.catch_warnings():
                warnings.simplefilter('ignore')
                t = np.asarray(bspline(np.sort(x[w > 0]), nord=k, **knot_kwargs(case['knots'])).breakpoints, dtype=np.float64)
            status = reference_loop(t, k, x, y, w, thresholds(case)[0], thresholds(case)[1], m + 1 if m > 0 else 1)[3]
        except Exception:
            status = 'unknown'
        if status == 'ill-posed':
            return [], 'skip', False, 'iterfit raised %s in %s when a refit became ill-posed (failure reporting is C09)' % (type(e).__name__, where_raised(e.__traceback__))
        return [('iterfit:exception:%s@%s' % (type(e).__name__, where_raised(e.__traceback__)), repr(e))], 'bad:exception', True, None
    bad = []
    if modified:
        bad.append(('iterfit:input-modified', ''))
    if mask.shape != x.shape or mask.dtype != bool:
        return [('iterfit:mask-shape', '%r' % (mask,))], 'bad:mask-shape', True, None
    t = np.asarray(sset.breakpoints, dtype=np.float64)
    bad.extend(check_breakpoints(case, sset, x, w))
    fits, masks, conv, status = reference_loop(t, k, x, y, w, thresholds(case)[0], thresholds(case)[1], m + 1 if m > 0 else 1)
    if np.any(mask[w <= 0]):
        bad.append(('iterfit:mask-true-at-nonpositive-invvar:' + ('a-refit-is-ill-posed' if status == 'ill-posed' else 'all-fits-well-posed'),
                    'invvar %s mask %s' % (w.tolist(), mask.tolist())))
    if not np.asarray(sset.mask).all():
        return bad, 'skip', False, 'pydl masked a breakpoint (failure path, C09)'
    if status != 'ok':
        return bad, 'skip', False, {'ill-posed': 'a reference fit is rank deficient or ill conditioned (segment unsupported after rejection)',
                                    'band': 'a rejection decision lies within 1e-6 sigma of a threshold'}[status]
    grid = eval_grid(t, k, x[w > 0])
    B = _bsp.design_for_fit(t, k, grid, 'left')
    try:
        got = curve_of(sset, grid)
    except Exception as e:
        bad.append(('iterfit:returned-spline-not-evaluable:%s@%s' % (type(e).__name__, where_raised(e.__traceback__)), repr(e)))
        return bad, 'bad:not-evaluable', True, None
    nfit = len(fits)
    scale = max(1.0, float(np.max(np.abs(y[w > 0]))))
    tol = (1e-9 + 1e-13 * reference_loop.maxcond ** 2) * scale      # normal equations lose cond^2; cond <= 1e4 by construction

    def same_curve(j):
        return bool(np.all(np.abs(got - B.dot(fits[j])) <= tol))
    # accepted readings
    accepted = []
    for K in sorted({max(1, m), m + 1} if m > 0 else {1}):
        Kp = min(K, conv) if conv is not None else min(K, nfit)
        accepted.append((Kp - 1, Kp))
        accepted.append((Kp - 1, Kp - 1))
    ok = any(same_curve(j) and np.array_equal(mask, masks[mi]) for j, mi in accepted if mi < len(masks))
    nrej = int(masks[0].sum() - masks[-1].sum())
    if not ok:
        if m == 0:
            if not same_curve(0):
                bad.append(('iterfit:maxiter0:curve!=plain-weighted-fit', 'max diff %.3g' % np.max(np.abs(got - B.dot(fits[0])))))
        else:
            curve_ok = any(same_curve(j) for j, _mi in accepted)
            mask_ok = any(np.array_equal(mask, masks[mi]) for _j, mi in accepted if mi < len(masks))
            first_pass = same_curve(0) and np.array_equal(mask, masks[1]) and min(j for j, _mi in accepted) >= 1
            if first_pass:
                cls = 'single-pass-no-refit'
            elif curve_ok and not mask_ok:
                cls = 'mask'
            elif mask_ok and not curve_ok:
                cls = 'curve'
            else:
                cls = 'curve-and-mask'
            bad.append(('iterfit:!=documented-loop:' + cls,
                        'maxiter %d: reference does %d fit(s), masks %s; got mask %s; curve diff to first fit %.3g, to final fit %.3g'
                        % (m, nfit, [mm.astype(int).tolist() for mm in masks], mask.astype(int).tolist(),
                           np.max(np.abs(got - B.dot(fits[0]))), np.max(np.abs(got - B.dot(fits[-1]))))))
    if case.get('upper') is None or case.get('lower') is None:
        which = 'neither' if case.get('upper') is None and case.get('lower') is None else ('only-lower' if case.get('upper') is None else 'only-upper')
        bad = [(sg + ':' + which + '-threshold-passed' if 'documented-loop' in sg or 'maxiter0' in sg else sg, msg) for sg, msg in bad]
    out = 'ok:m%d:fits%d:rej%d' % (m, nfit, nrej) if not bad else 'bad:' + bad[0][0]
    return bad, out, bool(nrej > 0 or np.any(w <= 0)), None


@_bsp.guarded(lambda bad: (bad, None))
def check_order(case, perm, base=None):
    """iterfit on permuted input against iterfit on the sorted input.  base = (grid, curve, mask) of the sorted run."""
    x, y, w = make_data(case)
    try:
        if base is None:
            s0, m0, _ = call_iterfit({kk: vv for kk, vv in case.items() if kk != 'layout'})
            t = np.asarray(s0.breakpoints, dtype=np.float64)
            grid = eval_grid(t, case['k'], x[w > 0])
            base = (grid, curve_of(s0, grid), m0)
        s1, m1, modified = call_iterfit(case, perm)
        c1 = curve_of(s1, base[0])
    except Exception as e:
        return [('iterfit:exception:%s@%s' % (type(e).__name__, where_raised(e.__traceback__)), repr(e))], base
    bad = []
    p = np.array(perm)
    scale = max(1.0, float(np.max(np.abs(y[w > 0]))))
    if m1.shape != m0_shape(base) or not np.array_equal(m1, base[2][p]):
        bad.append(('iterfit:order-dependence:mask-not-permuted-with-input', 'perm %s mask(sorted) %s mask(perm) %s'
                    % (list(perm), base[2].astype(int).tolist(), np.asarray(m1).astype(int).tolist())))
    f32 = bool(case.get('layout')) and case['layout'][0] == 'float32'
    if not np.all(np.abs(c1 - base[1]) <= (1e-3 if f32 else 1e-6) * scale):      # both sides are pydl (summation order differs; cond <= 1e4 by the gate)
        bad.append(('iterfit:order-dependence:curve', 'perm %s max diff %.3g' % (list(perm), np.max(np.abs(c1 - base[1])))))
    if np.any(np.asarray(m1)[w[p] <= 0]):
        bad.append(('iterfit:mask-true-at-nonpositive-invvar', 'perm %s' % (list(perm),)))
    if modified:
        bad.append(('iterfit:input-modified', ''))
    if case.get('layout'):
        bad = [(sg + ':layout-%s-%s' % tuple(case['layout']), msg) for sg, msg in bad]
    return bad, base


def _reject(A, c, y, w, mask, upper, lower):
    r = (y - A.dot(c)) * np.sqrt(np.where(w > 0, w, 0.0))
    near = bool(np.any(mask & ((np.abs(r - upper) < BAND) | (np.abs(r + lower) < BAND))))
    return mask & ~(r > upper) & ~(r < -lower), near


@_bsp.guarded(lambda bad: (bad, 'bad:check-exception', True, None))
def check_gap(case):
    """Data with a coverage hole: the first fit cannot succeed, breakpoints are dropped, iterfit refits.  What stays decidable:
    mask False at invvar<=0; the returned curve is the weighted least-squares spline ON THE SURVIVING BREAKPOINTS for the
    returned mask - or for a predecessor mask whose rejection pass yields the returned one (most permissive reading).
    -> (bad, outcome, nontrivial, skip_reason)"""
    import pydl.pydlutils.bspline as pb
    k = case['k']
    x, y, w = make_data(case)
    statuses = []
    orig_fit = pb.bspline.fit

    def recording_fit(self, *a, **kw):      # observation only: the status codes iterfit sees (their meaning is C09's subject)
        r = orig_fit(self, *a, **kw)
        statuses.append(r[0] if isinstance(r, tuple) else None)
        return r
    pb.bspline.fit = recording_fit
    try:
        sset, mask, modified = call_iterfit(case)
    except Exception as e:
        return [('iterfit:gap:exception:%s@%s' % (type(e).__name__, where_raised(e.__traceback__)), repr(e))], 'bad:exception', True, None
    finally:
        pb.bspline.fit = orig_fit
    bad = []
    if mask.shape != x.shape or mask.dtype != bool:
        return [('iterfit:mask-shape', '%r' % (mask,))], 'bad:mask-shape', True, None
    if np.any(mask[w <= 0]):
        bad.append(('iterfit:mask-true-at-nonpositive-invvar:data-gap', 'invvar %s mask %s' % (w.tolist(), mask.tolist())))
    if modified:
        bad.append(('iterfit:input-modified', ''))
    if statuses and not (isinstance(statuses[-1], (int, np.integer)) and int(statuses[-1]) == 0):
        return bad, 'skip', False, ('gap: the iteration limit was reached right after a failed fit (status %s) - '
                                    'the statement does not say what curve is returned then' % (statuses[-1],))
    bm = np.asarray(sset.mask, dtype=bool)
    ts = np.asarray(sset.breakpoints, dtype=np.float64)[bm]
    ndrop = int((~bm).sum())
    good = w > 0
    M = mask & good
    if len(ts) < 2 * k:
        return bad, 'skip', False, 'gap: fewer than 2*order breakpoints survive'
    a, b = ts[k - 1], ts[len(ts) - k]
    A = _bsp.design_for_fit(ts, k, np.clip(x, a, b), 'left')
    xs = np.sort(x[good])
    grid = np.concatenate([xs, (xs[:-1] + xs[1:]) / 2.0])
    grid = np.sort(grid[(grid >= a) & (grid <= b)])
    B = _bsp.design_for_fit(ts, k, grid, 'left')
    try:
        got = curve_of(sset, grid)
    except Exception as e:
        bad.append(('iterfit:gap:returned-spline-not-evaluable:%s@%s' % (type(e).__name__, where_raised(e.__traceback__)), repr(e)))
        return bad, 'bad:not-evaluable', True, None
    scale = max(1.0, float(np.max(np.abs(y[good]))))
    R = np.nonzero(good & ~M)[0]
    exhaustive = len(R) <= 10
    if exhaustive:
        subsets = list(itertools.chain.from_iterable(itertools.combinations(R.tolist(), r) for r in range(len(R) + 1)))
    else:
        subsets = [(), tuple(R.tolist())]
    usable, ok, best = 0, False, np.inf
    for S in subsets:
        Mp = M.copy()
        Mp[list(S)] = True
        c, rank, cond = _bsp.wlsq(A, y, np.where(Mp, w, 0.0))
        if rank < A.shape[1] or not cond <= COND_MAX:
            if not len(S):
                break       # the returned mask itself leaves no unique least-squares spline: nothing decidable
            continue
        if len(S):
            newmask, near = _reject(A, c, y, w, Mp, thresholds(case)[0], thresholds(case)[1])
            if near:
                continue
            if not np.array_equal(newmask, M):
                usable += 1
                continue
        usable += 1
        d = float(np.max(np.abs(got - B.dot(c))))
        best = min(best, d)
        if d <= (1e-9 + 1e-13 * cond * cond) * scale:
            ok = True
            break
    if not usable:
        return bad, 'skip', False, 'gap: least squares on the surviving breakpoints is rank deficient or ill conditioned'
    if not ok and not exhaustive:
        return bad, 'skip', False, 'gap: more than 10 rejected points - predecessor masks not enumerated'
    if not ok:
        bad.append(('iterfit:gap:curve!=lstsq-on-surviving-breakpoints',
                    'maxiter %d: %d breakpoint(s) dropped (mask %s), returned point mask %s, closest candidate differs by %.3g'
                    % (case['maxiter'], ndrop, bm.astype(int).tolist(), mask.astype(int).tolist(), best)))
    nfail = sum(1 for st in statuses if st != 0)
    # the returned mask must be one the documented loop produces: when the failed fits (no rejection follows a failed fit)
    # all precede the successful ones, every successful fit ran on the surviving breakpoints, so the chain
    # good points -> reject(fit) -> reject(refit) ... on those breakpoints contains the returned mask
    if all(isinstance(st, (int, np.integer)) for st in statuses) and nfail < len(statuses) and all(int(st) != 0 for st in statuses[:nfail]):
        _f, chain, _conv, cstatus = reference_loop(ts, k, x, y, w, thresholds(case)[0], thresholds(case)[1], len(statuses) - nfail)
        if cstatus == 'ok' and not any(np.array_equal(mask, cm) for cm in chain):
            bad.append(('iterfit:gap:mask-not-produced-by-documented-loop',
                        'maxiter %d: fit statuses %s; masks of the documented loop on the surviving breakpoints %s; got %s'
                        % (case['maxiter'], [int(st) for st in statuses], [cm.astype(int).tolist() for cm in chain], mask.astype(int).tolist())))
    out = 'ok:gap:drop%d:failedfits%d:rej%d' % (ndrop, nfail, len(R)) if not bad else 'bad:' + bad[0][0]
    return bad, out, True, None


def m0_shape(base):
    return base[2].shape


@_bsp.guarded(lambda bad: (bad, 'bad:check-exception'))
def check_weights(case):
    """Only clause (ii): non-positive inverse variance => flagged False (data sets with too few good points)."""
    x, y, w = make_data(case)
    g = int((w > 0).sum())
    trig = 'fewer-good-points-than-order' if g < case['k'] else 'enough-good-points'
    try:
        sset, mask, _mod = call_iterfit(case, case.get('perm'))
    except Exception as e:
        if g >= case['k']:
            return [], 'skip:iterfit raised %s in %s on an ill-posed fit (failure reporting is C09)' % (type(e).__name__, where_raised(e.__traceback__))
        return [('iterfit:exception:%s@%s:%s' % (type(e).__name__, where_raised(e.__traceback__), trig), repr(e))], 'bad:exception'
    if case.get('perm') is not None:
        w = w[np.array(case['perm'])]
    if mask.shape != w.shape or np.any(mask[w <= 0]):
        return [('iterfit:mask-true-at-nonpositive-invvar:' + trig, 'invvar %s mask %s' % (w.tolist(), np.asarray(mask).tolist()))], 'bad:mask-true-at-nonpositive-invvar'
    return [], 'ok:weights:%s' % trig


# ------------------------------------------------------------------ enumeration
# input orders of the too-few-good-points layer: sorted, reversed, every rotation, odd/even interleave, two fixed shuffles
WPERMS = ([None, list(range(6, -1, -1))] + [list(range(r, 7)) + list(range(r)) for r in range(1, 7)]
          + [[0, 2, 4, 6, 1, 3, 5], [3, 0, 5, 1, 6, 2, 4], [2, 6, 0, 3, 5, 1, 4]])
KNOTS7 = [['nbkpts', 2], ['nbkpts', 3], ['bkspace', 2.5]]
KNOTS12 = [['nbkpts', 2], ['nbkpts', 3], ['bkspace', 5.5], ['nbkpts', 8]]     # bkspace 5.5: the 12-point range (11) is a whole multiple    # nbkpts=8: intervals holding exactly one point
KNOTSTIE = [['nbkpts', 2], ['nbkpts', 3]]
# every breakpoint option iterfit forwards to the constructor appears in the permutation layer (12-point sets)
KNOTS_ORDER12 = [['nbkpts', 2], ['nbkpts', 4], ['bkspace', 3.0], ['everyn', 2], ['everyn', 3], ['everyn', 5],
                 ['placed', [2.0, 5.5, 9.0]], ['bkpt', [0.0, 3.5, 7.0, 11.25]], ['nbkpts', 3, {'bkspread': 0.5}]]
KNOTSGAP = [['bkspace', 3.0], ['bkspace', 2.4], ['nbkpts', 10]]
MAGS = (6.0, -6.0, 50.0, -50.0)


def outlier_menu(n, T):
    m = [[]]
    for p in range(n):
        for a in MAGS:
            m.append([[p, a]])
    for p, q in itertools.combinations(range(n), 2):
        for a, b in (itertools.product(MAGS, MAGS) if (T and n <= 7) else ((6.0, -50.0), (50.0, 50.0), (-6.0, 6.0), (-50.0, 6.0)) if T else ((6.0, -50.0), (50.0, 50.0))):
            m.append([[p, a], [q, b]])
    return m


def zero_menu(n, T):
    if T and n <= 7:
        return [[]] + [[p] for p in range(n)] + [[p, q] for p, q in itertools.combinations(range(n), 2)]
    if T:
        return [[]] + [[p] for p in range(n)] + [[p, p + 1] for p in range(n - 1)] + [[0, n - 1]]
    return [[]] + [[p] for p in (0, n // 2 + 1)] + [[0, n - 1], [4, 5]]


def order_configs(T):
    """7-point configurations for the all-permutations layer (each is well-posed throughout its reference loop)."""
    c = []
    for k in (2, 3, 4):
        kn = ['nbkpts', 3] if k == 2 else ['nbkpts', 2]
        if T or k == 3:
            c.append({'n': 7, 'k': k, 'knots': kn, 'zero': [], 'out': [], 'ivpat': 0, 'upper': 5, 'lower': 5, 'maxiter': 0})
        c.append({'n': 7, 'k': k, 'knots': kn, 'zero': [3], 'out': [[1, 12.0]], 'ivpat': 0, 'upper': 3, 'lower': 5, 'maxiter': 10})
        c.append({'n': 7, 'k': k, 'knots': kn, 'zero': [0, 6], 'out': [[3, -12.0]], 'ivpat': 0, 'upper': 5, 'lower': 5, 'maxiter': 2})
        if k == 2:
            c.append({'n': 7, 'k': 2, 'knots': ['nbkpts', 5], 'zero': [], 'out': [[1, 12.0]], 'ivpat': 0, 'upper': 3, 'lower': 5, 'maxiter': 10})
            c.append({'n': 7, 'k': 2, 'knots': ['everyn', 2], 'zero': [3], 'out': [[1, 12.0]], 'ivpat': 0, 'upper': 3, 'lower': 5, 'maxiter': 10})
        if k == 3:
            c.append({'n': 7, 'k': 3, 'knots': ['bkspace', 3.0], 'zero': [], 'out': [[1, 12.0]], 'ivpat': 0, 'upper': 3, 'lower': None, 'maxiter': 10})
            c.append({'n': 7, 'k': 3, 'knots': ['everyn', 3], 'zero': [0], 'out': [[4, -12.0]], 'ivpat': 1, 'upper': 5, 'lower': 5, 'maxiter': 2})
        if T:
            c.append({'n': 7, 'k': k, 'knots': kn, 'zero': [0], 'out': [[2, -20.0], [5, 6.0]], 'ivpat': 0, 'upper': 5, 'lower': 5, 'maxiter': 1})
            c.append({'n': 7, 'k': k, 'knots': kn, 'zero': [], 'out': [[2, -20.0], [5, 6.0]], 'ivpat': 0, 'upper': 5, 'lower': 5, 'maxiter': 10})
    return c


def perms12(n):
    ident = list(range(n))
    ps = []
    for i in range(n - 1):
        p = ident[:]
        p[i], p[i + 1] = p[i + 1], p[i]
        ps.append(p)
    for s in range(1, n):
        ps.append(ident[s:] + ident[:s])
    ps.append(ident[::-1])
    ps.append(ident[0::2] + ident[1::2][::-1])
    return ps


def tasks(tier):
    T = tier == 'thorough'
    t = [{'part': 'W', 'tier': tier}, {'part': 'Y', 'tier': tier}]
    for ci, cfg in enumerate(order_configs(T)):
        for first in range(7):
            t.append({'part': 'O', 'cfg': cfg, 'first': first})
    for k in (2, 3, 4):
        for kn in KNOTS_ORDER12:
            if not T and ((k == 4 and kn != ['nbkpts', 2]) or (k == 2 and kn[0] in ('placed', 'bkpt') or len(kn) > 2 and k == 2)):
                continue            # quick: order 4 with one option; placed / explicit / bkspread with order 3 only
            for m in (0, 2, 10):
                if not T and m == 0 and kn[0] != 'nbkpts':
                    continue
                t.append({'part': 'O12', 'k': k, 'knots': kn, 'maxiter': m, 'tier': tier})
    thr = [(5, 5), (3, 5), (3, 3)] if T else [(5, 5), (3, 5)]
    thr12 = thr[:2]
    # one-sided threshold calls: the keyword that is not passed must act as the documented default 5
    for k in ((2, 3, 4) if T else (3,)):
        for kn in [['nbkpts', 3]]:
            for (up, lo) in [(3, None), (7, None), (None, 3), (None, None)]:
                for zfirst in ([None] + list(range(12)) if T else ['all']):
                    t.append({'part': 'P', 'n': 12, 'k': k, 'knots': kn, 'upper': up, 'lower': lo, 'ivpat': 0, 'zfirst': zfirst, 'tier': tier})
    for k in (2, 3, 4):
        for kn in KNOTS12 + [['everyn', 3]] + ([['bkspace', 4.0]] if T and k == 3 else []):
            if kn[0] == 'everyn' and not T and k != 3:
                continue
            if kn == ['nbkpts', 8] and k == 4:
                continue            # 10 coefficients on 12 points: every rejection leaves an ill-posed refit
            for (up, lo) in thr12:
                for ivpat in (0, 1):
                    if T and (ivpat == 0 or (up, lo) == (5, 5)):
                        for zfirst in [None] + list(range(12)):
                            t.append({'part': 'P', 'n': 12, 'k': k, 'knots': kn, 'upper': up, 'lower': lo, 'ivpat': ivpat, 'zfirst': zfirst, 'tier': tier})
                    elif not T and ivpat == (k + up) % 2:
                        t.append({'part': 'P', 'n': 12, 'k': k, 'knots': kn, 'upper': up, 'lower': lo, 'ivpat': ivpat, 'tier': tier})
    if T:
        for k in (2, 3, 4):
            for (up, lo) in thr:
                for zfirst in [None] + list(range(7)):
                    t.append({'part': 'P', 'n': 7, 'k': k, 'knots': ['nbkpts', 2], 'upper': up, 'lower': lo, 'ivpat': 0, 'zfirst': zfirst, 'tier': tier})
        for (up, lo) in thr:
            for zfirst in [None] + list(range(7)):
                t.append({'part': 'P', 'n': 7, 'k': 3, 'knots': ['bkspace', 3.0], 'upper': up, 'lower': lo, 'ivpat': 0, 'zfirst': zfirst, 'tier': tier})
                t.append({'part': 'P', 'n': 7, 'k': 2, 'knots': ['nbkpts', 5], 'upper': up, 'lower': lo, 'ivpat': 0, 'zfirst': zfirst, 'tier': tier})
    # tied abscissae: procedure layer and order layer
    for k in (2, 3):
        for kn in KNOTSTIE:
            for (up, lo) in thr12:
                if T:
                    for zfirst in [None] + list(range(12)):
                        t.append({'part': 'P', 'n': 12, 'xset': 'tie', 'k': k, 'knots': kn, 'upper': up, 'lower': lo, 'ivpat': (k + up) % 2, 'zfirst': zfirst, 'tier': tier})
                else:
                    t.append({'part': 'P', 'n': 12, 'xset': 'tie', 'k': k, 'knots': kn, 'upper': up, 'lower': lo, 'ivpat': (k + up) % 2, 'tier': tier})
            for m in (0, 2, 10):
                t.append({'part': 'O12', 'xset': 'tie', 'k': k, 'knots': kn, 'maxiter': m, 'tier': tier})
        t.append({'part': 'O12', 'xset': 'tie', 'k': k, 'knots': ['everyn', 3], 'maxiter': 10, 'tier': tier})
    # coverage hole: breakpoints dropped, refit on the surviving ones
    for k in (2, 3, 4):
        for kn in KNOTSGAP:
            t.append({'part': 'G', 'k': k, 'knots': kn, 'tier': tier})
    return t


def _emit(acc, case, bad, out, nt, skip=None, sample=True):
    if skip:
        acc.skip(skip)
        if not bad:
            return
    acc.case(_bsp.ckey(case), nt, out, sample=case if sample else None)
    for sig, msg in bad:
        acc.violation(sig, case, msg)


def run_task(task):
    acc = Acc()
    T = task.get('tier') == 'thorough'
    part = task['part']
    if part == 'W':
        for k in (2, 3, 4):
            for kn in KNOTS7[:2]:
                for ngood in range(1, k + 1):
                    for good in itertools.combinations(range(7), ngood):
                        zero = [p for p in range(7) if p not in good]
                        for m in (0, 10):
                            for perm in WPERMS:
                                case = {'part': 'W', 'n': 7, 'k': k, 'knots': kn, 'zero': zero, 'out': [], 'ivpat': 0,
                                        'upper': 5, 'lower': 5, 'maxiter': m, 'perm': perm}
                                bad, out = check_weights(case)
                                _emit(acc, case, bad, out, True, skip=out[5:] if out.startswith('skip:') else None)
        return acc
    if part == 'O':
        cfg = dict(task['cfg'], part='O')
        base = None
        gate = check_procedure(dict(cfg, part='P'))[3]
        if gate:
            acc.skip('order layer: ' + gate, 720)
            return acc
        for rest in itertools.permutations([i for i in range(7) if i != task['first']]):
            perm = [task['first']] + list(rest)
            case = dict(cfg, perm=perm)
            bad, base = check_order(cfg, perm, base)
            _emit(acc, case, bad, 'ok:order:m%d' % cfg['maxiter'] if not bad else 'bad:' + bad[0][0], perm != list(range(7)), sample=False)
        acc.sample(dict(cfg, perm=[task['first']] + [i for i in range(7) if i != task['first']]))
        return acc
    if part == 'Y':
        # memory layout / dtype of xdata, ydata, invvar: same answer as for plain contiguous float64 arrays
        cfgs = [c for c in order_configs(False) if c['out']][:4]
        cfgs.append({'n': 12, 'k': 3, 'knots': ['everyn', 3], 'zero': [5], 'out': [[2, 50.0]], 'ivpat': 1, 'upper': 5, 'lower': 5, 'maxiter': 10})
        cfgs.append({'n': 12, 'xset': 'tie', 'k': 2, 'knots': ['nbkpts', 3], 'zero': [4], 'out': [[9, -12.0]], 'ivpat': 0, 'upper': 3, 'lower': 5, 'maxiter': 2})
        for cfg in cfgs:
            n = cfg['n']
            gate = check_procedure(dict(cfg, part='P'))[3]
            if gate:
                acc.skip('layout layer: ' + gate)
                continue
            for name in _bsp.LAYOUTS[1:]:
                for which in ('x', 'y', 'w', 'all'):
                    base = None
                    for perm in (list(range(n)), list(range(n - 1, -1, -1)), list(range(0, n, 2)) + list(range(1, n, 2))):
                        ocfg = dict(cfg, part='O', layout=[name, which])
                        case = dict(ocfg, perm=perm)
                        bad, base = check_order(ocfg, perm, base)
                        _emit(acc, case, bad, 'ok:layout:%s:%s' % (name, which) if not bad else 'bad:' + bad[0][0], True, sample=False)
        return acc
    if part == 'G':
        n = 16
        zeros = [[], [7], [8], [0], [7, 8]] + ([[3], [12], [6, 7], [15]] if T else [])
        outs = [[]] + [[[p, a]] for p in ((2, 7, 8, 12) if not T else range(n)) for a in (50.0, -12.0)]
        for zero in zeros:
            for out in outs:
                if len(out) and out[0][0] in zero:
                    continue
                for m in ((2, 10) if not T else (1, 2, 3, 10)):
                    for (up, lo) in ([(5, 5)] if not T else [(5, 5), (3, 5)]):
                        cfg = {'part': 'G', 'n': n, 'xset': 'gap', 'k': task['k'], 'knots': task['knots'], 'zero': zero, 'out': out,
                               'ivpat': (len(zero) + m) % 2, 'upper': up, 'lower': lo, 'maxiter': m}
                        bad, out_label, nt, skip = check_gap(cfg)
                        _emit(acc, cfg, bad, out_label, nt, skip)
                        if skip or bad or not ((T or zero in ([], [7, 8])) and (not out or out[0][0] in ((2, 7, 8, 12) if T else (7, 12)))):
                            continue
                        base = None
                        ocfg = dict(cfg, part='O')
                        for perm in perms12(n):
                            case = dict(ocfg, perm=perm)
                            bad, base = check_order(ocfg, perm, base)
                            _emit(acc, case, bad, 'ok:order-gap:m%d' % m if not bad else 'bad:' + bad[0][0], True, sample=False)
        return acc
    if part == 'O12':
        n = 12
        for zero in [[]] + [[p] for p in (range(n) if T else (0, 4, 5, 11))]:
            for out in [[]] + [[[p, a]] for p in (range(n) if T else (0, 4, 11)) for a in (50.0, -6.0)]:
                cfg = {'part': 'O', 'n': n, 'k': task['k'], 'knots': task['knots'], 'zero': zero, 'out': out, 'ivpat': (len(zero) + len(out)) % 2,
                       'upper': 5, 'lower': 3, 'maxiter': task['maxiter']}
                if task.get('xset'):
                    cfg['xset'] = task['xset']
                if len(zero) and len(out) and zero[0] == out[0][0]:
                    continue
                base = None
                gate = check_procedure(dict(cfg, part='P'))[3]
                if gate:
                    acc.skip('order layer: ' + gate, len(perms12(n)))
                    continue
                for perm in perms12(n):
                    case = dict(cfg, perm=perm)
                    bad, base = check_order(cfg, perm, base)
                    _emit(acc, case, bad, 'ok:order12:m%d' % cfg['maxiter'] if not bad else 'bad:' + bad[0][0], True, sample=False)
        return acc
    # part P
    n = task['n']
    zs = zero_menu(n, T)
    if T and task.get('zfirst') != 'all':
        zs = [z for z in zs if (z[0] if z else None) == task['zfirst']]
    for zero in zs:
        for out in outlier_menu(n, T):
            for m in ((0, 1, 2, 10) if T else (0, 2, 10)):
                case = {'part': 'P', 'n': n, 'k': task['k'], 'knots': task['knots'], 'zero': zero, 'out': out, 'ivpat': task['ivpat'],
                        'upper': task['upper'], 'lower': task['lower'], 'maxiter': m}
                if task.get('xset'):
                    case['xset'] = task['xset']
                bad, out_label, nt, skip = check_procedure(case)
                _emit(acc, case, bad, out_label, nt, skip)
    return acc


def replay(case):
    if case['part'] == 'W':
        return check_weights(case)[0]
    if case['part'] == 'O':
        cfg = {k: v for k, v in case.items() if k != 'perm'}
        return check_order(cfg, case['perm'])[0]
    if case['part'] == 'G':
        return check_gap(case)[0]
    return check_procedure(case)[0]
