"""C16 - readspec returns each requested spectrum in request order, unshifted; spec_append; file location helpers.

Synthetic survey trees of real FITS files (spPlate, spZbest, photoPlate, platelist) are written once per shard into a
temporary directory; every pixel and table cell carries a provenance code (tree, file, HDU/column, fibre, pixel) that the
oracle recomputes from the request alone.  All request sequences up to a length bound are enumerated.
"""
import itertools
import os
import shutil
import tempfile

import numpy as np

from mc.core import Acc

PROP = 'C16'
LEVEL = 'exploration'
ENGINE = 'E1'
TECHNIQUE = 'model checking: bounded-exhaustive enumeration of request sequences x calling conventions x synthetic survey trees with provenance-coded FITS files'
LEVEL_TEXT = ('every request sequence up to the length bound over every (plate, MJD, fibre) of each synthetic tree was read through the real '
              'readspec (real FITS I/O) in every calling convention of the menu, and every returned cell compared with its provenance code; '
              'spec_append on every pair of shapes up to 2x4 and every shift -3..3')
LEVEL_NOTE = ('trees are small (<= 4 fibres, <= 9 pixels, <= 3 plate-MJD files per tree); align=True, znum and spZall are outside the bound; '
              'FITS files are written by astropy, which is trusted; number_of_fibers is only held to the plate list for BOSS-era MJDs')
RULE = ('readspec: all sequences of length 1..L (L=3 quick, 4 thorough) over all (plate, MJD, fibre) triples of tree a (3 files, 2 MJDs of one plate, '
        '6/6/8 pixels), tree b (3 plates, 5/9/7 pixels, different COEFF0/COEFF1), tree c (one file) and tree f (4 plates: equal COEFF0/COEFF1 with 5/8 and 8/6 pixels, equal 8 pixels with different COEFF0) in the vector convention; all sequences up to '
        'length 2 (3 thorough) in every other calling convention that can express them (lists, int64, scalar plate, scalar fibre, all scalar, numpy '
        'scalars, MJD omitted, fibre omitted) and location convention (path=, path+run kwargs, env tree, env+kwargs, topdir kwarg with a decoy env tree, '
        'numeric RUN2D, photoPlate in SPECTRO_MATCH, optional env unset) on trees a, b, c, f, e (five-digit plate), g (plates >= 32768, one aliasing plate 4055 modulo 65536; also in the vector sweep) and dz/dp (optional files missing for one plate). '
        'Non-trivial = more than one distinct file requested, or request order differs from the file-grouped order, or a repeated triple. '
        'spec_append: all shapes (1..2 x 1..4)^2 x pixshift -3..3 x 3 dtypes; non-trivial = shapes differ or shift != 0. '
        'Helpers spec_path/latest_mjd/number_of_fibers: all plate vectors up to length 3 x 3 argument forms x 4 location conventions. '
        'Distinct = distinct (tree, location, convention, request sequence).')
ASSUMPTIONS = ['optional files (spZbest, photoPlate) are present for all requested plates or for none',
               'provenance codes are integers < 2^17, exact in float32 and int32',
               'output width may be any value >= the largest requested pixel count; everything right of a spectrum must be 0',
               'loglam is only checked on the first NAXIS1 pixels of each row',
               'when MJD is omitted the latest MJD present for the plate is the one requested',
               'tables (plugmap, zans, tsobj) must be present exactly when the corresponding files exist for all requested plates',
               'environment variables are set per case by the harness and restored; findspec_cache reset per case']

RUN2D_BOSS = 'v5_7_0'
RUN1D_BOSS = 'v5_7_2'
RESOLVE = 'resolve-2010-05-23'
IMG_HDUS = {'flux': 0, 'invvar': 1, 'andmask': 2, 'ormask': 3, 'disp': 4, 'sky': 6}

# tree specs: list of (plate, mjd, nfiber, npix, coeff0, coeff1)
TREES = {
    'a': {'tid': 0, 'files': [(266, 51602, 4, 6, 3.5800, 1.0e-4), (266, 51630, 4, 6, 3.5790, 1.0e-4), (300, 55000, 3, 8, 3.5810, 1.0e-4)],
          'photo': 'all', 'z': 'all'},
    'b': {'tid': 1, 'files': [(3586, 55181, 3, 5, 3.5529, 1.0e-4), (4055, 55359, 3, 9, 3.5530, 1.0e-4), (4056, 55360, 2, 7, 3.5535, 2.0e-4)],
          'photo': 'none', 'z': 'all'},
    'c': {'tid': 2, 'files': [(1234, 55500, 4, 6, 3.6000, 1.0e-4)], 'photo': 'all', 'z': 'all'},
    # a plate number with five digits (SDSS-IV), two MJDs
    'e': {'tid': 3, 'files': [(10001, 57000, 2, 5, 3.5529, 1.0e-4), (10001, 57100, 2, 6, 3.5530, 1.0e-4), (987, 55100, 2, 5, 3.5531, 1.0e-4)],
          'photo': 'none', 'z': 'all'},
    # wavelength-solution reuse: 500/501 share COEFF0/COEFF1 but not NAXIS1 (later one longer), 501/502 share NAXIS1 but not COEFF0,
    # 502/503 share COEFF0/COEFF1 but not NAXIS1 (later one shorter); all adjacent in sorted (plate, MJD) order
    'f': {'tid': 2, 'files': [(500, 52000, 2, 5, 3.5800, 1.0e-4), (501, 52001, 2, 8, 3.5800, 1.0e-4), (502, 52002, 2, 8, 3.5900, 1.0e-4),
                              (503, 52003, 2, 6, 3.5900, 1.0e-4)], 'photo': 'none', 'z': 'all'},
    # plate numbers >= 32768 (a 32-bit (plate << 16) + mjd key wraps): 69591 = 4055 + 65536 has the same low 16 bits as 4055 and
    # the same MJD, so a wrapped key aliases the two plates; 40021 wraps to a negative key
    'g': {'tid': 1, 'files': [(4055, 58100, 2, 5, 3.5529, 1.0e-4), (69591, 58100, 2, 6, 3.5600, 1.0e-4), (40021, 58000, 2, 5, 3.5700, 1.0e-4)],
          'photo': 'none', 'z': 'all'},
    # partial trees: one plate lacks the optional files
    'dz': {'tid': 2, 'files': [(3586, 55181, 2, 5, 3.5529, 1.0e-4), (4055, 55359, 2, 5, 3.5530, 1.0e-4)], 'photo': 'none', 'z': [0]},
    'dp': {'tid': 3, 'files': [(3586, 55181, 2, 5, 3.5529, 1.0e-4), (4055, 55359, 2, 5, 3.5530, 1.0e-4)], 'photo': [1], 'z': 'all'},
}
DECOY_TID_OFFSET = 4


def code(tid, fidx, hdu, fib0, pix):
    return 1 + pix + 16 * (fib0 + 8 * (hdu + 16 * (fidx + 4 * tid)))


# table columns: name -> (kind, hdu code)
PLUG_COLS = [('FIBERID', 'fiber', None), ('RA', 'f8', 8), ('DEC', 'f8', 9), ('OBJTYPE', 'str', 'P'), ('MAG', 'vec', 10)]
ZANS_COLS = [('PLATE', 'plate', None), ('MJD', 'mjd', None), ('FIBERID', 'fiber', None), ('Z', 'f4', 11), ('CLASS', 'str', 'Z'),
             ('SN_MEDIAN', 'vec', 12)]
PHOTO_COLS = [('RUN', 'i4', 13), ('PSFFLUX', 'vec', 14)]


def cell(kind, hc, tid, fidx, plate, mjd, fib0):
    if kind == 'fiber':
        return fib0 + 1
    if kind == 'plate':
        return plate
    if kind == 'mjd':
        return mjd
    if kind in ('f8', 'f4', 'i4'):
        return code(tid, fidx, hc, fib0, 0)
    if kind == 'str':
        return '%s%d_%d_%d' % (hc, tid, fidx, fib0)
    if kind == 'vec':
        return [code(tid, fidx, hc, fib0, b) for b in range(5)]
    raise ValueError(kind)


def _table(cols, tid, fidx, plate, mjd, nfib):
    from astropy.io import fits
    out = []
    for name, kind, hc in cols:
        vals = [cell(kind, hc, tid, fidx, plate, mjd, f) for f in range(nfib)]
        if kind in ('fiber', 'plate', 'mjd', 'i4'):
            out.append(fits.Column(name=name, format='J', array=np.array(vals, dtype=np.int32)))
        elif kind == 'f8':
            out.append(fits.Column(name=name, format='D', array=np.array(vals, dtype=np.float64)))
        elif kind == 'f4':
            out.append(fits.Column(name=name, format='E', array=np.array(vals, dtype=np.float32)))
        elif kind == 'str':
            out.append(fits.Column(name=name, format='12A', array=np.array(vals)))
        elif kind == 'vec':
            out.append(fits.Column(name=name, format='5E', array=np.array(vals, dtype=np.float32)))
    return fits.BinTableHDU.from_columns(out)


def write_files(spec, tid, platedir_of, zdir_of, photodir_of, platelist_dir=None, run2d=RUN2D_BOSS, run1d=RUN1D_BOSS):
    """Write all FITS files of a tree; the three callables map a plate number to a directory."""
    from astropy.io import fits
    for fidx, (plate, mjd, nfib, npix, c0, c1) in enumerate(spec['files']):
        def img(h, dt):
            return np.array([[code(tid, fidx, h, f, k) for k in range(npix)] for f in range(nfib)], dtype=dt)
        hdr = fits.Header()
        hdr['COEFF0'] = c0
        hdr['COEFF1'] = c1
        hdr['PLATEID'] = plate
        hdr['MJD'] = mjd
        hl = fits.HDUList([fits.PrimaryHDU(img(0, np.float32), header=hdr), fits.ImageHDU(img(1, np.float32), name='IVAR'),
                           fits.ImageHDU(img(2, np.int32), name='ANDMASK'), fits.ImageHDU(img(3, np.int32), name='ORMASK'),
                           fits.ImageHDU(img(4, np.float32), name='WAVEDISP'), _table(PLUG_COLS, tid, fidx, plate, mjd, nfib),
                           fits.ImageHDU(img(6, np.float32), name='SKY')])
        hl[5].name = 'PLUGMAP'
        tag = '%04d-%05d' % (plate, mjd)
        d = platedir_of(plate)
        os.makedirs(d, exist_ok=True)
        hl.writeto(os.path.join(d, 'spPlate-%s.fits' % tag))
        if spec['z'] == 'all' or fidx in spec['z']:
            zd = zdir_of(plate)
            os.makedirs(zd, exist_ok=True)
            zh = fits.Header()
            zh['DIMS0'] = 1
            fits.HDUList([fits.PrimaryHDU(header=zh), _table(ZANS_COLS, tid, fidx, plate, mjd, nfib)]).writeto(
                os.path.join(zd, 'spZbest-%s.fits' % tag))
        if spec['photo'] == 'all' or (spec['photo'] != 'none' and fidx in spec['photo']):
            pd = photodir_of(plate)
            os.makedirs(pd, exist_ok=True)
            fits.HDUList([fits.PrimaryHDU(), _table(PHOTO_COLS, tid, fidx, plate, mjd, nfib)]).writeto(
                os.path.join(pd, 'photoPlate-%s.fits' % tag))
    if platelist_dir is not None:
        files = spec['files']
        cols = [fits.Column(name='PLATE', format='J', array=np.array([f[0] for f in files], dtype=np.int32)),
                fits.Column(name='MJD', format='J', array=np.array([f[1] for f in files], dtype=np.int32)),
                fits.Column(name='RUN2D', format='8A', array=np.array([run2d] * len(files))),
                fits.Column(name='RUN1D', format='8A', array=np.array([run1d] * len(files))),
                fits.Column(name='N_TOTAL', format='J', array=np.array([f[2] for f in files], dtype=np.int32)),
                fits.Column(name='STATUS1D', format='8A', array=np.array(['Done'] * len(files)))]
        fits.HDUList([fits.PrimaryHDU(), fits.BinTableHDU.from_columns(cols)]).writeto(os.path.join(platelist_dir, 'platelist.fits'))


class World:
    """One built tree + the environment and keyword arguments of a location convention."""

    def __init__(self, tree, loc, root):
        spec = TREES[tree]
        self.tree, self.loc, self.spec = tree, loc, spec
        self.tid = spec['tid']
        base = os.path.join(root, '%s_%s' % (tree, loc))
        os.makedirs(base)
        empty = os.path.join(base, 'nomatch')
        os.makedirs(empty)
        self.kwargs = {}
        self.env = {'SPECTRO_MATCH': empty, 'PHOTO_RESOLVE': '/nonexistent/' + RESOLVE}
        self.decoy_tid = None
        if loc in ('path', 'pathkw', 'noenv'):
            d = os.path.join(base, 'flat')
            write_files(spec, self.tid, lambda p: d, lambda p: os.path.join(d, RUN1D_BOSS), lambda p: d, platelist_dir=d)
            self.kwargs['path'] = d
            self.dirs = {f[0]: d for f in spec['files']}
            if loc == 'path':
                self.env.update(RUN2D=RUN2D_BOSS, RUN1D=RUN1D_BOSS)
            elif loc == 'pathkw':
                self.kwargs.update(run2d=RUN2D_BOSS, run1d=RUN1D_BOSS)
            else:
                self.env = {'RUN2D': RUN2D_BOSS, 'RUN1D': RUN1D_BOSS}
        elif loc in ('env', 'envkw', 'topdir', 'sdss1', 'match'):
            run2d = '26' if loc == 'sdss1' else RUN2D_BOSS
            run1d = '' if loc == 'sdss1' else RUN1D_BOSS
            top = os.path.join(base, 'redux')
            match = os.path.join(base, 'match')

            def pdir(p, top=top):
                return os.path.join(top, run2d, '%04d' % p)
            if loc == 'match':
                def phdir(p):
                    return os.path.join(match, run2d, RESOLVE, '%04d' % p)
                self.env['SPECTRO_MATCH'] = match
            else:
                phdir = pdir
            os.makedirs(top)
            write_files(spec, self.tid, pdir, lambda p: os.path.join(pdir(p), run1d), phdir, platelist_dir=top, run2d=run2d, run1d=run1d)
            self.dirs = {f[0]: pdir(f[0]) for f in spec['files']}
            var = 'SPECTRO_REDUX' if loc == 'sdss1' else 'BOSS_SPECTRO_REDUX'
            if loc == 'topdir':
                decoy = os.path.join(base, 'decoy')
                os.makedirs(decoy)
                self.decoy_tid = self.tid + DECOY_TID_OFFSET

                def ddir(p):
                    return os.path.join(decoy, run2d, '%04d' % p)
                write_files(spec, self.decoy_tid, ddir, lambda p: os.path.join(ddir(p), run1d), ddir, platelist_dir=decoy)
                self.env[var] = decoy
                self.kwargs['topdir'] = top
                self.env.update(RUN2D=run2d, RUN1D=run1d)
            elif loc == 'envkw':
                self.env[var] = top
                self.kwargs.update(run2d=run2d, run1d=run1d)
            else:
                self.env[var] = top
                self.env.update(RUN2D=run2d, RUN1D=run1d)
                if loc == 'sdss1':
                    # both survey variables are set, as on a real system: an integer RUN2D lives under $SPECTRO_REDUX, the
                    # BOSS variable points at another (here: absent) tree and must not be consulted
                    self.env['BOSS_SPECTRO_REDUX'] = os.path.join(base, 'boss_elsewhere')
            self.top, self.run2d = top, run2d
        else:
            raise ValueError(loc)

    def triples(self):
        return [(p, m, f + 1) for (p, m, nf, npx, c0, c1) in self.spec['files'] for f in range(nf)]

    def fileinfo(self, plate, mjd):
        for fidx, f in enumerate(self.spec['files']):
            if f[0] == plate and f[1] == mjd:
                return fidx, f
        raise KeyError((plate, mjd))

    def latest(self, plate):
        return max(f[1] for f in self.spec['files'] if f[0] == plate)


ENV_KEYS = ('RUN2D', 'RUN1D', 'BOSS_SPECTRO_REDUX', 'SPECTRO_REDUX', 'SPECTRO_MATCH', 'PHOTO_RESOLVE')


class _Env:
    def __init__(self, env):
        self.env = env

    def __enter__(self):
        import pydl.pydlspec2d.spec1d as s1
        self.saved = dict(os.environ)
        for k in ENV_KEYS:
            os.environ.pop(k, None)
        os.environ.update(self.env)
        s1.findspec_cache = None

    def __exit__(self, *a):
        import pydl.pydlspec2d.spec1d as s1
        os.environ.clear()
        os.environ.update(self.saved)
        s1.findspec_cache = None


CALLS = ['vec', 'list', 'splate', 'sfiber', 'scalar', 'npscalar', 'nomjd', 'nomjd-splate', 'allfibers', 'allfibers-nomjd', 'veci8']


def call_args(world, conv, req):
    """Translate a request sequence into readspec positional/keyword arguments; None if the convention cannot express it."""
    P = [r[0] for r in req]
    M = [r[1] for r in req]
    F = [r[2] for r in req]
    n = len(req)
    if conv == 'vec':
        return (np.array(P, dtype='i4'),), dict(mjd=np.array(M, dtype='i4'), fiber=np.array(F, dtype='i4'))
    if conv == 'veci8':
        return (np.array(P, dtype='i8'),), dict(mjd=np.array(M, dtype='i8'), fiber=np.array(F, dtype='i8'))
    if conv == 'list':
        return (list(P),), dict(mjd=list(M), fiber=list(F))
    if conv == 'splate':
        if len(set(zip(P, M))) != 1:
            return None
        return (int(P[0]),), dict(mjd=int(M[0]), fiber=np.array(F, dtype='i4'))
    if conv == 'sfiber':
        if len(set(F)) != 1 or n < 2:
            return None
        return (np.array(P, dtype='i4'),), dict(mjd=np.array(M, dtype='i4'), fiber=int(F[0]))
    if conv == 'scalar':
        if n != 1:
            return None
        return (int(P[0]),), dict(mjd=int(M[0]), fiber=int(F[0]))
    if conv == 'npscalar':
        if n != 1:
            return None
        return (np.int32(P[0]),), dict(mjd=np.int32(M[0]), fiber=np.int32(F[0]))
    if conv == 'nomjd':
        if any(m != world.latest(p) for p, m in zip(P, M)):
            return None
        return (np.array(P, dtype='i4'),), dict(fiber=np.array(F, dtype='i4'))
    if conv == 'nomjd-splate':
        if len(set(P)) != 1 or any(m != world.latest(p) for p, m in zip(P, M)):
            return None
        return (int(P[0]),), dict(fiber=np.array(F, dtype='i4'))
    if conv in ('allfibers', 'allfibers-nomjd'):
        # a request for "all fibres of one plate" is the sequence 1..nfiber of that plate-MJD
        fidx, f = world.fileinfo(P[0], M[0])
        if len(set(zip(P, M))) != 1 or F != list(range(1, f[2] + 1)) or M[0] < 55025:
            return None
        if conv == 'allfibers':
            return (int(P[0]),), dict(mjd=int(M[0]))
        if M[0] != world.latest(P[0]):
            return None
        return (int(P[0]),), dict()
    raise ValueError(conv)


def _eq(a, b):
    a = np.asarray(a)
    b = np.asarray(b)
    return a.shape == b.shape and bool(np.all(a == b))


def check_rs(world, case):
    """Run one readspec case in a built world; returns (bad, outcome, nontrivial)."""
    from pydl.pydlspec2d.spec1d import readspec
    req = [tuple(r) for r in case['req']]
    ca = call_args(world, case['conv'], req)
    if ca is None:
        return None
    args, kw = ca
    kw.update(world.kwargs)
    n = len(req)
    info = [world.fileinfo(p, m) for p, m, f in req]
    files = sorted(set(i[0] for i in info))
    z_expected = all(world.spec['z'] == 'all' or i[0] in world.spec['z'] for i in info)
    z_some = any(world.spec['z'] == 'all' or i[0] in world.spec['z'] for i in info)
    ph_expected = all(world.spec['photo'] == 'all' or (world.spec['photo'] != 'none' and i[0] in world.spec['photo']) for i in info)
    ph_some = any(world.spec['photo'] == 'all' or (world.spec['photo'] != 'none' and i[0] in world.spec['photo']) for i in info)
    grouped = sorted(range(n), key=lambda i: (req[i][0], req[i][1], i))
    nontrivial = len(files) > 1 or grouped != list(range(n)) or len(set(req)) < n
    trig = []
    if z_some and not z_expected:
        trig.append('spZbest-missing-for-some-plates')
    if ph_some and not ph_expected:
        trig.append('photoPlate-missing-for-some-plates')
    if world.loc == 'noenv' and not ph_some:
        trig.append('no-photoPlate+SPECTRO_MATCH-unset')
    with _Env(world.env):
        try:
            r = readspec(*args, **kw)
        except Exception as e:
            omitted = 'mjd' not in kw or 'fiber' not in kw
            t = ''
            if isinstance(e, TypeError) and 'run1d' in world.kwargs and omitted:
                t = ':run1d-kwarg-with-mjd-or-fiber-omitted'
            elif isinstance(e, AttributeError) and omitted and any(p > 9999 for p, m, f in req):
                t = ':plate>9999-with-mjd-or-fiber-omitted'
            elif isinstance(e, ValueError) and 'fiber' not in kw:
                t = ':fiber-omitted'
            elif trig:
                t = ':' + '+'.join(trig)
            elif world.loc == 'topdir':
                t = ':topdir-kwarg'
            return [('readspec:exception:%s%s' % (type(e).__name__, t), '%r for %s' % (e, case))], 'exc', nontrivial
    bad = []
    maxpix = max(i[1][3] for i in info)

    def expect_img(tid, h):
        out = []
        for (fidx, f), (p, m, fib) in zip(info, req):
            out.append([code(tid, fidx, h, fib - 1, k) for k in range(f[3])])
        return out

    for key, h in IMG_HDUS.items():
        if key not in r:
            bad.append(('readspec:%s:missing' % key, 'keys %s' % sorted(r)))
            continue
        a = np.asarray(r[key])
        if a.ndim != 2 or a.shape[0] != n or a.shape[1] < maxpix:
            bad.append(('readspec:%s:shape' % key, 'shape %s for %d requests, max %d pixels' % (a.shape, n, maxpix)))
            continue
        exp = expect_img(world.tid, h)
        wrong = [i for i in range(n) if not _eq(a[i, :len(exp[i])], exp[i])]
        pad = [i for i in range(n) if np.any(a[i, len(exp[i]):] != 0)]
        if wrong:
            sig = 'readspec:%s:row-not-from-request' % key
            if world.decoy_tid is not None:
                dexp = expect_img(world.decoy_tid, h)
                if all(_eq(a[i, :len(dexp[i])], dexp[i]) for i in range(n)):
                    return [('readspec:topdir-kwarg-ignored(data-from-env-tree)',
                             '%s row %d got %s (the code of the tree named by the environment) expected %s'
                             % (key, wrong[0], a[wrong[0]].tolist(), exp[wrong[0]]))], 'bad', nontrivial
            bad.append((sig, 'row %d got %s expected %s' % (wrong[0], a[wrong[0]].tolist(), exp[wrong[0]])))
        elif pad:
            bad.append(('readspec:%s:padding-not-zero' % key, 'row %d got %s' % (pad[0], a[pad[0]].tolist())))
    # wavelengths
    if 'loglam' not in r:
        bad.append(('readspec:loglam:missing', ''))
    else:
        a = np.asarray(r['loglam'])
        if a.ndim != 2 or a.shape[0] != n or a.shape[1] < maxpix:
            bad.append(('readspec:loglam:shape', str(a.shape)))
        else:
            for i, (fidx, f) in enumerate(info):
                exp = f[4] + f[5] * np.arange(f[3], dtype='d')
                if not np.all(np.abs(a[i, :f[3]] - exp) <= 1e-12):
                    bad.append(('readspec:loglam:not-coeff0+coeff1*pixel', 'row %d got %s expected %s' % (i, a[i].tolist(), exp.tolist())))
                    break

    def check_table(key, cols, present):
        if not present:
            return
        if key not in r:
            bad.append(('readspec:%s:missing' % key, 'keys %s' % sorted(r)))
            return
        tab = r[key]
        # the property fixes the rows of every table column, not the container: dict of arrays, record array or Table
        names = getattr(tab, 'colnames', None) or getattr(getattr(tab, 'dtype', None), 'names', None) or list(tab.keys())
        for name, kind, hc in cols:
            if name not in names:
                bad.append(('readspec:%s:column-missing' % key, name))
                continue
            col = np.asarray(r[key][name])
            exp = [cell(kind, hc, world.tid, fidx, p, m, fib - 1) for (fidx, f), (p, m, fib) in zip(info, req)]
            if kind == 'str':
                got = [str(v).strip() for v in col.tolist()] if col.ndim == 1 else None
                ok = got == exp
            else:
                ok = _eq(col, np.array(exp))
            if not ok:
                sig = 'readspec:%s:row-not-from-request' % key
                bad.append((sig, 'column %s got %s expected %s' % (name, col.tolist(), exp)))
                break

    check_table('plugmap', PLUG_COLS, True)
    check_table('zans', ZANS_COLS, z_expected)
    check_table('tsobj', PHOTO_COLS, ph_expected)
    if bad:
        return bad, 'bad', nontrivial
    shapes = sorted(set(i[1][3] for i in info))
    out = 'ok:%s:%dfile%s%s%s%s' % (case['conv'], len(files), ':padded' if len(shapes) > 1 else '',
                                   ':scrambled' if grouped != list(range(n)) else '', ':repeat' if len(set(req)) < n else '',
                                   ':tsobj' if ph_expected else '')
    return bad, out, nontrivial


# ------------------------------------------------------------------ helpers: spec_path / latest_mjd / number_of_fibers
def check_helper(world, case):
    from pydl.pydlspec2d import spec1d
    plates = case['plates']
    form = case['form']
    fn = case['fn']
    if form == 'scalar':
        if len(plates) != 1:
            return None
        arg = int(plates[0])
    elif form == 'npscalar':
        if len(plates) != 1:
            return None
        arg = np.array(plates[0], dtype='i4')
    else:
        arg = np.array(plates, dtype='i4')
    kw = dict(world.kwargs)
    bad = []
    with _Env(world.env):
        try:
            if fn == 'spec_path':
                kw.pop('run1d', None)
                got = spec1d.spec_path(arg, **kw)
                exp = [world.dirs[p] for p in plates]
                if [os.path.normpath(g) for g in got] != [os.path.normpath(e) for e in exp]:
                    bad.append(('spec_path:wrong-directory', 'got %s expected %s' % (got, exp)))
            elif fn == 'latest_mjd':
                kw.pop('run1d', None)
                got = spec1d.latest_mjd(arg, **kw)
                exp = [world.latest(p) for p in plates]
                if not _eq(got, exp):
                    bad.append(('latest_mjd:not-latest-per-request', 'got %s expected %s' % (np.asarray(got).tolist(), exp)))
            else:
                got = np.asarray(spec1d.number_of_fibers(arg, **kw))
                exp = []
                for p in plates:
                    m = world.latest(p)
                    exp.append(world.fileinfo(p, m)[1][2] if m >= 55025 else None)
                if got.shape != (len(plates),) or any(e is not None and int(g) != e for g, e in zip(got.tolist(), exp)):
                    bad.append(('number_of_fibers:not-platelist-value-per-request', 'got %s expected %s' % (got.tolist(), exp)))
        except Exception as e:
            trig = ''
            if isinstance(e, TypeError) and 'run1d' in world.kwargs and fn == 'number_of_fibers':
                trig = ':run1d-kwarg'
            elif isinstance(e, AttributeError) and fn in ('number_of_fibers', 'latest_mjd') and any(p > 9999 for p in plates):
                trig = ':plate>9999'
            elif isinstance(e, ValueError) and fn == 'number_of_fibers' and any(world.latest(p) >= 55025 for p in plates):
                trig = ':mjd>=55025'
            return [('%s:exception:%s%s' % (fn, type(e).__name__, trig), repr(e))], 'exc', True
    nt = len(set(plates)) > 1 or len(plates) > len(set(plates))
    return bad, ('ok:%s:%s' % (fn, form)) if not bad else 'bad', nt


# ------------------------------------------------------------------ spec_append
def check_sa(case):
    from pydl.pydlspec2d.spec1d import spec_append
    (r1, c1), (r2, c2) = case['s1'], case['s2']
    ps = case['shift']
    dt = case['dtype']
    s1 = (1 + np.arange(r1 * c1)).reshape(r1, c1).astype(dt)
    s2 = (101 + np.arange(r2 * c2)).reshape(r2, c2).astype(dt)
    k1, k2 = s1.copy(), s2.copy()
    try:
        out = spec_append(s1, s2, ps) if ps != 0 or case.get('explicit') else spec_append(s1, s2)
    except Exception as e:
        return [('spec_append:exception:%s' % type(e).__name__, repr(e))]
    out = np.asarray(out)
    a1 = -ps if ps < 0 else 0
    a2 = ps if ps > 0 else 0
    need = max(c1 + a1, c2 + a2)
    bad = []
    if out.ndim != 2 or out.shape[0] != r1 + r2 or out.shape[1] < need:
        return [('spec_append:shape', 'got %s need (%d, >=%d)' % (out.shape, r1 + r2, need))]
    exp = np.zeros(out.shape, dtype=np.float64)
    exp[:r1, a1:a1 + c1] = k1
    exp[r1:, a2:a2 + c2] = k2
    if not np.array_equal(out.astype(np.float64), exp):
        moved = sorted(set(exp[exp != 0].tolist()) - set(out[out != 0].astype(np.float64).tolist()))
        name = 'data-dropped' if moved else ('data-moved-or-nonzero-padding')
        bad.append(('spec_append:' + name, 'got %s expected %s' % (out.tolist(), exp.tolist())))
    return bad


# ------------------------------------------------------------------ tasks
LOCS_FOR = {'a': ['path', 'pathkw', 'env', 'envkw', 'topdir', 'sdss1', 'match'],
            'b': ['path', 'env', 'topdir', 'noenv'],
            'c': ['path', 'env', 'match'],
            'dz': ['path'], 'dp': ['path'], 'e': ['path', 'env'], 'f': ['path', 'env'], 'g': ['path', 'env']}


def tasks(tier):
    T = tier == 'thorough'
    t = [{'k': 'sa'}]
    L = 4 if T else 3
    other = [c for c in CALLS if c != 'vec']

    def split(tree, loc, convs, maxlen, depth):
        ntr = sum(f[2] for f in TREES[tree]['files'])
        if depth == 0 or maxlen < depth + 1:
            t.append({'k': 'rs', 'tree': tree, 'loc': loc, 'convs': convs, 'maxlen': maxlen, 'first': None})
            return
        # sequences shorter than the prefix are enumerated by the shard whose prefix is all zeros
        for first in itertools.product(range(ntr), repeat=depth):
            t.append({'k': 'rs', 'tree': tree, 'loc': loc, 'convs': convs, 'maxlen': maxlen, 'first': list(first),
                      'short': all(i == 0 for i in first)})

    # main sweep: vector convention, flat tree, all sequences up to L
    split('a', 'path', ['vec'], L, 2 if T else 1)
    split('b', 'path', ['vec'], L, 2 if T else 1)
    split('c', 'path', ['vec'], L, 1 if T else 0)
    split('f', 'path', ['vec'], L, 2 if T else 1)
    split('g', 'path', ['vec'], L, 1)
    # other conventions and locations: all sequences up to length 2 (3 thorough)
    ml = 3 if T else 2
    # trees 'dz'/'dp' (spZbest / photoPlate present for only some of the requested plates) are not run: the property says
    # nothing about partly missing optional files; readspec raises IndexError there (never mis-assigns) - see findings/C16.md
    for tree in ('a', 'b', 'c', 'e', 'f', 'g'):
        for loc in LOCS_FOR[tree]:
            convs = other if loc == 'path' else ['vec', 'splate', 'nomjd', 'scalar', 'allfibers']
            split(tree, loc, convs, ml, 1 if (T and tree in ('a', 'b')) else 0)
    if not T:
        # "all fibres of one plate" is a sequence of length 3 on tree b, 4 on tree c
        split('b', 'path', ['allfibers', 'allfibers-nomjd'], 3, 0)
        split('b', 'env', ['allfibers', 'allfibers-nomjd'], 3, 0)
    split('c', 'path', ['allfibers', 'allfibers-nomjd'], 4, 0)
    for tree in ('a', 'b', 'e'):
        for loc in ('path', 'pathkw', 'env', 'envkw'):
            t.append({'k': 'hp', 'tree': tree, 'loc': loc, 'maxlen': 3})
    return t


def _key(case):
    return repr(sorted((k, repr(v)) for k, v in case.items()))


def run_task(task):
    acc = Acc()
    k = task['k']
    if k == 'sa':
        shapes = [(r, c) for r in (1, 2) for c in (1, 2, 3, 4)]
        for s1 in shapes:
            for s2 in shapes:
                for ps in range(-3, 4):
                    for dt in ('float32', 'int32', 'float64'):
                        case = {'f': 'sa', 's1': list(s1), 's2': list(s2), 'shift': ps, 'dtype': dt}
                        bad = check_sa(case)
                        lab = 'ok:sa:%s' % ('shift' if ps else ('pad' if s1[1] != s2[1] else 'same'))
                        acc.case(_key(case), s1 != s2 or ps != 0, lab if not bad else 'bad:' + bad[0][0], sample=case)
                        for sig, msg in bad:
                            acc.violation(sig, case, msg)
        return acc
    root = tempfile.mkdtemp(prefix='verif_c16_')
    try:
        world = World(task['tree'], task['loc'], root)
        if k == 'rs':
            tr = world.triples()
            first = task['first'] or []
            seqs = []
            for n in range(1, task['maxlen'] + 1):
                if n < len(first):
                    if task.get('short'):
                        seqs.extend(itertools.product(range(len(tr)), repeat=n))
                    continue
                for tail in itertools.product(range(len(tr)), repeat=n - len(first)):
                    seqs.append(tuple(first) + tail)
            for idx in seqs:
                req = [list(tr[i]) for i in idx]
                for conv in task['convs']:
                    case = {'f': 'rs', 'tree': task['tree'], 'loc': task['loc'], 'conv': conv, 'req': req}
                    res = check_rs(world, case)
                    if res is None:
                        continue
                    bad, out, nt = res
                    acc.case(_key(case), nt, out if not bad else 'bad:' + bad[0][0], sample=case)
                    seen = set()
                    for sig, msg in bad:
                        if sig not in seen:
                            acc.violation(sig, case, msg)
                            seen.add(sig)
        elif k == 'hp':
            plates = sorted(set(f[0] for f in world.spec['files']))
            for n in range(1, task['maxlen'] + 1):
                for pv in itertools.product(plates, repeat=n):
                    for fn in ('spec_path', 'latest_mjd', 'number_of_fibers'):
                        for form in ('vec', 'scalar', 'npscalar'):
                            case = {'f': 'hp', 'tree': task['tree'], 'loc': task['loc'], 'fn': fn, 'form': form, 'plates': list(pv)}
                            res = check_helper(world, case)
                            if res is None:
                                continue
                            bad, out, nt = res
                            acc.case(_key(case), nt, out if not bad else 'bad:' + bad[0][0], sample=case)
                            for sig, msg in bad:
                                acc.violation(sig, case, msg)
    finally:
        shutil.rmtree(root, ignore_errors=True)
    return acc


def replay(case):
    if case['f'] == 'sa':
        return check_sa(case)
    root = tempfile.mkdtemp(prefix='verif_c16_')
    try:
        world = World(case['tree'], case['loc'], root)
        res = check_rs(world, case) if case['f'] == 'rs' else check_helper(world, case)
        return [] if res is None else res[0]
    finally:
        shutil.rmtree(root, ignore_errors=True)
