"""Shared yanny helpers for C01-C03: building record arrays from JSON-able case descriptions,
canonical forms of tables, fixed clock."""
import datetime as _dt
import os
import shutil
import tempfile

import numpy as np

from pydl.pydlutils import yanny as ymod
from pydl.pydlutils.yanny import yanny

ENUM_LABELS = ['RED', 'GREEN_X', 'B']
STRW = 8     # declared width of string columns

# cell alphabets -----------------------------------------------------------
INT_CELLS = {
    'i2': [0, 1, -1, -32768, 32767],
    'i4': [0, 1, -1, -2147483648, 2147483647],
    'i8': [0, 1, -1, -9223372036854775808, 9223372036854775807],
}
_f4 = np.float32
F4_CELLS = [0.0, -0.0, float(_f4(0.1)), float(_f4(1) / _f4(3)), float(_f4(-1.5e-7)), float(_f4(2 ** 24 + 1)),
            float(np.finfo(np.float32).smallest_subnormal), float(np.finfo(np.float32).tiny),
            float(np.finfo(np.float32).max), float('nan'), float('inf'), float('-inf')]
F8_CELLS = [0.0, -0.0, 0.1, 1.0 / 3.0, -1.5e-7, float(2 ** 53 + 1), 5e-324, float(np.finfo(np.float64).tiny),
            float(np.finfo(np.float64).max), float('nan'), float('inf'), float('-inf')]
STR_CELLS = ['a', '', 'a b', 'a\tb', '#', 'a#b', 'a;b', 'a{b}c', '}', ' lead', 'trail ', 'x\\y', "it's", 'a{{}}b',
             'a\x0cb', 'a\x0bb', 'a\x1cb', 'end;', ';', 'a{}b', 'a{ }b', 'x{']      # form feed, vertical tab, file separator: white space for str.splitlines()
STR_ARRAY_CELLS = [s for s in STR_CELLS if '}' not in s]

LONGW = 64
LONG_CELLS = ['x' * 50, ('word ' * 12).strip(), 'tab\there ' + 'y' * 40, '']
KINDS = ['i4', 'i2', 'i8', 'f4', 'f8', 'S', 'enum', 'i4[2]', 'f4[2]', 'f8[2]', 'S[2]', 'enum2', 'i8[1]', 'S[1]']


def base_kind(kind):
    return kind.split('[')[0]


def is_array(kind):
    return kind.endswith(']')


def arr_len(kind):
    return int(kind[kind.index('[') + 1:-1]) if is_array(kind) else 0


def scalar_cells(kind, in_array=False):
    b = base_kind(kind)
    if b in INT_CELLS:
        return INT_CELLS[b]
    if b == 'f4':
        return F4_CELLS
    if b == 'f8':
        return F8_CELLS
    if b == 'S':
        return STR_ARRAY_CELLS if in_array else STR_CELLS
    if b in ('enum', 'enum2'):
        return ENUM_LABELS
    if b == 'L':
        return LONG_CELLS
    raise KeyError(kind)


def rep_cells(kind):
    """Two representative cells per kind (L2/L3 layers)."""
    b = base_kind(kind)
    two = {'i2': [-32768, 7], 'i4': [2147483647, -1], 'i8': [-9223372036854775808, 3],
           'f4': [float(_f4(0.1)), float('nan')], 'f8': [1.0 / 3.0, float('-inf')],
           'S': ['a b', ''], 'enum': ['GREEN_X', 'B'], 'enum2': ['B', 'RED']}[b]
    if is_array(kind):
        n = arr_len(kind)
        return [([two[0], two[1]] * n)[:n], [two[1]] * n]
    return two


def np_dtype(kind, ustr=False):
    b = base_kind(kind)
    if b == 'L':
        d = ('U%d' if ustr else 'S%d') % LONGW
    elif b in ('S', 'enum', 'enum2'):
        d = ('U%d' if ustr else 'S%d') % STRW
    else:
        d = b
    return (d, (arr_len(kind),)) if is_array(kind) else d


def build_recarray(cols, rows, ustr=False):
    """cols: list of [name, kind]; rows: list of lists of cells."""
    dt = np.dtype([((str(n),) + np_dtype(k, ustr)) if is_array(k) else (str(n), np_dtype(k, ustr)) for n, k in cols])
    arr = np.zeros((len(rows),), dtype=dt)
    for i, row in enumerate(rows):
        for (n, k), cell in zip(cols, row):
            if base_kind(k) in ('S', 'enum', 'enum2', 'L') and not ustr:
                cell = [c.encode() for c in cell] if is_array(k) else cell.encode()
            arr[n][i] = cell
    return arr


def enums_for(cols, enumname='COLORS'):
    # 'enum2' columns use a second enum TYPE with the same labels in the same order
    e = {n: (enumname if base_kind(k) == 'enum' else 'SHADES', tuple(ENUM_LABELS)) for n, k in cols
         if base_kind(k) in ('enum', 'enum2')}
    return e or None


# canonical forms ------------------------------------------------------------
def fbits(v, width):
    a = np.array([v], dtype='f%d' % width)
    if np.isnan(a[0]):
        return 'nan'
    return int(a.view('u%d' % width)[0])


def expected_table(cols, rows):
    """Canonical form the property promises: per column (name, class, width/shape), rows of canonical cells."""
    ccols = []
    for n, k in cols:
        b = base_kind(k)
        cls = {'i2': ('i', 2), 'i4': ('i', 4), 'i8': ('i', 8), 'f4': ('f', 4), 'f8': ('f', 8), 'S': ('S', None),
               'enum': ('S', None), 'enum2': ('S', None), 'L': ('S', None)}[b]
        ccols.append((n, cls[0], cls[1], arr_len(k)))
    crow = []
    for row in rows:
        out = []
        for (n, k), cell in zip(cols, row):
            b = base_kind(k)
            conv = (lambda v: fbits(v, int(b[1]))) if b in ('f4', 'f8') else (lambda v: v)
            out.append(tuple(conv(v) for v in cell) if is_array(k) else conv(cell))
        crow.append(tuple(out))
    return ccols, crow


def actual_table(rec):
    """Canonical form of a record array / Table as read back."""
    dt = rec.dtype
    ccols = []
    for n in dt.names:
        f = dt[n]
        shape = 0
        if f.subdtype is not None:
            f, shp = f.subdtype
            shape = shp[0] if len(shp) == 1 else shp
        if f.kind in 'iu':
            ccols.append((n, f.kind, f.itemsize, shape))
        elif f.kind == 'f':
            ccols.append((n, 'f', f.itemsize, shape))
        elif f.kind in 'SU':
            ccols.append((n, 'S', None, shape))
        else:
            ccols.append((n, f.kind, f.itemsize, shape))
    rows = []
    for i in range(len(rec)):
        out = []
        for (n, cls, w, shape) in ccols:
            v = rec[n][i]

            def conv(x):
                if cls == 'i':
                    return int(x)
                if cls == 'f':
                    return fbits(x, w)
                if isinstance(x, bytes):
                    return x.decode('latin-1')
                return str(x)
            out.append(tuple(conv(x) for x in v) if shape else conv(v))
        rows.append(tuple(out))
    return ccols, rows


def string_widths(rec):
    return {n: (rec.dtype[n].subdtype[0] if rec.dtype[n].subdtype else rec.dtype[n]).itemsize
            for n in rec.dtype.names
            if (rec.dtype[n].subdtype[0] if rec.dtype[n].subdtype else rec.dtype[n]).kind == 'S'}


# fixed clock ------------------------------------------------------------------
class _FixedDatetime(_dt.datetime):
    @classmethod
    def utcnow(cls):
        return cls(2020, 1, 2, 3, 4, 5)

    @classmethod
    def now(cls, tz=None):
        return cls(2020, 1, 2, 3, 4, 5, tzinfo=tz)


class _FixedModule:
    datetime = _FixedDatetime
    timezone = _dt.timezone
    UTC = getattr(_dt, 'UTC', _dt.timezone.utc)
    timedelta = _dt.timedelta


def fix_clock():
    ymod.datetime = _FixedModule


class TempDir:
    def __enter__(self):
        self.d = tempfile.mkdtemp(prefix='verif_y_')
        return self.d

    def __exit__(self, *a):
        shutil.rmtree(self.d, ignore_errors=True)


def fresh(path):
    if os.path.exists(path):
        os.remove(path)
    return path
