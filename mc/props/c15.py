"""C15 - least-squares and factorisation solvers: computechi2, pcomp, HMF, pca_solve.

Families (each a complete product of explicit menus; no sampling):

  chi2    computechi2 on every small integer system (A, sqivar, b) vs exact rational normal equations
  pcomp   every small integer data matrix x {standardize} x {covariance} vs a hand-built covariance/correlation matrix
  hmf     HMF as a transition system: root states from HMF.iterate() with n_iter=0 and an explicit seed, then every
          sequence of {astep, gstep, reorder, normalise} (or {astepnn, gstepnn, normalise}) up to a depth, merged by exact
          (a, g) bit patterns; invariants checked on every transition
  hmfrun  the real HMF.solve() for n_iter = 1..3: reproducibility for a fixed seed, unit rms, caller arrays, sign
  pca     pca_solve on the same data: weighted projections, eigenvalue order, use-mask
"""
import itertools
from fractions import Fraction

import numpy as np

from mc.core import Acc

PROP = 'C15'
LEVEL = 'exploration'
ENGINE = 'E1'
TECHNIQUE = ('model checking: bounded-exhaustive product enumeration for computechi2/pcomp/pca_solve and explicit-state search '
             'over HMF step sequences, against exact-rational and dense-lstsq reference models')
LEVEL_TEXT = ('every system, data matrix and HMF step sequence of the stated finite menus was executed on the real code and compared with '
              'an independent reference model; the property is decided on those menus only')
LEVEL_NOTE = ('trusts Python Fraction arithmetic, numpy.linalg.lstsq/eigvalsh and the harness re-statement of the HMF objective; HMF data are '
              'tiny synthetic rank-2-plus-deterministic-noise matrices and all randomness is fixed through the HMF seed argument')
RULE = ('chi2: every A over a small integer alphabet (n<=4, m<=3) x every sqivar pattern over {0,1/2,1,2} x right-hand sides, rank-deficient '
        'systems skipped by an exact rational test, plus a 20x3 Vandermonde system with every single/pair of zero weights, plus a conditioning '
        'ladder (templates 1..x^3 in raw pixel number over 30..200 pixels x column scalings 2^+-10/20 x weights x right-hand sides, '
        'cond(AtWA) 1e2..1e12) and a residual ladder (b = A x0 + eps r, eps in {1,1e-2,..,1e-8,0}); pcomp: every data matrix of the listed shapes/alphabets x unit factor {1,1e3,1e-3,1e-7,1e-17} x standardize x covariance; hmf: every (mode, data set, K, epsilon, mask, seed) root and every '
        'step sequence up to the depth, states merged when (a, g) are bitwise equal; hmfseed: every (mode, data, K, mask, seed) x history of the '
        'global RNG between construction and solve(); pca: every (data, mask, nkeep, niter, maxiter). '
        'Non-trivial: chi2 with more good rows than unknowns or non-unit weights; pcomp with a non-diagonal matrix; HMF transitions that '
        'change the state; pca with at least one masked pixel or nkeep >= 2. Distinct = distinct case tuples (HMF: root + step path).')
ASSUMPTIONS = ['computechi2: "full rank" is decided exactly (rational arithmetic) on A restricted to rows with non-zero weight; tolerance 1e-9 relative',
               'computechi2 conditioning ladder: tolerance 1e-9*cond(A sqrt(W)) normwise against the exact rational solution of the float inputs; '
               'systems with cond(A^T W A) >= 1e12 are not claimed (skipped and counted)',
               'computechi2 residual ladder: chi2 allowance 1e-9*chi2 + 2*sqrt(N*chi2)*d + N*d^2 with d = 8*eps*cond(A sqrt(W))*max|b sqrt(w)| '
               '(the accuracy of a direct sum of squared residuals)',
               'HMF seed histories: the harness pins the global numpy RNG before each scenario, so "other use of the RNG" is deterministic',
               'lazy attributes: computechi2 is read in 4 orders on every system (all 720 orders on 6 systems), pcomp in all 24 orders on small '
               'data; values are copied when read, compared with the oracle, and must be unchanged on a second read',
               'pcomp: all tolerances are relative to the largest eigenvalue of the reference matrix (unit independent); eigenvalues must scale '
               'with the square of a unit factor in covariance mode and not at all in correlation/standardised mode',
               'pcomp: columns with zero variance are skipped when a correlation matrix or standardisation is requested; with standardize=True '
               'either normalisation convention (ddof 0 or 1) and either reading of "data" (raw, centred or standardised) is accepted',
               'HMF: data have no all-zero columns (documented limitation) and every row/column keeps more good pixels than K; for epsilon > 0 '
               '"optimum given the other factor" is read as the per-pixel optimum with the neighbouring pixels held at their previous values',
               'HMF non-negative mode: only sign, normalisation and reproducibility are required of the multiplicative updates',
               'pca_solve: pixels masked in every spectrum (first/last/interior, one or two) are in the menu: they carry zero weight in the '
               'projection oracle and must be counted 0 in the use-mask',
               'pca_solve: nreturn = nkeep, no spectrum is entirely masked or constant; projections are compared at (1e-6 + 2e-8*cond) relative because the '
               'returned eigenspectra are float32; cond > 1e5 skipped']

INTB = [3.0, -1.0, 2.0, 5.0, -4.0, 1.0]
HALF = Fraction(1, 2)


# ====================================================================== computechi2
def frac_solve(N, R):
    """Gauss-Jordan in exact rationals: returns (inverse of N, N^-1 R) or None when singular."""
    m = len(N)
    M = [[Fraction(v) for v in N[i]] + [Fraction(1 if i == j else 0) for j in range(m)] + [Fraction(R[i])] for i in range(m)]
    for c in range(m):
        p = next((r for r in range(c, m) if M[r][c] != 0), None)
        if p is None:
            return None
        M[c], M[p] = M[p], M[c]
        pv = M[c][c]
        M[c] = [v / pv for v in M[c]]
        for r in range(m):
            if r != c and M[r][c] != 0:
                f = M[r][c]
                M[r] = [a - f * b for a, b in zip(M[r], M[c])]
    return [row[m:2 * m] for row in M], [row[2 * m] for row in M]


def chi2_reference(A, s, b):
    """Exact weighted least squares. A: n x m ints, s: sqivar as Fractions, b: floats with exact binary values."""
    n, m = len(A), len(A[0])
    w = [Fraction(v) ** 2 for v in s]
    N = [[sum(w[i] * A[i][k] * A[i][l] for i in range(n)) for l in range(m)] for k in range(m)]
    R = [sum(w[i] * A[i][k] * Fraction(b[i]) for i in range(n)) for k in range(m)]
    sol = frac_solve(N, R)
    if sol is None:
        return None
    inv, x = sol
    yfit = [sum(A[i][k] * x[k] for k in range(m)) for i in range(n)]
    chi2 = sum(w[i] * (yfit[i] - Fraction(b[i])) ** 2 for i in range(n))
    dof = sum(1 for v in s if v > 0) - m
    return {'acoeff': [float(v) for v in x], 'yfit': [float(v) for v in yfit], 'chi2': float(chi2), 'dof': dof,
            'covar': [[float(v) for v in row] for row in inv], 'var': [float(inv[k][k]) for k in range(m)]}


def _close(got, exp, tol):
    got = np.asarray(got, dtype=float)
    exp = np.asarray(exp, dtype=float)
    if got.shape != exp.shape:
        return False
    scale = 1.0 + (float(np.abs(exp).max()) if exp.size else 0.0)
    return bool(np.all(np.abs(got - exp) <= tol * scale))


def chi2_arrays(case):
    if case.get('vander'):
        # Vandermonde columns 1, t, t^2 on the dyadic abscissae t = (2i-19)/32 (exact in binary floating point)
        return [[Fraction(1), Fraction(2 * i - 19, 32), Fraction(2 * i - 19, 32) ** 2] for i in range(20)]
    return case['A']


CHI2_ATTRS = ('acoeff', 'yfit', 'chi2', 'dof', 'covar', 'var')
CHI2_EXTRA_ORDERS = (('covar-first', ('covar', 'acoeff', 'yfit', 'chi2', 'dof', 'var')),
                     ('var-first', ('var', 'chi2', 'yfit', 'acoeff', 'dof', 'covar')),
                     ('reversed', tuple(reversed(CHI2_ATTRS))))


def read_attrs(make, order):
    """Fresh object; read the lazy attributes in `order` (values copied at the moment of reading), then read them all again."""
    c = make()
    got = {}
    for nm in order:
        got[nm] = np.array(getattr(c, nm), copy=True)
    again = {nm: np.array(getattr(c, nm), copy=True) for nm in order}
    return got, again


def chi2_orders(make, compare, trig, orders, first_done=None):
    """compare(got) -> [(attr, msg)]. The canonical order reports plain signatures; other orders carry the order as trigger,
    and every attribute must read the same the second time."""
    bad = []
    for oname, order in orders:
        got, again = read_attrs(make, order)
        suffix = '' if oname == 'canonical' else ':read-order=' + oname
        for attr, msg in compare(got):
            bad.append(('computechi2:%s%s%s' % (attr, trig, suffix), msg))
        for nm in order:
            if not (got[nm].shape == again[nm].shape and np.array_equal(got[nm], again[nm], equal_nan=True)):
                bad.append(('computechi2:%s%s:changes-on-second-read' % (nm, trig), 'order %s: first %s then %s' % (list(order), got[nm].tolist(), again[nm].tolist())))
    return bad


def check_chi2(case):
    from pydl.pydlutils.math import computechi2
    A = chi2_arrays(case)
    s = [Fraction(v).limit_denominator(8) for v in case['s']]
    b = [float(v) for v in case['b']]
    n, m = len(A), len(A[0])
    ref = chi2_reference(A, s, b)
    if ref is None:
        return None, 'skip:rank-deficient'
    form = case.get('form', '2d')
    trig = ':1d-amatrix' if form == '1d' else ''
    Aarr = np.array(A, dtype=float)
    if form == '1d':
        Aarr = Aarr[:, 0].copy()
    sarr = np.array([float(v) for v in s])
    barr = np.array(b)
    def make():
        return computechi2(barr.copy(), sarr.copy(), Aarr.copy())

    def compare(got):
        out = []
        for name in ('acoeff', 'yfit', 'chi2', 'covar', 'var'):
            g = np.asarray(got[name], dtype=float)
            e = np.asarray(ref[name], dtype=float)
            if name == 'chi2':
                ok = g.shape == () and abs(float(g) - float(e)) <= 1e-9 * (1.0 + abs(float(e)) + float(np.sum((sarr * barr) ** 2)))
            else:
                ok = _close(g, e, 1e-9)
            if not ok:
                out.append((name, 'got %s expected %s' % (np.asarray(g).tolist(), np.asarray(e).tolist())))
        if np.shape(got['dof']) != () or int(got['dof']) != ref['dof']:
            out.append(('dof', 'got %r expected %r' % (got['dof'], ref['dof'])))
        return out
    orders = (('canonical', CHI2_ATTRS),) + CHI2_EXTRA_ORDERS
    if case.get('orders') == 'all':
        orders = tuple(('canonical' if o == CHI2_ATTRS else o[0] + '-first', o) for o in itertools.permutations(CHI2_ATTRS))
    try:
        bad = chi2_orders(make, compare, trig, orders)
    except Exception as e:
        return [('computechi2:exception:%s%s' % (type(e).__name__, trig), repr(e))], 'exc'
    ngood = sum(1 for v in s if v > 0)
    label = 'ok:chi2:m%d:%s:%s' % (m, 'over' if ngood > m else 'exact', 'zw' if ngood < n else ('w' if any(v != 1 for v in s) else 'unit'))
    return bad, label


# ---------------------------------------------------------------------- conditioning ladder
LADDER_COEFF = [2.0, -3.0, 1.5, -2.5]
LADDER_CLAIM = 1e12          # systems with cond(A^T W A) at or above this are not claimed (skipped and counted)
_LADDER_DEBUG = {}


def ladder_arrays(case):
    """Polynomial templates 1, x, .., x^deg in raw pixel number x = 0..n-1, optionally one column scaled by 2^spow."""
    n, deg = case['n'], case['deg']
    A = np.array([[float(i) ** k for k in range(deg + 1)] for i in range(n)])
    if case['scol'] is not None:
        A[:, case['scol']] *= 2.0 ** case['spow']
    wk = case['wkind']
    if wk == 'unit':
        s = np.ones(n)
    elif wk == 'alt':
        s = np.array([0.5 if i % 2 else 2.0 for i in range(n)])
    else:   # 'gaps': zero weights every 7th pixel, three weight levels elsewhere
        s = np.array([0.0 if i % 7 == 3 else (1.0, 1.5, 2.0)[i % 3] for i in range(n)])
    bk = case['bkind']
    t = np.arange(n) / float(n - 1)
    if bk == 'poly':
        b = sum(LADDER_COEFF[k] * t ** k for k in range(deg + 1))
    elif bk == 'bump':
        b = np.array([INTB[(i * 5) % 6] for i in range(n)])
    else:   # 'unit'
        b = np.zeros(n)
        b[n // 2] = 1.0
    return A, s, np.asarray(b, dtype=float)


def check_chi2_ladder(case):
    """computechi2 on moderately ill-conditioned full-rank systems; oracle = exact rational normal equations of the
    float inputs; tolerance 1e-9 * cond(A sqrt(W)) (what a backward-stable float64 solve can promise), normwise."""
    from pydl.pydlutils.math import computechi2
    A, s, b = ladder_arrays(case)
    n, m = A.shape
    sv = np.linalg.svd((A * s[:, None])[s > 0], compute_uv=False)
    condA = float(sv[0] / sv[-1]) if sv[-1] > 0 else float('inf')
    decade = int(np.floor(np.log10(condA * condA))) if np.isfinite(condA) else 99
    if not condA * condA < LADDER_CLAIM:
        return None, 'skip:chi2-ladder:cond(AtWA)>=1e12'
    ref = chi2_reference([[Fraction(v) for v in row] for row in A.tolist()], [Fraction(v) for v in s.tolist()], b.tolist())
    if ref is None:
        return None, 'skip:rank-deficient'
    trig = ':cond(AtWA)>=1e%d' % min(decade, 11) if decade >= 6 else ''
    tol = 1e-9 * max(1.0, condA)
    scales = {'acoeff': float(np.abs(ref['acoeff']).max()), 'yfit': float(np.abs(ref['yfit']).max() + np.abs(b).max()),
              'chi2': float(abs(ref['chi2']) + np.sum((s * b) ** 2)), 'covar': float(np.abs(ref['covar']).max()),
              'var': float(np.abs(ref['var']).max())}
    worst = 0.0

    def make():
        return computechi2(b.copy(), s.copy(), A.copy())

    def compare(got):
        nonlocal worst
        out = []
        for name in ('acoeff', 'yfit', 'chi2', 'covar', 'var'):
            g = np.asarray(got[name], dtype=float)
            e = np.asarray(ref[name], dtype=float)
            err = float(np.abs(g - e).max()) if g.shape == e.shape and np.all(np.isfinite(g)) else float('inf')
            worst = max(worst, err / (tol * scales[name] + 1e-300))
            if not err <= tol * scales[name] + 1e-300:
                out.append((name, 'cond(AtWA) %.3g: max error %.3g (allowed %.3g); got %s expected %s'
                            % (condA * condA, err, tol * scales[name], np.asarray(g).ravel()[:4].tolist(), np.asarray(e).ravel()[:4].tolist())))
        if np.shape(got['dof']) != () or int(got['dof']) != ref['dof']:
            out.append(('dof', 'got %r expected %r' % (got['dof'], ref['dof'])))
        return out
    try:
        orders = (('canonical', CHI2_ATTRS),) + CHI2_EXTRA_ORDERS
        if case.get('orders') == 'all':
            orders = tuple(('canonical' if o == CHI2_ATTRS else o[0] + '-first', o) for o in itertools.permutations(CHI2_ATTRS))
        bad = chi2_orders(make, compare, trig, orders)
    except Exception as e:
        return [('computechi2:exception:%s%s' % (type(e).__name__, trig), repr(e))], 'exc'
    _LADDER_DEBUG['worst'] = worst          # calibration aid (ratio error/allowance); not part of the verdict
    return bad, 'ok:chi2:ladder:deg%d:cond(AtWA)~1e%d' % (case['deg'], decade)


# ---------------------------------------------------------------------- residual ladder (chi2 of nearly exact fits)
RESID_EPS = [1.0, 1e-2, 1e-4, 1e-6, 1e-8, 0.0]
RESID_SYSTEMS = ('vander20x3', 'pix30d1', 'pix100d1', 'pix30d2', 'pix60d2', 'int6x2')
RESID_X0 = [2.0, -3.0, 1.0]


def resid_arrays(case):
    """b = A x0 + eps * r: A x0 is exact in binary floating point (integer / dyadic entries), r a fixed integer pattern."""
    sysname = case['system']
    if sysname == 'vander20x3':
        A = np.array([[1.0, (2 * i - 19) / 32.0, ((2 * i - 19) / 32.0) ** 2] for i in range(20)])
    elif sysname.startswith('pix'):
        n, deg = int(sysname[3:sysname.index('d')]), int(sysname[-1])
        A = np.array([[float(i) ** k for k in range(deg + 1)] for i in range(n)])
    else:   # 'int6x2'
        A = np.array([[1.0, -1.0], [1.0, 0.0], [1.0, 1.0], [1.0, 2.0], [0.0, 1.0], [2.0, -1.0]])
    n, m = A.shape
    wk = case['wkind']
    if wk == 'unit':
        s = np.ones(n)
    elif wk == 'alt':
        s = np.array([0.5 if i % 2 else 2.0 for i in range(n)])
    else:   # 'gaps'
        s = np.array([0.0 if i % 7 == 3 else (1.0, 1.5, 2.0)[i % 3] for i in range(n)])
    r = np.array([INTB[(i * 5) % 6] for i in range(n)])
    b = A.dot(np.array(RESID_X0[:m])) + case['eps'] * r
    return A, s, b


def check_chi2_resid(case):
    """chi2 must be the sum of squared weighted residuals even when the residuals are tiny compared with b:
    allowed error 1e-9 chi2 + 2 sqrt(N chi2) d + N d^2 with d = 8 eps_machine cond(A sqrt(W)) max|b sqrt(w)|, which a direct residual sum meets."""
    from pydl.pydlutils.math import computechi2
    A, s, b = resid_arrays(case)
    n, m = A.shape
    ref = chi2_reference([[Fraction(v) for v in row] for row in A.tolist()], [Fraction(v) for v in s.tolist()], b.tolist())
    if ref is None:
        return None, 'skip:rank-deficient'
    sv = np.linalg.svd((A * s[:, None])[s > 0], compute_uv=False)
    condA = float(sv[0] / sv[-1])
    # each weighted residual can be formed to delta = 8 eps cond |b sqrt(w)|_max at best, so a direct residual sum is good to
    # 2 sqrt(N chi2) delta + N delta^2 (cross term + floor); exact fits must give chi2 within the floor of zero
    delta = 8 * np.finfo(float).eps * condA * float(np.abs(b * s).max())
    allowed = 1e-9 * ref['chi2'] + 2.0 * np.sqrt(n * ref['chi2']) * delta + n * delta * delta
    trig = 'exact-fit' if case['eps'] == 0 else 'resid/b~%g' % case['eps']
    bad = []
    worst = 0.0
    for oname, order in (('canonical', ('chi2', 'acoeff')), ('covar-first', ('covar', 'var', 'chi2', 'acoeff'))):
        suffix = '' if oname == 'canonical' else ':read-order=' + oname
        try:
            got, again = read_attrs(lambda: computechi2(b.copy(), s.copy(), A.copy()), order)
        except Exception as e:
            return [('computechi2:exception:%s' % type(e).__name__, repr(e))], 'exc'
        err = abs(float(got['chi2']) - ref['chi2'])
        worst = max(worst, err / allowed if allowed > 0 else float('inf'))
        if not err <= allowed:
            bad.append(('computechi2:chi2:nearly-exact-fit' + suffix, '%s: chi2 %r, sum of squared weighted residuals %r (allowed error %.3g)'
                        % (trig, float(got['chi2']), ref['chi2'], allowed)))
        if not _close(got['acoeff'], ref['acoeff'], 1e-9 * max(1.0, condA)):
            bad.append(('computechi2:acoeff' + suffix, 'got %s expected %s' % (got['acoeff'].tolist(), ref['acoeff'])))
    _LADDER_DEBUG['resid'] = worst
    return bad, 'ok:chi2:resid:%s' % trig


# ====================================================================== pcomp
def pcomp_reference(X, standardize, covariance):
    """List of acceptable (matrix, data-used) pairs, built without numpy.cov / corrcoef."""
    X = np.asarray(X, dtype=float)
    n = X.shape[0]
    mean = X.sum(axis=0) / n
    Xc = X - mean
    C = Xc.T.dot(Xc) / (n - 1)
    var = np.diag(C).copy()
    if not np.any(var > 0):
        return 'skip:zero-variance-data'
    if (not covariance or standardize) and np.any(var <= 0):
        return 'skip:constant-column'
    out = []
    if not standardize:
        if covariance:
            out.append((C, [X]))
        else:
            d = np.sqrt(var)
            out.append((C / np.outer(d, d), [X]))
    else:
        d = np.sqrt(var)
        R = C / np.outer(d, d)
        Z0 = Xc / np.sqrt(var * (n - 1) / n)     # population standard deviation (ddof 0)
        Z1 = Xc / d                             # sample standard deviation (ddof 1)
        datas = [Z0, Z1, Xc, X]
        if covariance:
            out.append((R * n / (n - 1.0), datas))
            out.append((R, datas))
        else:
            out.append((R, datas))
    return out


def check_pcomp(case):
    from pydl.pcomp import pcomp
    unit = float(case.get('scale', 1.0))
    X = np.array(case['x'], dtype=float) * unit
    std, cov = case['standardize'], case['covariance']
    refs = pcomp_reference(X, std, cov)
    if isinstance(refs, str):
        return None, refs
    flags = 'std%d:cov%d' % (std, cov)
    order = case.get('order')
    osuf = ''
    try:
        p = pcomp(X, standardize=std, covariance=cov)
        if order is None:
            ev = np.asarray(p.eigenvalues, dtype=float)
            co = np.asarray(p.coefficients, dtype=float)
            vf = np.asarray(p.variance, dtype=float)
            de = np.asarray(p.derived, dtype=float)
        else:
            # lazy attributes read in the given order on a fresh object (values copied when read), then read again
            vals = {nm: np.array(getattr(p, nm), dtype=float, copy=True) for nm in order}
            again = {nm: np.array(getattr(p, nm), dtype=float, copy=True) for nm in order}
            ev, co, vf, de = vals['eigenvalues'], vals['coefficients'], vals['variance'], vals['derived']
            osuf = ':read-order=%s-first' % order[0]
    except Exception as e:
        return [('pcomp:exception:%s' % type(e).__name__, repr(e))], 'exc'
    nv = X.shape[1]
    bad = []
    M0 = refs[0][0]
    evref0 = np.sort(np.linalg.eigvalsh(M0))[::-1]
    scale = float(np.abs(evref0).max())         # all tolerances are relative to the size of the matrix (unit independent)
    singular = bool(evref0[-1] < 1e-9 * scale)
    strig = ':singular-matrix' if singular else ''
    if ev.shape != (nv,) or np.any(np.diff(ev) > 1e-12 * scale):
        bad.append(('pcomp:eigenvalues-not-descending', 'eigenvalues %s' % ev.tolist()))
    matched = None
    for M, datas in refs:
        evref = np.sort(np.linalg.eigvalsh(M))[::-1]
        if ev.shape == (nv,) and np.all(np.abs(np.sort(ev)[::-1] - evref) <= 1e-9 * scale):
            matched = (M, datas)
            break
    if matched is None:
        bad.append(('pcomp:eigenvalues-value', 'eigenvalues %s expected %s' % (ev.tolist(), evref0.tolist())))
        matched = refs[0]
    M, datas = matched
    outer_ok = co.shape == (nv, nv) and bool(np.all(np.abs(co.dot(co.T) - M) <= 1e-9 * scale))
    if not outer_ok:
        why = 'nan' if not np.all(np.isfinite(co)) else 'value'
        bad.append(('pcomp:outer-product:%s%s' % (why, strig), 'coefficients %s ; C C^T should be %s' % (co.tolist(), M.tolist())))
    if not (abs(float(vf.sum()) - 1.0) <= 1e-9) or vf.shape != (nv,):
        bad.append(('pcomp:variance-sum' + strig, 'variance %s' % vf.tolist()))
    if np.all(np.isfinite(co)):
        dscale = max(float(np.abs(D).max()) for D in datas) * float(np.abs(co).max()) * nv
        if not any(de.shape == (X.shape[0], nv) and np.all(np.abs(de - D.dot(co)) <= 1e-9 * dscale) for D in datas):
            bad.append(('pcomp:derived' + (':standardize' if std else ''),
                        'derived[0] %s, data[0] x components %s' % (de[0].tolist() if de.ndim == 2 else de.shape, datas[0][0].dot(co).tolist())))
    if order is not None:
        bad = [(sg + osuf, m) for sg, m in bad if not sg.startswith('pcomp:derived:standardize')]
        for nm in order:
            if not np.array_equal(vals[nm], again[nm], equal_nan=True):
                bad.append(('pcomp:%s:changes-on-second-read' % nm, 'order %s' % list(order)))
    if unit != 1.0:
        # metamorphic: eigenvalues(c x) = c^2 eigenvalues(x) for a covariance matrix of raw data, unchanged otherwise
        try:
            ev1 = np.asarray(pcomp(np.array(case['x'], dtype=float), standardize=std, covariance=cov).eigenvalues, dtype=float)
            fac = unit * unit if (cov and not std) else 1.0
            if ev1.shape != ev.shape or not np.all(np.abs(ev - fac * ev1) <= 1e-9 * fac * float(np.abs(ev1).max())):
                bad.append(('pcomp:eigenvalues-not-scale-covariant:' + ('covariance' if fac != 1.0 else 'unit-free'),
                            'data x %g: eigenvalues %s, unscaled %s (expected factor %g)' % (unit, ev.tolist(), ev1.tolist(), fac)))
        except Exception as e:
            bad.append(('pcomp:exception:%s' % type(e).__name__, repr(e)))
    offdiag = bool(np.any(np.abs(M0 - np.diag(np.diag(M0))) > 1e-12 * scale))
    return bad, 'ok:pcomp:%s:%s:%s' % (flags, 'singular' if singular else ('diag' if not offdiag else 'full'), 'x%g' % unit)


# ====================================================================== HMF
DATASETS = {'D1': (5, 8), 'D2': (6, 10), 'D3': (8, 12)}
LS_OPS = ('astep', 'gstep', 'reorder', 'norm')
NN_OPS = ('astepnn', 'gstepnn', 'norm')


def hmf_data(name, positive, mask):
    """Deterministic rank-2-plus-noise spectra (N x M) and inverse variances; `mask` is a list of [i, j] zero-weight pixels."""
    N, M = DATASETS[name]
    i = np.arange(N, dtype=float)
    jj = np.arange(M, dtype=float)
    j = jj / (M - 1.0)
    b1 = 1.0 + 0.5 * j
    if positive:
        b2 = 0.5 + j * j
        c2 = 0.25 + 0.5 * ((i * 3) % 4)
    else:
        b2 = np.sin(3.0 * j) - 0.3
        c2 = 0.5 * ((i * 3) % 4) - 0.75
    c1 = 1.0 + 0.3 * i
    noise = 0.02 * (((np.add.outer(7 * i, 3 * jj)) % 5) - 2.0)
    S = np.outer(c1, b1) + np.outer(c2, b2) + noise
    if not positive:
        S = S - 1.75          # the default mode must cope with negative fluxes (and must not clip them in the caller's array)
    W = 1.0 + 0.5 * ((np.add.outer(i, 2 * jj)) % 3)
    for (a, b) in mask:
        W[a, b] = 0.0
    return S, W


def mask_menu(name, kind):
    N, M = DATASETS[name]
    if kind == 'none':
        return [[]]
    if kind == 'scatter':
        return [[[i, (2 * i + 1) % M] for i in range(N)]]
    if kind == 'pairs':
        return [[[0, 2], [1, 2]], [[N - 1, M - 1], [N - 2, M - 1]], [[0, 0], [N - 1, 0], [2, 3], [2, 4]]]
    if kind == 'single':
        return [[[i, j]] for i in range(N) for j in range(M)]
    if kind == 'columns':      # pixels with zero weight in EVERY spectrum (pca_solve only; HMF documents them as unsupported)
        colsets = [[0], [M - 1], [M // 2], [0, M - 1], [2, M // 2 + 1], [0, 1], [M // 2, M - 1]]
        out = [[[i, j] for j in cs for i in range(N)] for cs in colsets]
        out.append([[i, M // 2] for i in range(N)] + [[1, 1], [N - 1, M - 2]])      # a dead pixel plus scattered masked pixels
        return out
    raise KeyError(kind)


def my_badness(S, W, a, g, eps):
    r = S - a.dot(g)
    v = float(np.sum(W * r * r))
    if eps:
        v += float(eps * np.sum(np.diff(g, axis=1) ** 2))
    return v


def objective_up(S, W, eps, a0, g0, a1, g1):
    """'chi-square never increases': violated only when the data chi-square AND the penalised objective both increase."""
    slack = 1e-12 * float(np.sum(W * S * S))
    c0, c1 = my_badness(S, W, a0, g0, None), my_badness(S, W, a1, g1, None)
    b0, b1 = my_badness(S, W, a0, g0, eps), my_badness(S, W, a1, g1, eps)
    if (not c1 <= c0 * (1 + 1e-9) + slack) and (not b1 <= b0 * (1 + 1e-9) + slack):
        return 'chi2 %.12g -> %.12g, with penalty %.12g -> %.12g' % (c0, c1, b0, b1)
    return ''


def hmf_root(cfg):
    """Create the HMF object and its initial state through the real initialisation code (iterate with n_iter=0)."""
    from pydl.pydlspec2d.spec1d import HMF
    nn = cfg['mode'] == 'nn'
    S, W = hmf_data(cfg['data'], nn, cfg['mask'])
    S0, W0 = S.copy(), W.copy()
    np.random.seed(HARNESS_RNG_STATE)   # the global RNG never carries history into a case; HMF reseeds it with cfg['seed']
    h = HMF(S, W, K=cfg['K'], n_iter=0, seed=cfg['seed'], nonnegative=nn, epsilon=cfg['eps'])
    h.iterate()
    return h, S0, W0, S, W


def apply_op(h, op):
    if op == 'astep':
        h.a = h.astep()
    elif op == 'gstep':
        h.g = h.gstep()
    elif op == 'astepnn':
        h.a = h.astepnn()
    elif op == 'gstepnn':
        h.g = h.gstepnn()
    elif op == 'reorder':
        h.a, h.g = h.reorder()
    elif op == 'norm':
        norm = np.asarray(h.normbase(), dtype=float)
        h.g = h.g / norm[:, None]
        h.a = h.a * norm[None, :]
    else:
        raise KeyError(op)


COND_MAX = 1e4
HARNESS_RNG_STATE = 20260929


class IllConditioned(Exception):
    pass


def ref_rows_optimum(D, w, y, extra_rows=None, extra_rhs=None):
    """min_x sum w (y - D x)^2 (+ extra rows) by dense lstsq; returns minimal objective value."""
    sw = np.sqrt(w)
    A = D * sw[:, None]
    r = y * sw
    if extra_rows is not None:
        A = np.vstack([A, extra_rows])
        r = np.concatenate([r, extra_rhs])
    if not (np.all(np.isfinite(A)) and np.all(np.isfinite(r))) or A.shape[0] < A.shape[1]:
        raise IllConditioned()
    try:
        sv = np.linalg.svd(A, compute_uv=False)
    except np.linalg.LinAlgError:
        raise IllConditioned()
    if not (sv[-1] > 0 and sv[0] / sv[-1] <= COND_MAX):
        raise IllConditioned()
    x = np.linalg.lstsq(A, r, rcond=None)[0]
    return float(np.sum((A.dot(x) - r) ** 2)), A, r


def check_transition(S, W, eps, op, a0, g0, a1, g1):
    """Invariants of one transition (a0,g0) --op--> (a1,g1); returns list of (sig, msg)."""
    bad = []
    et = ':epsilon>0' if eps else ''
    N, M = S.shape
    K = g1.shape[0]
    if not (np.all(np.isfinite(a1)) and np.all(np.isfinite(g1))):
        return [('HMF.%s:non-finite%s' % (op, et), 'nan/inf in factors')]
    if op in ('astepnn', 'gstepnn', 'norm') and (np.all(a0 >= 0) and np.all(g0 >= 0)):
        if not (np.all(a1 >= 0) and np.all(g1 >= 0)):
            bad.append(('HMF.%s:negative-factor%s' % (op, et), 'min a %r min g %r' % (float(a1.min()), float(g1.min()))))
    if op in ('astepnn', 'gstepnn'):
        return bad
    up = objective_up(S, W, eps, a0, g0, a1, g1)
    if up:
        bad.append(('HMF.%s:chi-square-increases%s' % (op, et), up))
    if op == 'astep':
        for i in range(N):
            best, A, r = ref_rows_optimum(g1.T, W[i], S[i])
            G = (g1 * W[i]).dot(g1.T)
            F = g1.dot(S[i] * W[i])
            grad = G.dot(a1[i]) - F
            sc = np.linalg.norm(G) * np.linalg.norm(a1[i]) + np.linalg.norm(F) + 1e-300
            if not np.linalg.norm(grad) <= 1e-8 * sc:
                bad.append(('HMF.astep:gradient-nonzero' + et, 'spectrum %d: |grad| %.3g (scale %.3g)' % (i, np.linalg.norm(grad), sc)))
                break
            have = float(np.sum((A.dot(a1[i]) - r) ** 2))
            if not have <= best * (1 + 1e-9) + 1e-12 * float(np.sum(r * r)) + 1e-300:
                bad.append(('HMF.astep:not-optimal' + et, 'spectrum %d: chi2 %.12g, optimum %.12g' % (i, have, best)))
                break
    elif op == 'gstep':
        for j in range(M):
            nb = [c for c in (j - 1, j + 1) if 0 <= c < M] if eps else []
            Aj = (a1.T * W[:, j]).dot(a1)
            Fj = a1.T.dot(S[:, j] * W[:, j])
            if eps:
                Aj = Aj + eps * len(nb) * np.eye(K)
                Fj = Fj + eps * sum(g0[:, c] for c in nb)
            grad = Aj.dot(g1[:, j]) - Fj
            sc = np.linalg.norm(Aj) * np.linalg.norm(g1[:, j]) + np.linalg.norm(Fj) + 1e-300
            if not np.linalg.norm(grad) <= 1e-8 * sc:
                bad.append(('HMF.gstep:gradient-nonzero' + et, 'pixel %d: |grad| %.3g (scale %.3g)' % (j, np.linalg.norm(grad), sc)))
                break
            if eps:
                er = np.vstack([np.sqrt(eps) * np.eye(K) for _ in nb])
                eh = np.concatenate([np.sqrt(eps) * g0[:, c] for c in nb])
            else:
                er = eh = None
            best, A, r = ref_rows_optimum(a1, W[:, j], S[:, j], er, eh)
            have = float(np.sum((A.dot(g1[:, j]) - r) ** 2))
            if not have <= best * (1 + 1e-9) + 1e-12 * float(np.sum(r * r)) + 1e-300:
                bad.append(('HMF.gstep:not-optimal' + et, 'pixel %d: objective %.12g, optimum %.12g' % (j, have, best)))
                break
    elif op == 'norm':
        rms = np.sqrt((g1 ** 2).mean(axis=1))
        if not np.all(np.abs(rms - 1.0) <= 1e-12):
            bad.append(('HMF.normalise:rms-not-unit', 'rms %s' % rms.tolist()))
    return bad


def root_cfg(case):
    return {k: case[k] for k in ('mode', 'data', 'K', 'eps', 'mask', 'seed')}


def step_is_ill_conditioned(S, W, eps, op, a0, g0):
    """True when a least-squares system that `op` has to solve is (nearly) rank deficient: the optimum is then not unique / not computable."""
    N, M = S.shape
    K = g0.shape[0]
    try:
        if op == 'astep':
            for i in range(N):
                ref_rows_optimum(g0.T, W[i], S[i])
        elif op == 'gstep':
            for j in range(M):
                nb = [c for c in (j - 1, j + 1) if 0 <= c < M] if eps else []
                er = np.vstack([np.sqrt(eps) * np.eye(K) for _ in nb]) if eps else None
                eh = np.concatenate([np.sqrt(eps) * g0[:, c] for c in nb]) if eps else None
                ref_rows_optimum(a0, W[:, j], S[:, j], er, eh)
    except IllConditioned:
        return True
    return False


def do_transition(h, S, W, eps, op, a0, g0):
    """Run one step of the real object from state (a0, g0). Returns (skip_reason or None, violations, a1, g1)."""
    if a0.shape[1] != g0.shape[0]:
        return 'hmf:factor-shapes-disagree', [], None, None
    if step_is_ill_conditioned(S, W, eps, op, a0, g0):
        return 'hmf:ill-conditioned-step', [], None, None
    h.a, h.g = a0.copy(), g0.copy()
    try:
        apply_op(h, op)
    except Exception as e:
        return None, [('HMF.%s:exception:%s' % (op, type(e).__name__), repr(e))], None, None
    a1, g1 = np.array(h.a, dtype=float), np.array(h.g, dtype=float)
    return None, check_transition(S, W, eps, op, a0, g0, a1, g1), a1, g1


def root_checks(cfg, h, S0, W0, S, W):
    bad = []
    if not (np.all(np.isfinite(np.asarray(h.a, dtype=float))) and np.all(np.isfinite(np.asarray(h.g, dtype=float)))):
        bad.append(('HMF.init:non-finite-factors', 'nan/inf in the initial a or g'))
    if cfg['mode'] == 'ls' and not (np.array_equal(S, S0) and np.array_equal(W, W0)):
        bad.append(('HMF:caller-arrays-modified', 'spectra/invvar passed to HMF() were changed by the initialisation'))
    return bad


def check_hmf_path(case):
    """Replay: rebuild the root, walk `path`, check the last transition `op`."""
    cfg = root_cfg(case)
    try:
        h, S0, W0, S, W = hmf_root(cfg)
    except Exception as e:
        return [('HMF.init:exception:%s' % type(e).__name__, repr(e))], 'exc'
    if case['op'] == 'init':
        return root_checks(cfg, h, S0, W0, S, W), 'replayed'
    Sx, Wx = np.asarray(h.spectra, dtype=float), np.asarray(h.invvar, dtype=float)
    for op in case['path']:
        apply_op(h, op)
    a0, g0 = np.array(h.a, dtype=float), np.array(h.g, dtype=float)
    skip, bad, a1, g1 = do_transition(h, Sx, Wx, cfg['eps'], case['op'], a0, g0)
    if skip:
        return None, 'skip:' + skip
    if cfg['mode'] == 'ls' and not (np.array_equal(S, S0) and np.array_equal(W, W0)):
        bad.append(('HMF:caller-arrays-modified', 'spectra/invvar passed to HMF() were changed'))
    return bad, 'replayed'


def explore_hmf(acc, cfg, depth, seen):
    """BFS over step sequences from one root; states merged on exact (a, g) bytes."""
    ops = LS_OPS if cfg['mode'] == 'ls' else NN_OPS
    base = dict(cfg, f='hmf')
    try:
        h, S0, W0, S, W = hmf_root(cfg)
    except Exception as e:
        case = dict(base, path=[], op='init')
        acc.case(_key(case), True, 'bad:HMF.init:exception')
        acc.violation('HMF.init:exception:%s' % type(e).__name__, case, repr(e))
        return
    Sx, Wx = np.asarray(h.spectra, dtype=float), np.asarray(h.invvar, dtype=float)
    a, g = np.array(h.a, dtype=float), np.array(h.g, dtype=float)
    rbad = root_checks(cfg, h, S0, W0, S, W)
    case = dict(base, path=[], op='init')
    acc.case(_key(case), True, 'ok:hmf:root:%s' % cfg['mode'] if not rbad else 'bad:' + rbad[0][0])
    for sg, msg in rbad:
        acc.violation(sg, case, msg)
    if rbad:
        return
    if g.shape[0] != cfg['K']:
        acc.skip('hmf:root:kmeans-returned-fewer-centroids')
        return
    sid = lambda a, g: a.tobytes() + b'|' + g.tobytes()
    acc.extra['hmf_roots'] += 1
    if sid(a, g) in seen:
        acc.extra['hmf_roots_merged'] += 1
        return
    seen.add(sid(a, g))
    frontier = [([], a, g)]
    acc.extra['states'] += 1
    for d in range(depth):
        nxt = []
        for path, a0, g0 in frontier:
            for op in ops:
                case = dict(base, path=path, op=op)
                skip, bad, a1, g1 = do_transition(h, Sx, Wx, cfg['eps'], op, a0, g0)
                if skip:
                    acc.skip(skip)
                    continue
                if cfg['mode'] == 'ls' and not (np.array_equal(S, S0) and np.array_equal(W, W0)):
                    bad.append(('HMF:caller-arrays-modified', 'spectra/invvar passed to HMF() were changed'))
                acc.extra['transitions'] += 1
                if a1 is None:
                    acc.case(_key(case), True, 'bad:' + bad[0][0], sample=case)
                    for sg, msg in bad:
                        acc.violation(sg, case, msg)
                    continue
                changed = not (np.array_equal(a1, a0) and np.array_equal(g1, g0))
                lab = 'ok:hmf:%s:%s:%s' % (cfg['mode'], op, 'moves' if changed else 'fixpoint')
                if op in ('astepnn', 'gstepnn') and not bad:
                    up = my_badness(Sx, Wx, a1, g1, cfg['eps']) > my_badness(Sx, Wx, a0, g0, cfg['eps']) * (1 + 1e-9)
                    lab += ':objective-up' if up else ':objective-down'
                acc.case(_key(case), changed, lab if not bad else 'bad:' + bad[0][0], sample=case)
                for sg, msg in bad:
                    acc.violation(sg, case, msg)
                k = sid(a1, g1)
                if k not in seen and np.all(np.isfinite(a1)) and np.all(np.isfinite(g1)):
                    seen.add(k)
                    acc.extra['states'] += 1
                    nxt.append((path + [op], a1, g1))
        frontier = nxt


def check_hmfrun(case):
    """The real solve(): fixed seed -> identical results, unit rms, caller arrays (default mode), sign (non-negative mode)."""
    from pydl.pydlspec2d.spec1d import HMF
    cfg = root_cfg(case)
    nn = cfg['mode'] == 'nn'
    et = ':epsilon>0' if cfg['eps'] else ''
    outs = []
    bad = []
    S0, W0 = hmf_data(cfg['data'], nn, cfg['mask'])
    np.random.seed(HARNESS_RNG_STATE)   # pinned once for the pair of runs: only HMF's own seeding can make them equal
    for rep in range(2):
        S, W = S0.copy(), W0.copy()
        try:
            h = HMF(S, W, K=cfg['K'], n_iter=case['n_iter'], seed=cfg['seed'], nonnegative=nn, epsilon=cfg['eps'])
            out = h.solve()
        except Exception as e:
            trig = ''
            try:
                if h.g is not None and np.shape(h.g)[0] != cfg['K']:
                    trig = ':kmeans-fewer-centroids'
            except Exception:
                pass
            return [('HMF.solve:exception:%s%s' % (type(e).__name__, trig), repr(e))], 'exc'
        outs.append((np.array(out['acoeff']), np.array(out['flux']), S, W, h))
    (a1, g1, S, W, h), (a2, g2, _, _, _) = outs
    if not (a1.shape == a2.shape and g1.shape == g2.shape and np.array_equal(a1, a2) and np.array_equal(g1, g2)):
        bad.append(('HMF.solve:seed-not-reproducible', 'two runs with seed %r differ' % cfg['seed']))
    if not (np.all(np.isfinite(a1)) and np.all(np.isfinite(g1))):
        bad.append(('HMF.solve:non-finite' + et, ''))
        return bad, 'bad'
    rms = np.sqrt((g1.astype(float) ** 2).mean(axis=1))
    if not np.all(np.abs(rms - 1.0) <= 1e-9):
        bad.append(('HMF.solve:components-not-unit-rms', 'rms %s' % rms.tolist()))
    if nn:
        if not (np.all(a1 >= 0) and np.all(g1 >= 0)):
            bad.append(('HMF.solve:negative-factor' + et, 'min a %r min g %r' % (float(a1.min()), float(g1.min()))))
    else:
        if not (np.array_equal(S, S0) and np.array_equal(W, W0)):
            bad.append(('HMF.solve:caller-arrays-modified', ''))
    label = 'ok:hmfrun:%s:n%d' % (cfg['mode'], case['n_iter'])
    if not nn:
        # the objective after n iterations must not exceed the objective after n-1 iterations of the same run
        hb = HMF(S0.copy(), W0.copy(), K=cfg['K'], n_iter=case['n_iter'] - 1, seed=cfg['seed'], nonnegative=False, epsilon=cfg['eps'])
        ap, gp = hb.iterate()
        Sx, Wx = np.asarray(h.spectra, dtype=float), np.asarray(h.invvar, dtype=float)
        up = objective_up(Sx, Wx, cfg['eps'], np.asarray(ap, dtype=float), np.asarray(gp, dtype=float), a1.astype(float), g1.astype(float))
        if up and not cfg['eps']:
            bad.append(('HMF.iterate:chi-square-increases', 'iteration %d: %s' % (case['n_iter'], up)))
        elif up:
            # with epsilon > 0 the normalisation rescales g and the penalty is not scale invariant: recorded, not required
            label += ':objective-up'
        # refinement: the real iteration is the path (astep gstep reorder norm)^n of the transition system
        hr, _, _, _, _ = hmf_root(cfg)
        for _ in range(case['n_iter']):
            for op in LS_OPS:
                apply_op(hr, op)
        same = np.allclose(hr.a, a1, rtol=1e-9, atol=1e-12) and np.allclose(hr.g, g1, rtol=1e-9, atol=1e-12)
        label += ':matches-step-path' if same else ':differs-from-step-path'
    return bad, label


SEED_HISTORIES = ('draw', 'construct-other', 'solve-other', 'two-same-seed-in-order', 'two-same-seed-reversed')


def check_hmfseed(case):
    """'A fixed seed gives identical results' whatever happens to the global numpy RNG between construction and solve()."""
    from pydl.pydlspec2d.spec1d import HMF
    cfg = root_cfg(case)
    nn = cfg['mode'] == 'nn'
    S0, W0 = hmf_data(cfg['data'], nn, cfg['mask'])

    def make(seed):
        return HMF(S0.copy(), W0.copy(), K=cfg['K'], n_iter=case['n_iter'], seed=seed, nonnegative=nn, epsilon=cfg['eps'])

    def result(h):
        out = h.solve()
        return np.array(out['acoeff']), np.array(out['flux'])
    hist = case['history']
    try:
        np.random.seed(HARNESS_RNG_STATE)
        ref = result(make(cfg['seed']))                      # construct and solve at once
        np.random.seed(HARNESS_RNG_STATE)
        a = make(cfg['seed'])
        if hist == 'draw':
            np.random.random_sample(3)                        # somebody else uses the global generator (not case generation)
            outs = [result(a)]
        elif hist == 'construct-other':
            make(cfg['seed'] + 1)
            outs = [result(a)]
        elif hist == 'solve-other':
            result(make(cfg['seed'] + 1))
            outs = [result(a)]
        elif hist == 'two-same-seed-in-order':
            b = make(cfg['seed'])
            outs = [result(a), result(b)]
        elif hist == 'two-same-seed-reversed':
            b = make(cfg['seed'])
            outs = [result(b), result(a)]
        else:
            raise KeyError(hist)
    except Exception as e:
        return [('HMF.solve:exception:%s' % type(e).__name__, repr(e))], 'exc'
    bad = []
    for k, (ac, fl) in enumerate(outs):
        if not (ac.shape == ref[0].shape and fl.shape == ref[1].shape and np.array_equal(ac, ref[0]) and np.array_equal(fl, ref[1])):
            bad.append(('HMF.solve:seed-not-reproducible:history=' + hist,
                        'seed %r: solve #%d after "%s" differs from construct-and-solve-at-once (max |d flux| %.3g)'
                        % (cfg['seed'], k + 1, hist, float(np.abs(fl - ref[1]).max()) if fl.shape == ref[1].shape else float('nan'))))
            break
    return bad, 'ok:hmfseed:%s:%s' % (cfg['mode'], hist)


# ====================================================================== pca_solve
def check_pca(case):
    from pydl.pydlspec2d.spec1d import pca_solve
    S0, W0 = hmf_data(case['data'], False, case['mask'])
    S, W = S0.copy(), W0.copy()
    nkeep = case['nkeep']
    ndead = int(((W0 != 0).sum(axis=0) == 0).sum())
    dead = ':pixel-masked-in-all-spectra' if ndead else ''
    try:
        out = pca_solve(S, W, maxiter=case['maxiter'], niter=case['niter'], nkeep=nkeep)
    except Exception as e:
        return [('pca_solve:exception:%s%s' % (type(e).__name__, dead), repr(e))], 'exc'
    bad = []
    N, M = S0.shape
    E = np.asarray(out['flux'], dtype=float)
    ac = np.asarray(out['acoeff'], dtype=float)
    ev = np.asarray(out['eigenval'], dtype=float)
    um = np.asarray(out['usemask'])
    if E.shape != (nkeep, M) or ac.shape != (N, nkeep):
        return [('pca_solve:shape', 'flux %s acoeff %s' % (E.shape, ac.shape))], 'shape'
    if not np.all(np.isfinite(E)) or not np.all(np.isfinite(ac)):
        return [('pca_solve:non-finite' + dead, 'nan/inf in the returned eigenspectra or coefficients')], 'nonfinite'
    worst = 0.0
    for i in range(N):
        sw = np.sqrt(W0[i])
        A = E.T * sw[:, None]
        sv = np.linalg.svd(A, compute_uv=False)
        cond = sv[0] / sv[-1] if sv[-1] > 0 else float('inf')
        if cond > 1e5:
            return None, 'skip:pca-ill-conditioned'
        x = np.linalg.lstsq(A, S0[i] * sw, rcond=None)[0]
        # the returned eigenspectra are float32: the projection on them is known to about cond * 6e-8
        if not np.all(np.abs(ac[i] - x) <= (1e-6 + 2e-8 * cond) * (1.0 + float(np.abs(x).max()))):
            bad.append(('pca_solve:acoeff-not-weighted-projection', 'spectrum %d: got %s expected %s' % (i, ac[i].tolist(), x.tolist())))
            break
    if ev.shape != (nkeep,) or not np.all(np.isfinite(ev)):
        bad.append(('pca_solve:eigenvalues-non-finite' + dead, '%s' % ev.tolist()))
    elif np.any(np.diff(ev) > 1e-12 * (1 + np.abs(ev).max())):
        bad.append(('pca_solve:eigenvalues-not-descending', '%s' % ev.tolist()))
    good = (W0 != 0).sum(axis=0)
    if um.shape != (M,) or not np.array_equal(um.astype(np.int64), good):
        bad.append(('pca_solve:usemask', 'got %s expected %s' % (um.tolist(), good.tolist())))
    return bad, 'ok:pca:k%d:it%d:rej%d:%s' % (nkeep, case['niter'], case['maxiter'],
                                              'dead%d' % ndead if ndead else ('masked' if case['mask'] else 'nomask'))


# ====================================================================== plumbing
def check_case(case):
    f = case['f']
    if f == 'chi2':
        return check_chi2(case)
    if f == 'chi2ladder':
        return check_chi2_ladder(case)
    if f == 'chi2resid':
        return check_chi2_resid(case)
    if f == 'hmfseed':
        return check_hmfseed(case)
    if f == 'pcomp':
        return check_pcomp(case)
    if f == 'hmf':
        return check_hmf_path(case)
    if f == 'hmfrun':
        return check_hmfrun(case)
    if f == 'pca':
        return check_pca(case)
    raise KeyError(f)


def replay(case):
    bad, _ = check_case(case)
    return bad or []


def _key(case):
    return tuple(sorted((k, repr(v)) for k, v in case.items()))


def _do(acc, case, nontrivial):
    bad, label = check_case(case)
    if bad is None:
        acc.skip(label)
        return
    acc.case(_key(case), nontrivial, label if not bad else 'bad:' + bad[0][0], sample=case)
    for sig, msg in bad:
        acc.violation(sig, case, msg)


SVALS = (0.0, 0.5, 1.0, 2.0)
# systems on which the six lazy attributes of computechi2 are read in all 720 orders
ORDER_SYSTEMS = [
    {'f': 'chi2', 'A': [[1, 0], [1, 1], [1, 2]], 's': [1.0, 0.5, 2.0], 'b': INTB[:3], 'orders': 'all'},
    {'f': 'chi2', 'A': [[1, -1], [0, 2], [2, 1], [1, 1]], 's': [2.0, 0.0, 1.0, 0.5], 'b': INTB[:4], 'orders': 'all'},
    {'f': 'chi2', 'A': [[2], [-1], [1]], 's': [1.0, 2.0, 0.5], 'b': INTB[:3], 'form': '1d', 'orders': 'all'},
    {'f': 'chi2', 'vander': True, 's': [0.5 if i % 2 else 2.0 for i in range(20)], 'b': [INTB[(i * 5) % 6] for i in range(20)], 'orders': 'all'},
    {'f': 'chi2ladder', 'deg': 2, 'n': 30, 'scol': None, 'spow': 0, 'wkind': 'gaps', 'bkind': 'bump', 'orders': 'all'},
    {'f': 'chi2ladder', 'deg': 3, 'n': 60, 'scol': 0, 'spow': 10, 'wkind': 'alt', 'bkind': 'poly', 'orders': 'all'},
]
PCOMP_ATTRS = ('eigenvalues', 'coefficients', 'variance', 'derived')


def tasks(tier):
    T = tier == 'thorough'
    t = [{'f': 'chi2', 'kind': 'm1', 'n': 2, 'first': [], 'T': T}]     # small: shard 0 (determinism probe)
    t.append({'f': 'chi2', 'kind': 'm1', 'n': 1, 'first': [], 'T': T})
    for v in (-1, 0, 1, 2):
        t.append({'f': 'chi2', 'kind': 'm1', 'n': 3, 'first': [v], 'T': T})
    if T:
        for v in itertools.product((-1, 0, 1, 2), repeat=2):
            t.append({'f': 'chi2', 'kind': 'm1', 'n': 4, 'first': list(v), 'T': T})
    for first in itertools.product((-1, 0, 1, 2), repeat=2):
        t.append({'f': 'chi2', 'kind': 'm2n3', 'first': list(first), 'T': T})
    t.append({'f': 'chi2', 'kind': 'm2n2', 'T': T})
    t.append({'f': 'chi2', 'kind': 'vander', 'T': T})
    t.append({'f': 'chi2', 'kind': '1d', 'T': T})
    if T:
        for first in itertools.product((-1, 0, 1), repeat=2):
            t.append({'f': 'chi2', 'kind': 'm2n4', 'first': list(first), 'T': T})
        for first in itertools.product((0, 1), repeat=3):
            t.append({'f': 'chi2', 'kind': 'm3n4', 'first': list(first), 'T': T})
    for deg in (1, 2, 3):
        for n in ((30, 60, 100, 200) if not T else (30, 45, 60, 80, 100, 150, 200)):
            t.append({'f': 'chi2ladder', 'deg': deg, 'n': n, 'T': T})
    for sysname in RESID_SYSTEMS:
        t.append({'f': 'chi2resid', 'system': sysname, 'T': T})
    for k in range(len(ORDER_SYSTEMS)):
        t.append({'f': 'chi2order', 'k': k, 'T': T})
    for cov in (False, True):
        t.append({'f': 'pcomporder', 'covariance': cov, 'T': T})
    # pcomp (the unit menu multiplies the same data matrices by a physical-unit factor)
    U_ALL = [1.0, 1e3, 1e-3, 1e-7, 1e-17]
    t.append({'f': 'pcomp', 'shape': [3, 2], 'alpha': [0, 1, 2], 'first': [], 'units': U_ALL, 'T': T})
    for first in itertools.product((0, 1, 2), repeat=2):
        t.append({'f': 'pcomp', 'shape': [4, 2], 'alpha': [0, 1, 2], 'first': list(first), 'units': U_ALL if T else [1.0, 1e3, 1e-7, 1e-17], 'T': T})
    for first in itertools.product((0, 1), repeat=3):
        t.append({'f': 'pcomp', 'shape': [4, 3], 'alpha': [0, 1], 'first': list(first), 'units': U_ALL if T else [1.0, 1e-7], 'T': T})
    if T:
        for first in itertools.product((-1, 0, 1, 2), repeat=2):
            t.append({'f': 'pcomp', 'shape': [4, 2], 'alpha': [-1, 0, 1, 2], 'first': list(first), 'units': [1.0, 1e3, 1e-7, 1e-17], 'T': T})
        for first in itertools.product((0, 1), repeat=3):
            t.append({'f': 'pcomp', 'shape': [5, 3], 'alpha': [0, 1], 'first': list(first), 'units': [1.0, 1e-3, 1e-17], 'T': T})
    # HMF transition systems: one shard per root family
    datas = ['D1', 'D2'] + (['D3'] if T else [])
    for mode in ('ls', 'nn'):
        for data in datas:
            for K in (1, 2, 3):
                for eps in (None, 0.5):
                    for mk in ('none', 'scatter', 'pairs'):
                        t.append({'f': 'hmf', 'mode': mode, 'data': data, 'K': K, 'eps': eps, 'maskkind': mk,
                                  'seeds': [0, 1, 2] if not T else [0, 1, 2, 3, 4, 5], 'depth': (5 if data == 'D1' else 4) if not T else (6 if data == 'D1' else 5), 'T': T})
    for mode in ('ls', 'nn'):
        for data in datas[:2]:
            for eps in (None, 0.5):
                t.append({'f': 'hmf', 'mode': mode, 'data': data, 'K': 2, 'eps': eps, 'maskkind': 'single',
                          'seeds': [0], 'depth': 2 if not T else 3, 'T': T})
    for mode in ('ls', 'nn'):
        for data in datas:
            t.append({'f': 'hmfrun', 'mode': mode, 'data': data, 'T': T})
    for mode in ('ls', 'nn'):
        for data in datas[:2]:
            t.append({'f': 'hmfseed', 'mode': mode, 'data': data, 'T': T})
    for data in datas:
        for nkeep in (1, 2, 3):
            t.append({'f': 'pca', 'data': data, 'nkeep': nkeep, 'T': T})
    return t


def run_task(task):
    acc = Acc()
    f, T = task['f'], task['T']
    if f == 'chi2':
        kind = task['kind']
        if kind == 'm1':
            n = task['n']
            first = tuple(task['first'])
            for rest in itertools.product((-1, 0, 1, 2), repeat=n - len(first)):
                A = [[v] for v in first + rest]
                for s in itertools.product(SVALS, repeat=n):
                    for b in [[1.0 if i == j else 0.0 for i in range(n)] for j in range(n)] + [INTB[:n]]:
                        _do(acc, {'f': 'chi2', 'A': A, 's': list(s), 'b': b}, True)
        elif kind == '1d':
            for n in (2, 3):
                for col in itertools.product((-1, 1, 2), repeat=n):
                    for s in itertools.product((0.0, 1.0, 2.0), repeat=n):
                        _do(acc, {'f': 'chi2', 'A': [[v] for v in col], 's': list(s), 'b': INTB[:n], 'form': '1d'}, True)
        elif kind in ('m2n2', 'm2n3', 'm2n4', 'm3n4'):
            m = 3 if kind == 'm3n4' else 2
            n = int(kind[-1])
            alpha = {'m2n2': (-1, 0, 1, 2), 'm2n3': (-1, 0, 1, 2), 'm2n4': (-1, 0, 1), 'm3n4': (0, 1)}[kind]
            first = tuple(task.get('first', ()))
            if kind == 'm2n3':
                svals = SVALS if T else (0.0, 0.5, 2.0)
                bs = ([[1.0 if i == j else 0.0 for i in range(n)] for j in range(n)] if T else []) + [INTB[:n]]
            elif kind == 'm2n2':
                svals = SVALS
                bs = [[1.0, 0.0], [0.0, 1.0], INTB[:2]]
            elif kind == 'm2n4':
                svals = (0.0, 1.0, 2.0)
                bs = [[1.0, 0.0, 0.0, 0.0], INTB[:4]]
            else:
                svals = (0.0, 0.5, 1.0)
                bs = [INTB[:4]]
            for rest in itertools.product(alpha, repeat=n * m - len(first)):
                flat = first + rest
                A = [list(flat[i * m:(i + 1) * m]) for i in range(n)]
                for s in itertools.product(svals, repeat=n):
                    for b in bs:
                        _do(acc, {'f': 'chi2', 'A': A, 's': list(s), 'b': b}, True)
        elif kind == 'vander':
            n = 20
            zsets = [()] + [(i,) for i in range(n)] + list(itertools.combinations(range(n), 2))
            bs = {'e0': [1.0] + [0.0] * 19, 'e10': [0.0] * 10 + [1.0] + [0.0] * 9,
                  'quad': [float(2 + 3 * Fraction(2 * i - 19, 32) - Fraction(2 * i - 19, 32) ** 2) for i in range(n)],
                  'bump': [INTB[(i * 5) % 6] for i in range(n)]}
            for zs in zsets:
                for wk in ('unit', 'alt'):
                    s = [0.0 if i in zs else (1.0 if wk == 'unit' else (0.5 if i % 2 else 2.0)) for i in range(n)]
                    for bk in ('e0', 'e10', 'quad', 'bump'):
                        _do(acc, {'f': 'chi2', 'vander': True, 's': s, 'b': bs[bk]}, True)
    elif f == 'chi2ladder':
        deg, n = task['deg'], task['n']
        variants = [(None, 0)] + [(col, p) for col in (0, deg) for p in (10, -10)]
        if T:
            variants += [(col, p) for col in (0, deg) for p in (20, -20)] + ([(1, 10), (1, -10)] if deg >= 2 else [])
        for scol, spow in variants:
            for wk in ('unit', 'alt', 'gaps'):
                for bk in ('poly', 'bump', 'unit'):
                    _do(acc, {'f': 'chi2ladder', 'deg': deg, 'n': n, 'scol': scol, 'spow': spow, 'wkind': wk, 'bkind': bk}, True)
    elif f == 'chi2order':
        _do(acc, dict(ORDER_SYSTEMS[task['k']]), True)
    elif f == 'pcomporder':
        for shape, alpha in (((3, 2), (0, 1, 2)), ((4, 3), (0, 1))) if T else (((3, 2), (0, 1)), ((4, 2), (0, 1))):
            r, c = shape
            for flat in itertools.product(alpha, repeat=r * c):
                X = [list(flat[i * c:(i + 1) * c]) for i in range(r)]
                for std in (False, True):
                    for order in itertools.permutations(PCOMP_ATTRS):
                        _do(acc, {'f': 'pcomp', 'x': X, 'standardize': std, 'covariance': task['covariance'], 'order': list(order)}, True)
    elif f == 'chi2resid':
        for wk in ('unit', 'alt', 'gaps'):
            for eps in RESID_EPS:
                _do(acc, {'f': 'chi2resid', 'system': task['system'], 'wkind': wk, 'eps': eps}, True)
    elif f == 'pcomp':
        r, c = task['shape']
        first = tuple(task['first'])
        for rest in itertools.product(task['alpha'], repeat=r * c - len(first)):
            flat = first + rest
            X = [list(flat[i * c:(i + 1) * c]) for i in range(r)]
            for unit in task['units']:
                for std in (False, True):
                    for cov in (False, True):
                        case = {'f': 'pcomp', 'x': X, 'standardize': std, 'covariance': cov}
                        if unit != 1.0:
                            case['scale'] = unit
                        _do(acc, case, True)
    elif f == 'hmf':
        for mask in mask_menu(task['data'], task['maskkind']):
            seen = set()
            for seed in task['seeds']:
                cfg = {'mode': task['mode'], 'data': task['data'], 'K': task['K'], 'eps': task['eps'], 'mask': mask, 'seed': seed}
                explore_hmf(acc, cfg, task['depth'], seen)
    elif f == 'hmfrun':
        for K in (1, 2, 3):
            for eps in (None, 0.5):
                for mk in ('none', 'scatter', 'pairs'):
                    for mask in mask_menu(task['data'], mk):
                        for seed in ((0, 1, 2) if not T else (0, 1, 2, 3, 4, 5)):
                            for n_iter in (1, 2, 3):
                                case = {'f': 'hmfrun', 'mode': task['mode'], 'data': task['data'], 'K': K, 'eps': eps, 'mask': mask,
                                        'seed': seed, 'n_iter': n_iter}
                                _do(acc, case, True)
    elif f == 'hmfseed':
        for K in (1, 2, 3):
            for mk in ('none', 'scatter'):
                for mask in mask_menu(task['data'], mk):
                    for seed in ((0, 1, 2) if not T else (0, 1, 2, 3, 4, 5)):
                        for n_iter in ((1,) if not T else (1, 2)):
                            for hist in SEED_HISTORIES:
                                case = {'f': 'hmfseed', 'mode': task['mode'], 'data': task['data'], 'K': K, 'eps': None, 'mask': mask,
                                        'seed': seed, 'n_iter': n_iter, 'history': hist}
                                _do(acc, case, True)
    elif f == 'pca':
        for mk in ('none', 'scatter', 'pairs', 'columns', 'single'):
            for mask in mask_menu(task['data'], mk):
                for niter in ((1, 2, 3) if not T else (1, 2, 3, 10)):
                    for maxiter in (0, 1):
                        case = {'f': 'pca', 'data': task['data'], 'mask': mask, 'nkeep': task['nkeep'], 'niter': niter, 'maxiter': maxiter}
                        _do(acc, case, bool(mask) or task['nkeep'] >= 2)
    return acc
