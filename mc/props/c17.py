"""C17 - rejection, mask interpolation, aesthetics, reflecting median and sky masking touch exactly the intended pixels.

Bounded-exhaustive enumeration (engine E1).  Every sub-space is a complete product of explicit menus; the oracles are
direct set / interpolation definitions written here and never call pydl.
"""
import itertools

import numpy as np

from mc.core import Acc

PROP = 'C17'
LEVEL = 'exploration'
ENGINE = 'E1'
TECHNIQUE = ('model checking: bounded-exhaustive enumeration of residual/mask/option products for djs_reject, of all masks '
             'on small 1-3-D arrays for djs_maskinterp/aesthetics/djs_median/skymask, against set-definition oracles')
LEVEL_TEXT = ('every combination inside the stated menus (n=5 residual vectors x all input/output masks x scale x limits x '
              'sticky x grow; all 2^n masks on 1-D n<=10, 2-D 3x4/4x3, 3-D 2x2x3/2x3x3 arrays; all 2^8 zero patterns; all '
              '2^16 flag patterns on 2x8 pixels x 4 dtypes x ngrow 1..2 and 6x2^8 patterns x ngrow 0..3) was executed on the real functions and compared '
              'with an independent definition of which pixels must change')
LEVEL_NOTE = ('nothing is claimed outside the menus: maxrej/groupdim/groupsize/groupbadpix, multi-dimensional djs_reject, '
              'even median widths, widths larger than the array, negative inverse variance, sigma=0. Trusted: the oracles '
              'in mc/props/c17.py, numpy, the offline SPPIXMASK bit table fixture')
RULE = ('djs_reject: layer A = every residual vector over {-6,-2,0,2,6}^n x 6 scale forms x 7 limit triples x grow, layer B = '
        'every residual vector over {-6,0,6}^5 (quick {0,6}^5) x every inmask (None + 2^5) x every outmask (None + 2^5; quick '
        'None + weight>=3) x 2 scale forms x sticky x grow 0..2; non-trivial = the expected rejected set is non-empty. '
        'djs_maskinterp: every mask (2^n) on the listed shapes x every axis x {index, irregular sorted x, unsorted x} x '
        'const x mask dtype; non-trivial = at least one masked and one unmasked sample. aesthetics: every zero pattern of '
        'the inverse variance on 8 pixels x 4 methods x 2 flux vectors x 2 ivar levels; non-trivial = some zero. djs_median: '
        'every array over {0,1,3}^n x every odd width <= n, 2-D arrays over small alphabets with width 3; non-trivial = '
        'width > 1 and non-constant array. skymask: every flagged/unflagged pattern on 2x8 pixels x bit dressings x dtype x '
        'ngrow; non-trivial = at least one flagged pixel. aesthetics (tiny): every vector over the per-pixel ivar alphabet {+0.0, '
        'ordinary, tiny positive, -0.0}^n (n = 6, thorough 7) x tiny in {1e-8, 1e-12, 1e-30, smallest subnormal} x 4 methods. '
        'Layout variants: the djs_reject / djs_maskinterp / aesthetics / skymask sub-products listed in tasks() with every array '
        'argument big-endian, a non-contiguous view, or read-only. Distinct = distinct (function, input, arguments) tuples.')
ASSUMPTIONS = [
    'djs_reject is exercised on 1-D data with a supplied sigma (scalar or array, > 0) or invvar (>= 0) only; residuals and '
    'limits are chosen so that no residual lies within 5 % of a threshold (no decision at a floating-point boundary)',
    'djs_reject "neighbours of every rejected point": three readings are accepted as exact answers - neighbours of points '
    'newly rejected by their residual (what IDL does), of all points whose residual exceeds a limit, or of all rejected '
    'points; anything else is a violation',
    'djs_reject completion flag is compared with "returned mask == outmask passed in (all True when omitted)"',
    'djs_maskinterp axis k means the k-th fastest-varying dimension (numpy axis ndim-1-k), as the repository test suite '
    'pins it; lines without any unmasked sample carry no claim; abscissae are distinct; comparison 1e-12 relative',
    'aesthetics: a tiny positive inverse variance (down to the smallest subnormal) is non-zero, -0.0 is zero; array layout '
    '(byte order, strides, writeable flag) must not change any result and must not raise',
    'aesthetics: inverse variance is >= 0; only "flux unchanged where ivar != 0" is demanded (finiteness belongs to C11)',
    'djs_median(boundary="reflect"): odd widths not larger than the array; symmetric reflection = numpy.pad mode '
    '"symmetric" (edge sample repeated)',
    'skymask: SPPIXMASK bits from /verif/fixtures/sdssMaskbits_min.par (BADSKYCHI=27, REDMONSTER=28); int16 masks cannot '
    'hold either flag and must therefore leave invvar untouched; 2*ngrow+1 <= number of pixels',
]

FIXTURE = '/verif/fixtures/sdssMaskbits_min.par'

# ---------------------------------------------------------------------------------------------------------------
# array layout variants (values identical, memory representation different)
# ---------------------------------------------------------------------------------------------------------------
LAYOUTS = ('be', 'strided', 'ro')       # 'native' = key absent


def lay(a, case):
    """The same values as `a` in the layout named by case['lay'] (big-endian / non-contiguous view / read-only)."""
    how = case.get('lay')
    if how is None or a is None or not isinstance(a, np.ndarray):
        return a
    if how == 'be':
        return a.astype(a.dtype.newbyteorder('>')) if a.dtype.kind in 'iuf' else a.copy()
    if how == 'strided':
        big = np.empty(a.shape[:-1] + (2 * a.shape[-1],), dtype=a.dtype)
        big[...] = np.array(77, dtype=a.dtype) if a.dtype.kind != 'b' else True
        big[..., ::2] = a
        return big[..., ::2]
    if how == 'ro':
        b = a.copy()
        b.setflags(write=False)
        return b
    raise ValueError(how)


def ltag(case):
    return (':layout=' + case['lay']) if case.get('lay') else ''


# ---------------------------------------------------------------------------------------------------------------
# djs_reject
# ---------------------------------------------------------------------------------------------------------------
R5 = (0, 6, -6, 2, -2)                 # simplest first
SIG_A = (1.0, 1.6, 1.0, 1.6, 1.0)
SIG_B = (1.6, 1.0, 1.6, 1.0, 1.6)
IVZ = (1.0, 0.0, 1.0 / 2.56, 0.0, 1.0)   # invvar with zeros (infinite sigma)
SCALES = ('s1', 'sA', 'iA', 'sB', 'iB', 'iZ')
LIMITS = ((None, 4, None), (4, None, None), (4, 4, None), (None, None, 4), (1, 4, 3), (4, 1, None), (None, None, None))
INF = float('inf')


def _sigmas(scale, n):
    if scale == 's1':
        return [1.0] * n
    if scale in ('sA', 'iA'):
        return list(SIG_A[:n])
    if scale in ('sB', 'iB'):
        return list(SIG_B[:n])
    return [INF if v == 0 else v ** -0.5 for v in IVZ[:n]]


def o_reject(case):
    """Accepted result masks (True = kept) and the ingredient sets."""
    r = case['r']
    n = len(r)
    lower, upper, maxdev = case['lim']
    sg = _sigmas(case['scale'], n)
    exceed = []
    for i in range(n):
        e = False
        if lower is not None and sg[i] != INF and r[i] < -lower * sg[i]:
            e = True
        if upper is not None and sg[i] != INF and r[i] > upper * sg[i]:
            e = True
        if maxdev is not None and abs(r[i]) > maxdev:
            e = True
        exceed.append(e)
    inm, outm = case['inmask'], case['outmask']
    excl_in = [inm is not None and not inm[i] for i in range(n)]
    excl_st = [bool(case['sticky']) and outm is not None and not outm[i] for i in range(n)]
    base = [exceed[i] or excl_in[i] or excl_st[i] for i in range(n)]
    g = case['grow']
    sources = [[exceed[i] and not excl_in[i] and not excl_st[i] for i in range(n)], exceed, base]
    accepted = []
    for s in sources:
        rej = list(base)
        for i in range(n):
            if s[i]:
                for j in range(max(0, i - g), min(n - 1, i + g) + 1):
                    rej[j] = True
        accepted.append(tuple(not x for x in rej))
    return accepted, exceed, excl_in, excl_st


def check_reject(case):
    from pydl.pydlutils.math import djs_reject
    r = case['r']
    n = len(r)
    model = np.array([1.0, -2.0, 0.5, 3.0, 0.25][:n])
    data = model + np.array(r, dtype=float)
    kw = {}
    sc = case['scale']
    if sc == 's1':
        kw['sigma'] = 1.0
    elif sc == 'sA':
        kw['sigma'] = np.array(SIG_A[:n])
    elif sc == 'sB':
        kw['sigma'] = np.array(SIG_B[:n])
    elif sc == 'iA':
        kw['invvar'] = 1.0 / np.array(SIG_A[:n]) ** 2
    elif sc == 'iB':
        kw['invvar'] = 1.0 / np.array(SIG_B[:n]) ** 2
    else:
        kw['invvar'] = np.array(IVZ[:n])
    lower, upper, maxdev = case['lim']
    if lower is not None:
        kw['lower'] = lower
    if upper is not None:
        kw['upper'] = upper
    if maxdev is not None:
        kw['maxdev'] = maxdev
    if case['inmask'] is not None:
        kw['inmask'] = np.array(case['inmask'], dtype=bool)
    if case['outmask'] is not None:
        kw['outmask'] = np.array(case['outmask'], dtype=bool)
    g = case['grow']
    gtag = ('' if g == 0 else (':grow=1' if g == 1 else ':grow>=2')) + ltag(case)
    kw = {k: lay(v, case) for k, v in kw.items()}
    try:
        got, qdone = djs_reject(lay(data, case), lay(model, case), sticky=bool(case['sticky']), grow=g, **kw)
    except Exception as e:
        return [('djs_reject:exception:%s%s' % (type(e).__name__, gtag), repr(e)[:300])], 'raises-' + type(e).__name__
    bad = []
    got = np.asarray(got)
    if got.shape != (n,):
        return [('djs_reject:mask:shape', 'shape %s' % (got.shape,))], 'shape'
    gm = tuple(bool(v) for v in got)
    accepted, exceed, excl_in, excl_st = o_reject(case)
    if gm not in accepted:
        amin, amax = accepted[0], accepted[2]
        if any(gm[i] and excl_in[i] for i in range(n)):
            sig = 'djs_reject:mask:inmask-point-kept'
        elif any(gm[i] and excl_st[i] for i in range(n)):
            sig = 'djs_reject:mask:sticky-point-kept'
        elif any(gm[i] and exceed[i] for i in range(n)):
            sig = 'djs_reject:mask:outlier-kept'
        elif any(gm[i] and not amin[i] for i in range(n)):
            sig = 'djs_reject:mask:neighbour-kept' + gtag
        elif any((not gm[i]) and amax[i] for i in range(n)):
            sig = 'djs_reject:mask:good-point-rejected' + gtag
        else:
            sig = 'djs_reject:mask:grow-sources-inconsistent' + gtag
        bad.append((sig, 'returned %s, accepted %s' % (list(gm), [list(a) for a in sorted(set(accepted))])))
    prev = tuple(bool(v) for v in case['outmask']) if case['outmask'] is not None else (True,) * n
    if not isinstance(qdone, (bool, np.bool_)):
        bad.append(('djs_reject:qdone:not-bool', repr(qdone)))
    elif bool(qdone) != (gm == prev):
        bad.append(('djs_reject:qdone:' + ('true-but-mask-changed' if qdone else 'false-but-mask-unchanged'),
                    'qdone=%s returned %s previous %s' % (qdone, list(gm), list(prev))))
    nrej = n - sum(gm)
    return bad, 'rej%d:q%d:g%d' % (min(nrej, 3), int(bool(qdone)), min(g, 1) if nrej else 0)


# ---------------------------------------------------------------------------------------------------------------
# djs_maskinterp
# ---------------------------------------------------------------------------------------------------------------
XIRR = (0.0, 1.0, 3.0, 4.0, 7.0, 8.0, 12.0, 13.0, 17.0, 18.5, 20.0)


def _perm(m):
    """Fixed non-monotone arrangement of 0..m-1 (position j holds rank _perm(m)[j])."""
    for a in (3, 5, 7, 2):
        if m > 2 and np.gcd(a, m) == 1:
            return [(a * j + 1) % m for j in range(m)]
    return list(range(m))[::-1]


def _mi_arrays(case):
    shape = tuple(case['shape'])
    nd = len(shape)
    size = int(np.prod(shape))
    k = np.arange(size)
    y = ((k * 7) % 11 + 0.5 * (k % 3) + 0.25 * (k % 2)).astype(float).reshape(shape)
    bits = case['mask']
    mask = np.array([(bits >> i) & 1 for i in range(size)], dtype=np.int64).reshape(shape)
    npax = 0 if nd == 1 else nd - 1 - case['axis']
    m = shape[npax]
    x = None
    if case['x'] != 'index':
        base = np.array(XIRR[:m])
        if case['x'] == 'perm':
            base = base[_perm(m)]
        # a different offset / stretch on every line so that lines cannot be mixed up
        other = [s for a, s in enumerate(shape) if a != npax]
        lines = int(np.prod(other)) if other else 1
        xx = np.empty((lines, m))
        for li in range(lines):
            xx[li] = base * (1.0 + 0.5 * li) + 2.0 * li
        x = np.moveaxis(xx.reshape(tuple(other) + (m,)), -1, npax).copy()
    return y, mask, x, npax


def o_interp_line(y, bad, pos):
    n = len(y)
    good = [j for j in range(n) if not bad[j]]
    if not good:
        return None
    if len(good) == 1:
        return [y[good[0]]] * n, ['single'] * n
    out = list(y)
    kind = ['good'] * n
    for j in range(n):
        if not bad[j]:
            continue
        left = [g for g in good if pos[g] < pos[j]]
        right = [g for g in good if pos[g] > pos[j]]
        if not left:
            g = min(right, key=lambda q: pos[q])
            out[j] = y[g]
            kind[j] = 'end'
        elif not right:
            g = max(left, key=lambda q: pos[q])
            out[j] = y[g]
            kind[j] = 'end'
        else:
            a = max(left, key=lambda q: pos[q])
            b = min(right, key=lambda q: pos[q])
            t = (pos[j] - pos[a]) / (pos[b] - pos[a])
            out[j] = y[a] + t * (y[b] - y[a])
            kind[j] = 'interior'
    return out, kind


def check_maskinterp(case):
    from pydl.pydlutils.image import djs_maskinterp
    y, mask, x, npax = _mi_arrays(case)
    y0 = y.copy()
    mk = mask.astype(bool) if case['mdt'] == 'bool' else mask.astype(case['mdt']) * (3 if case['mdt'] != 'bool' else 1)
    kw = {'const': bool(case['const'])}
    if x is not None:
        kw['xval'] = x
    if y.ndim > 1:
        kw['axis'] = case['axis']
    kw = {k: lay(v, case) for k, v in kw.items()}
    try:
        got = djs_maskinterp(lay(y, case), lay(mk, case), **kw)
    except Exception as e:
        return [('djs_maskinterp:exception:%s%s' % (type(e).__name__, ltag(case)), repr(e)[:300])], 'raises-' + type(e).__name__
    got = np.asarray(got)
    if got.shape != y.shape:
        return [('djs_maskinterp:shape', 'got %s' % (got.shape,))], 'shape'
    bad = []
    ym = np.moveaxis(y0, npax, -1).reshape(-1, y.shape[npax])
    gm = np.moveaxis(got, npax, -1).reshape(-1, y.shape[npax])
    mm = np.moveaxis(mask, npax, -1).reshape(-1, y.shape[npax])
    xm = np.moveaxis(x, npax, -1).reshape(-1, y.shape[npax]) if x is not None else None
    seen = set()
    nclaim = 0
    for li in range(ym.shape[0]):
        pos = list(xm[li]) if xm is not None else list(range(ym.shape[1]))
        o = o_interp_line(list(ym[li]), list(mm[li]), pos)
        if o is None:
            continue
        exp, kind = o
        for j in range(len(exp)):
            g = float(gm[li, j])
            if kind[j] == 'good':
                ok = g == exp[j]
                clause = 'unmasked-sample-changed'
            else:
                nclaim += 1
                ok = abs(g - exp[j]) <= 1e-12 * (1.0 + abs(exp[j]))
                clause = {'single': 'single-good-value', 'end': 'masked-value:end', 'interior': 'masked-value:interior'}[kind[j]]
            if not ok and clause not in seen:
                seen.add(clause)
                bad.append(('djs_maskinterp:' + clause, 'line %d sample %d: got %r expected %r' % (li, j, g, exp[j])))
    nm = int(mask.sum())
    lab = 'none-masked' if nm == 0 else ('all-masked' if nm == mask.size else ('claims%d' % min(nclaim, 3)))
    return bad, lab


# ---------------------------------------------------------------------------------------------------------------
# aesthetics
# ---------------------------------------------------------------------------------------------------------------
AES_FLUX = {'sq': [1.0, 4.0, 9.0, 16.0, 25.0, 36.0, 49.0, 64.0], 'alt': [2.0, -1.0, 0.5, 7.0, -3.0, 0.0, 8.0, 1.5]}
AES_METHODS = ('traditional', 'noconst', 'mean', 'nothing')


def check_aesthetics(case):
    from pydl.pydlspec2d.spec2d import aesthetics
    if 'codes' in case:
        # per-pixel alphabet: 0 -> +0.0, 1 -> ordinary level, 2 -> tiny positive (still non-zero!), 3 -> -0.0
        codes = case['codes']
        n = len(codes)
        flux = np.array(AES_FLUX[case['flux']][:n])
        tiny = {'1e-8': 1e-8, '1e-12': 1e-12, '1e-30': 1e-30, 'sub': 5e-324}[case['tiny']]
        ivar = np.array([[0.0, 0.5 + 0.25 * i, tiny, -0.0][c] for i, c in enumerate(codes)])
    else:
        flux = np.array(AES_FLUX[case['flux']])
        n = len(flux)
        z = case['zeros']
        lev = [1.0] * n if case['ivar'] == 'const' else [0.5 + 0.25 * i for i in range(n)]
        ivar = np.array([0.0 if (z >> i) & 1 else lev[i] for i in range(n)])
    f0 = flux.copy()
    flux = lay(flux, case)
    try:
        got = aesthetics(flux, lay(ivar, case), method=case['method'])
    except Exception as e:
        return [('aesthetics:exception:%s:%s' % (type(e).__name__, case['method']), repr(e)[:300])], 'raises-' + type(e).__name__
    got = np.asarray(got)
    bad = []
    if got.shape != f0.shape:
        return [('aesthetics:shape', 'got %s' % (got.shape,))], 'shape'
    keep = ivar != 0
    ttag = ':tiny-positive-ivar' if ('codes' in case and np.any((got != f0) & keep & (ivar < 1e-7))) else ''
    if not np.array_equal(got[keep], f0[keep]):
        bad.append(('aesthetics:flux-changed-where-ivar-nonzero:' + case['method'] + ttag,
                    'got %s from %s ivar %s' % (got.tolist(), f0.tolist(), ivar.tolist())))
    if not np.array_equal(np.asarray(flux)[keep], f0[keep]):
        bad.append(('aesthetics:input-flux-changed-where-ivar-nonzero:' + case['method'], 'input now %s' % flux.tolist()))
    ngood = int(keep.sum())
    changed = int(np.sum(~((got == f0) | (np.isnan(got) & np.isnan(f0)))))
    return bad, '%s%s:good%s:%s:%s' % (case['method'], ':tiny' if 'codes' in case else '', '0' if ngood == 0 else ('1' if ngood == 1 else '2+'),
                                       'changed' if changed else 'same', 'finite' if np.all(np.isfinite(got)) else 'nonfinite')


# ---------------------------------------------------------------------------------------------------------------
# djs_median(boundary='reflect')
# ---------------------------------------------------------------------------------------------------------------
def o_median_reflect(a, w):
    a = np.asarray(a, dtype=float)
    h = w // 2
    if a.ndim == 1:
        n = len(a)
        ext = [a[-1 - j] if j < 0 else (a[2 * n - 1 - j] if j >= n else a[j]) for j in range(-h, n + h)]
        return np.array([sorted(ext[i:i + w])[h] for i in range(n)])
    r, c = a.shape

    def at(i, j):
        i = -1 - i if i < 0 else (2 * r - 1 - i if i >= r else i)
        j = -1 - j if j < 0 else (2 * c - 1 - j if j >= c else j)
        return a[i, j]
    out = np.zeros((r, c))
    for i in range(r):
        for j in range(c):
            win = sorted(at(p, q) for p in range(i - h, i + h + 1) for q in range(j - h, j + h + 1))
            out[i, j] = win[len(win) // 2]
    return out


def check_median(case):
    from pydl.pydlutils.math import djs_median
    a = np.array(case['a'], dtype=float)
    a0 = a.copy()
    w = case['w']
    dim = '%dd' % a.ndim
    try:
        got = djs_median(a, width=w, boundary='reflect')
    except Exception as e:
        return [('djs_median:reflect:exception:%s:%s' % (type(e).__name__, dim), repr(e)[:300])], 'raises-' + type(e).__name__
    exp = o_median_reflect(a0, w)
    got = np.asarray(got, dtype=float)
    bad = []
    if got.shape != exp.shape or not np.array_equal(got, exp):
        bad.append(('djs_median:reflect:value-' + dim, 'a=%s w=%d got %s expected %s' % (a0.tolist(), w, got.tolist(), exp.tolist())))
    return bad, dim + (':changed' if not np.array_equal(exp, a0) else ':same')


# ---------------------------------------------------------------------------------------------------------------
# skymask
# ---------------------------------------------------------------------------------------------------------------
BSC, RM = 1 << 27, 1 << 28
SKY_DT = ('uint64', 'int32', 'int64', 'int16')


def _sky_value(dt, dressing, flagged, pos):
    """Python-int mask value of one pixel (two's complement already applied for signed dtypes)."""
    bits = {'int16': 16, 'int32': 32, 'int64': 64, 'uint64': 64}[dt]
    other = (1 | (1 << 12)) if dt == 'int16' else (1 | (1 << 23))
    allother = ((1 << bits) - 1) & ~(BSC | RM)            # every bit except the two flags, sign bit included
    if dt == 'int16':
        # neither flag fits: "flagged" positions carry other bits only
        v = [0, other, allother][pos % 3] if dressing != 'plain' else 0
        if flagged:
            v = [other, allother, 1 << 15][pos % 3] if dressing != 'plain' else other
    elif dressing == 'plain':
        v = BSC if flagged else 0
    elif dressing == 'rich':
        v = [RM, BSC | other, BSC | RM | allother][pos % 3] if flagged else [0, other, allother][pos % 3]
    else:  # 'swap'
        v = [BSC | RM, RM | allother, BSC][pos % 3] if flagged else [allother, 0, other][pos % 3]
    if dt != 'uint64' and v >= 1 << (bits - 1):
        v -= 1 << bits
    return v


_maskbits_obj = None


def ensure_maskbits():
    """(Re-)install the offline bit table; cheap identity test per case, full parse once per process."""
    global _maskbits_obj
    import pydl.pydlutils.sdss as s
    if _maskbits_obj is None:
        _maskbits_obj = s.set_maskbits(maskbits_file=FIXTURE)
    if s.maskbits is not _maskbits_obj:
        s.maskbits = _maskbits_obj


def check_skymask(case):
    ensure_maskbits()
    from pydl.pydlspec2d.spec1d import skymask
    dt = case['dt']
    rows = case['rows']                       # list of bit patterns, one python int per row
    npix = case['npix']
    nrows = len(rows)
    ngrow = case['ngrow']
    vals = [[_sky_value(dt, case['dress'], (rows[r] >> j) & 1, j + r) for j in range(npix)] for r in range(nrows)]
    iv = np.array([[0.5 * (j + 1) + r for j in range(npix)] for r in range(nrows)])
    iv0 = iv.copy()
    if case.get('noormask'):
        om = None
    else:
        om = np.array(vals, dtype=dt)
    am = np.zeros((nrows, npix), dtype=dt)
    signed = dt != 'uint64'
    iv, am, om = lay(iv, case), lay(am, case), lay(om, case)
    try:
        got = skymask(iv, am, om, ngrow=ngrow)
    except Exception as e:
        trig = (':signed-mask-dtype' if (signed and om is not None) else '') + ltag(case)
        return [('skymask:exception:%s%s' % (type(e).__name__, trig), '%s: %s' % (dt, repr(e)[:250]))], 'raises-' + type(e).__name__
    got = np.asarray(got)
    if got.shape != iv0.shape:
        return [('skymask:shape', 'got %s' % (got.shape,))], 'shape'
    bad = []
    seen = set()
    nz = 0
    for r in range(nrows):
        fl = [om is not None and (vals[r][j] & (BSC | RM)) != 0 for j in range(npix)]
        for j in range(npix):
            zero = any(fl[k] for k in range(max(0, j - ngrow), min(npix - 1, j + ngrow) + 1))
            nz += zero
            g = float(got[r, j])
            if zero and g != 0.0:
                cl = 'pixel-not-zeroed'
            elif not zero and g == 0.0:
                cl = 'pixel-wrongly-zeroed'
            elif not zero and g != iv0[r, j]:
                cl = 'value-changed'
            else:
                continue
            if cl not in seen:
                seen.add(cl)
                bad.append(('skymask:' + cl, 'row %d pixel %d got %r; mask %s ngrow %d dtype %s' % (r, j, g, vals, ngrow, dt)))
    return bad, '%s:%s' % (dt, 'none' if nz == 0 else ('all' if nz == nrows * npix else 'some'))


CHECKS = {'reject': check_reject, 'mi': check_maskinterp, 'aes': check_aesthetics, 'med': check_median, 'sky': check_skymask}


def run_check(case):
    bad, label = CHECKS[case['f']](case)
    if case.get('lay'):
        bad = [(sig if ':layout=' in sig else sig + ltag(case), msg) for sig, msg in bad]
        label += ltag(case)
    return bad, label


def check_case(case):
    return run_check(case)[0]


def replay(case):
    return check_case(case)


# ---------------------------------------------------------------------------------------------------------------
# enumeration
# ---------------------------------------------------------------------------------------------------------------
def _masks(n):
    """All 0/1 tuples of length n, simplest (all good) first."""
    return sorted(itertools.product((1, 0), repeat=n), key=lambda m: (n - sum(m), m))


def tasks(tier):
    T = tier == 'thorough'
    t = []
    # shard 0: small and fast (determinism probe)
    t.append({'f': 'aes'})
    # djs_reject layer A: pointwise decision, residual vectors split by their first element(s)
    nA = 5
    for first in itertools.product(R5, repeat=2 if T else 1):
        t.append({'f': 'rejA', 'n': nA if T else 4, 'first': list(first), 'grow': [0, 1, 2, 3] if T else [0, 1, 2]})
    # djs_reject layer B: mask algebra, split by inmask
    im = [None] + [list(m) for m in _masks(5)]
    for k, inm in enumerate(im):
        t.append({'f': 'rejB', 'inmask': inm, 'alpha': [0, 6, -6] if T else [0, 6],
                  'outw': 0 if T else 3, 'scales': ['sA', 'iZ'] if T else ['sA', 'iB'],
                  'lims': [2], 'grow': [0, 1, 2]})
    # djs_maskinterp
    for n in range(1, (10 if T else 7) + 1):
        t.append({'f': 'mi', 'shape': [n], 'lo': 0, 'hi': 1 << n, 'axes': [None], 'xs': ['index', 'irr', 'perm'],
                  'mdts': ['bool', 'int32']})
    for shape in ([[3, 4], [4, 3]] if T else [[3, 4]]):
        for q in range(4):
            t.append({'f': 'mi', 'shape': shape, 'lo': q << 10, 'hi': (q + 1) << 10, 'axes': [0, 1],
                      'xs': ['index', 'irr', 'perm'] if T else ['index', 'irr'], 'mdts': ['bool', 'int32'] if T else ['bool']})
    for q in range(4):
        t.append({'f': 'mi', 'shape': [2, 2, 3], 'lo': q << 10, 'hi': (q + 1) << 10, 'axes': [0, 1, 2],
                  'xs': ['index', 'irr', 'perm'] if T else ['index', 'irr'], 'mdts': ['bool', 'int32'] if T else ['bool']})
    if T:
        for q in range(32):
            t.append({'f': 'mi', 'shape': [2, 3, 3], 'lo': q << 13, 'hi': (q + 1) << 13, 'axes': [0, 1, 2],
                      'xs': ['index'], 'mdts': ['bool'], 'consts': [False]})
    # djs_median reflect
    for n in range(1, (8 if T else 7) + 1):
        t.append({'f': 'med1', 'n': n})
    t.append({'f': 'med2', 'shape': [3, 3], 'alpha': [0, 1, 2]})
    t.append({'f': 'med2', 'shape': [2, 5], 'alpha': [0, 1, 2] if T else [0, 2]})
    if T:
        for a0 in (0, 1, 2):
            t.append({'f': 'med2', 'shape': [3, 4], 'alpha': [0, 1, 2], 'first': [a0]})
        t.append({'f': 'med2', 'shape': [5, 5], 'alpha': [0, 3], 'w': 5, 'first': [0] * 9})
    # skymask
    for r1 in (0, 0x01, 0x80, 0x18, 0xa5, 0xff):
        t.append({'f': 'sky', 'npix': 8, 'row0': 'all', 'row1': [r1, r1 + 1], 'dress': ['plain', 'rich'],
                  'dts': list(SKY_DT), 'ngrow': [0, 1, 2, 3]})
    if T:
        # every one of the 2^16 flag patterns on 2 x 8 pixels
        for r1hi in range(16):
            t.append({'f': 'sky', 'npix': 8, 'row0': 'all', 'row1': [r1hi << 4, (r1hi + 1) << 4], 'dress': ['swap'],
                      'dts': list(SKY_DT), 'ngrow': [1, 2]})
    t.append({'f': 'sky1'})
    # aesthetics with tiny positive inverse variances and negative zero in the per-pixel alphabet
    na = 7 if T else 6
    for first in range(4):
        for tiny in (('1e-8', '1e-12', '1e-30', 'sub') if T else ('1e-8', 'sub')):
            t.append({'f': 'aes2', 'n': na, 'first': first, 'tiny': tiny})
    if not T:
        t.append({'f': 'aes2', 'n': 4, 'first': None, 'tiny': '1e-12'})
        t.append({'f': 'aes2', 'n': 4, 'first': None, 'tiny': '1e-30'})
    # array layout variants: big-endian, non-contiguous, read-only inputs
    for L in LAYOUTS:
        t.append({'f': 'layrej', 'lay': L, 'grow': [0, 1, 2] if T else [0, 2]})
        t.append({'f': 'laymi', 'lay': L, 'shape2': [3, 4] if T else [2, 3]})
        t.append({'f': 'layaes', 'lay': L})
        t.append({'f': 'laysky', 'lay': L, 'ngrow': [0, 1, 2, 3] if T else [0, 2]})
    return t


def _do(acc, case, nontrivial):
    bad, label = run_check(case)
    key = tuple(sorted((k, repr(v)) for k, v in case.items()))
    acc.case(key, nontrivial, ('ok:' + case['f'] + ':' + label) if not bad else 'bad:' + bad[0][0], sample=case)
    for sig, msg in bad:
        acc.violation(sig, case, msg)


def run_task(task):
    acc = Acc()
    f = task['f']
    if f == 'aes':
        for z in sorted(range(256), key=lambda v: (bin(v).count('1'), v)):
            for method in AES_METHODS:
                for fl in ('sq', 'alt'):
                    for iv in ('const', 'ramp'):
                        _do(acc, {'f': 'aes', 'zeros': z, 'method': method, 'flux': fl, 'ivar': iv}, z != 0)
    elif f == 'aes2':
        n = task['n']
        heads = [()] if task['first'] is None else [(task['first'],)]
        for head in heads:
            for rest in itertools.product((1, 0, 2, 3), repeat=n - len(head)):
                codes = list(head + rest)
                for method in AES_METHODS:
                    _do(acc, {'f': 'aes', 'codes': codes, 'tiny': task['tiny'], 'method': method, 'flux': 'alt'},
                        any(c != 1 for c in codes))
    elif f == 'layrej':
        inms = [None, [1, 1, 0, 1], [0, 1, 1, 1], [1, 0, 1, 0]]
        outms = [None, [1, 1, 1, 0], [0, 1, 0, 1]]
        for r in itertools.product((0, 6, -6), repeat=4):
            for inm in inms:
                for outm in outms:
                    for sc in ('sA', 'iZ'):
                        for sticky in (False, True):
                            for g in task['grow']:
                                case = {'f': 'reject', 'r': list(r), 'inmask': inm, 'outmask': outm, 'scale': sc, 'lim': [4, 4, None],
                                        'sticky': sticky, 'grow': g, 'lay': task['lay']}
                                _do(acc, case, not all(o_reject(case)[0][0]))
    elif f == 'laymi':
        for shape, axes in (([6], [None]), (task['shape2'], [0, 1])):
            size = int(np.prod(shape))
            for bits in range(1 << size):
                for ax in axes:
                    for xs in ('index', 'irr', 'perm'):
                        for mdt in ('bool', 'int32'):
                            _do(acc, {'f': 'mi', 'shape': shape, 'mask': bits, 'axis': ax, 'x': xs, 'const': False, 'mdt': mdt,
                                      'lay': task['lay']}, 0 < bits < (1 << size) - 1)
    elif f == 'layaes':
        for z in range(256):
            for method in AES_METHODS:
                _do(acc, {'f': 'aes', 'zeros': z, 'method': method, 'flux': 'alt', 'ivar': 'ramp', 'lay': task['lay']}, z != 0)
    elif f == 'laysky':
        for r0 in range(256):
            for dt in SKY_DT:
                for g in task['ngrow']:
                    _do(acc, {'f': 'sky', 'npix': 8, 'rows': [r0, 0x18], 'dress': 'rich', 'dt': dt, 'ngrow': g, 'lay': task['lay']},
                        dt != 'int16')
    elif f == 'rejA':
        n = task['n']
        first = task['first']
        for rest in itertools.product(R5, repeat=n - len(first)):
            r = list(first) + list(rest)
            for sc in SCALES:
                for lim in LIMITS:
                    for g in task['grow']:
                        case = {'f': 'reject', 'r': r, 'inmask': None, 'outmask': None, 'scale': sc, 'lim': list(lim),
                                'sticky': False, 'grow': g}
                        _do(acc, case, not all(o_reject(case)[0][0]))
    elif f == 'rejB':
        outs = [None] + [list(m) for m in _masks(5) if sum(m) >= task['outw']]
        lims = [LIMITS[i] for i in task['lims']]
        for r in itertools.product(task['alpha'], repeat=5):
            for outm in outs:
                for sc in task['scales']:
                    for lim in lims:
                        for sticky in (False, True):
                            for g in task['grow']:
                                case = {'f': 'reject', 'r': list(r), 'inmask': task['inmask'], 'outmask': outm, 'scale': sc,
                                        'lim': list(lim), 'sticky': sticky, 'grow': g}
                                _do(acc, case, not all(o_reject(case)[0][0]))
    elif f == 'mi':
        shape = task['shape']
        size = int(np.prod(shape))
        full = (1 << size) - 1
        order = range(task['lo'], task['hi'])
        if len(shape) == 1:
            order = sorted(order, key=lambda v: (bin(v).count('1'), v))
        for bits in order:
            for ax in task['axes']:
                for xs in task['xs']:
                    for const in task.get('consts', [False, True]):
                        for mdt in task['mdts']:
                            _do(acc, {'f': 'mi', 'shape': shape, 'mask': bits, 'axis': ax, 'x': xs, 'const': const, 'mdt': mdt},
                                0 < bits < full)
    elif f == 'med1':
        n = task['n']
        for a in itertools.product((0, 1, 3), repeat=n):
            for w in range(1, n + 1, 2):
                _do(acc, {'f': 'med', 'a': list(a), 'w': w}, w > 1 and len(set(a)) > 1)
    elif f == 'med2':
        r, c = task['shape']
        first = tuple(task.get('first', ()))
        w = task.get('w', 3)
        for rest in itertools.product(task['alpha'], repeat=r * c - len(first)):
            flat = first + rest
            img = [list(flat[i * c:(i + 1) * c]) for i in range(r)]
            _do(acc, {'f': 'med', 'a': img, 'w': w}, len(set(flat)) > 1)
    elif f == 'sky':
        npix = task['npix']
        for r1 in range(task['row1'][0], task['row1'][1]):
            for r0 in range(1 << npix):
                for dress in task['dress']:
                    for dt in task['dts']:
                        for g in task['ngrow']:
                            flagged = (r0 | r1) != 0 and dt != 'int16'
                            _do(acc, {'f': 'sky', 'npix': npix, 'rows': [r0, r1], 'dress': dress, 'dt': dt, 'ngrow': g}, flagged)
    elif f == 'sky1':
        # single-row images of every length 1..8 (ngrow limited by 2*ngrow+1 <= npix), swap dressing; and ormask=None
        for npix in range(1, 9):
            for r0 in range(1 << npix):
                for dt in SKY_DT:
                    for g in range(0, 4):
                        if 2 * g + 1 > npix:
                            continue
                        _do(acc, {'f': 'sky', 'npix': npix, 'rows': [r0], 'dress': 'swap', 'dt': dt, 'ngrow': g},
                            r0 != 0 and dt != 'int16')
        for dt in SKY_DT:
            for g in range(0, 4):
                _do(acc, {'f': 'sky', 'npix': 8, 'rows': [0x3c, 0x81], 'dress': 'rich', 'dt': dt, 'ngrow': g, 'noormask': True}, False)
    return acc
