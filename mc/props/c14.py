"""C14 — IDL built-in replacements (smooth, median, uniq, rebin): exhaustive small-scope enumeration."""
import itertools

import numpy as np

from mc.core import Acc

PROP = 'C14'
LEVEL = 'exploration'
ENGINE = 'E1'
RULE = ('whole-array medians also of 2-D and 3-D arrays (odd/even first dimension x odd/even element count); smooth/median: every array over {0,1,3}^n (n<=N) x every width x flags; uniq: every non-decreasing array over '
        '{0,1,2} and every array with every sorting permutation as index; rebin: every 1-3-D shape over a dimension menu '
        'x every per-axis target incl. inadmissible ones x sample. A case is non-trivial when the oracle result differs '
        'from the plain input (smoothing/median changes something, uniq has >1 run or a non-identity index, rebin changes shape or must raise). '
        'Distinct = distinct (function, input, arguments) tuples.')
ASSUMPTIONS = ['a subset of all cases is also run with the input in other memory layouts (big-endian, strided, read-only, reversed view, Fortran order)', 'smooth is also run with one extreme sample (1e18, +-inf, nan) among ordinary ones; uniq also on float data scaled to 1e-300..1e17', 'values are small integers stored as float64 so that window sums are exact; division compared to 1e-12',
               'widths (made odd) do not exceed the array length; medians use odd widths only',
               'integer-input averaging in rebin is outside the claim (the repository marks it xfail)']


# ------------------------------------------------------------------ oracles
def o_smooth(sig, w, trunc):
    n = len(sig)
    width = w + 1 if w % 2 == 0 else w
    if width < 3:
        return list(sig)
    h = width // 2
    out = list(sig)
    for i in range(n):
        if h <= i <= n - 1 - h:
            out[i] = sum(sig[i - h:i + h + 1]) / float(width)
        elif trunc:
            out[i] = sum(sig[min(max(j, 0), n - 1)] for j in range(i - h, i + h + 1)) / float(width)
    return out


def o_median_all(vals, even):
    s = sorted(vals)
    n = len(s)
    if n % 2 == 1:
        return s[n // 2]
    if even:
        return (s[n // 2 - 1] + s[n // 2]) / 2.0
    return s[n // 2]


def o_median1(sig, w):
    n = len(sig)
    h = w // 2
    out = list(sig)
    for i in range(h, n - h):
        out[i] = sorted(sig[i - h:i + h + 1])[h]
    return out


def o_median2(img, w):
    r, c = len(img), len(img[0])
    h = w // 2
    out = [list(row) for row in img]
    for i in range(h, r - h):
        for j in range(h, c - h):
            win = sorted(img[a][b] for a in range(i - h, i + h + 1) for b in range(j - h, j + h + 1))
            out[i][j] = win[len(win) // 2]
    return out


def o_uniq(seq):
    return [i for i in range(len(seq)) if i == len(seq) - 1 or seq[i] != seq[i + 1]]


def o_rebin_axis(vec, d, sample):
    n = len(vec)
    if d == n:
        return list(vec)
    if d > n:
        out = []
        for i in range(d):
            p = i * n / d
            fp = int(p)
            if sample or fp + 1 > n - 1:
                out.append(vec[fp])
            else:
                out.append(vec[fp] + (p - fp) * (vec[fp + 1] - vec[fp]))
        return out
    f = n // d
    if sample:
        return [vec[i * f] for i in range(d)]
    return [sum(vec[i * f:(i + 1) * f]) / f for i in range(d)]


def o_rebin(x, d, sample):
    a = np.array(x, dtype=float)
    for k in range(a.ndim):
        a = np.apply_along_axis(lambda v: np.array(o_rebin_axis(list(v), d[k], sample)), k, a)
    return a


# ------------------------------------------------------------------ tasks
def tasks(tier):
    T = tier == 'thorough'
    t = []
    for n in range(1, (8 if T else 7) + 1):
        t.append({'f': 'smooth', 'n': n})
        t.append({'f': 'median1', 'n': n})
    t.append({'f': 'smoothperm', 'n': 8 if T else 6})
    for n in (5, 6, 7, 8) if T else (5, 6, 7):
        t.append({'f': 'smoothx', 'n': n})
    t.append({'f': 'median2', 'shape': (3, 3), 'first': None, 'alpha': [0, 1, 2]})
    t.append({'f': 'median2', 'shape': (4, 4), 'first': None, 'alpha': [0, 1]})
    for shape in ([(3, 4), (4, 3)] if T else [(3, 4)]):
        for first in itertools.product((0, 1, 2), repeat=2 if T else 4):
            t.append({'f': 'median2', 'shape': shape, 'first': list(first), 'alpha': [0, 1, 2] if T else [0, 2]})
    # whole-array medians of N-D arrays: odd/even first dimension x odd/even element count
    for shape in [(1, 6), (6, 1), (5, 2), (2, 3), (3, 2), (1, 5), (3, 1), (2, 2, 2), (3, 2, 5), (1, 1, 4), (3, 4, 1), (5, 3)]:
        t.append({'f': 'medianND', 'shape': list(shape)})
    for n in range(1, (9 if T else 8) + 1):
        t.append({'f': 'uniq', 'n': n})
    for n in range(1, (6 if T else 5) + 1):
        t.append({'f': 'uniqidx', 'n': n})
    dims = [1, 2, 3, 4, 6]
    shapes = [(a,) for a in dims + [5, 8, 12]] + [(a, b) for a in dims for b in dims]
    shapes += [(a, b, c) for a in ([1, 2, 3, 4] if T else [1, 2, 3]) for b in ([1, 2, 3, 4] if T else [1, 2])
               for c in ([1, 2, 3, 4, 6] if T else [1, 2, 4])]
    for s in shapes:
        t.append({'f': 'rebin', 'shape': list(s)})
    t.append({'f': 'rebinrank'})
    for lay in LAYOUTS:
        t.append({'f': 'layout', 'layout': lay})
    for d0 in (1, 2, 3, 4, 5):
        t.append({'f': 'rebinbig', 'd0': d0, 'maxm': 120 if T else 60})
    return t


def _close(a, b, tol=1e-12):
    a = np.asarray(a, dtype=float)
    b = np.asarray(b, dtype=float)
    if a.shape != b.shape:
        return False
    with np.errstate(invalid='ignore'):
        same = (a == b) | (np.isnan(a) & np.isnan(b))
        near = np.abs(a - b) <= tol * (1 + np.abs(b))
    return bool(np.all(same | (np.isfinite(a) & np.isfinite(b) & near)))


def apply_layout(a, k):
    """The same values in another memory layout (what FITS readers, slicing and transposition hand to the functions)."""
    if not k:
        return a
    if k == 'be':
        return a.astype(a.dtype.newbyteorder('>'))
    if k == 'strided':
        return np.repeat(a, 2, axis=-1)[..., ::2]
    if k == 'ro':
        b = a.copy()
        b.setflags(write=False)
        return b
    if k == 'F':
        return np.asfortranarray(a)
    if k == 'neg':
        return np.ascontiguousarray(a[..., ::-1])[..., ::-1]
    raise ValueError(k)


LAYOUTS = ('be', 'strided', 'ro', 'neg', 'F')


def check_case(case):
    """Return list of (sig, msg) for one case dict; an exception of the function under test is a violation of its own."""
    try:
        return _check_case(case)
    except Exception as e:
        lay = case.get('layout')
        return [('%s:exception:%s%s' % (case['f'], type(e).__name__, (':layout=' + lay) if lay else ''), repr(e)[:300])]


def _check_case(case):
    import pydl
    L = case.get('layout')
    f = case['f']
    bad = []
    if f == 'smooth':
        case = dict(case, x=[float(v) for v in case['x']])
        sig = apply_layout(np.array(case['x'], dtype=float), L)
        keep = sig.copy()
        got = pydl.smooth(sig, case['w'], edge_truncate=case['trunc'])
        exp = o_smooth(case['x'], case['w'], case['trunc'])
        if not _close(got, exp):
            bad.append(('smooth:value', 'got %s expected %s' % (got.tolist(), exp)))
        if sig.tobytes() != keep.tobytes():
            bad.append(('smooth:input-modified', ''))
    elif f == 'median':
        arr = np.array(case['x'], dtype=float)
        if case.get('shape'):
            arr = arr.reshape(case['shape'])      # the median of a whole N-D array is the median of all its elements
        arr = apply_layout(arr, L)
        got = pydl.median(arr, even=case['even'])
        exp = o_median_all(case['x'], case['even'])
        if not (np.ndim(got) == 0 and float(got) == exp):
            bad.append(('median:whole', 'got %r expected %r' % (got, exp)))
    elif f == 'median1':
        arr = apply_layout(np.array(case['x'], dtype=float), L)
        got = pydl.median(arr, width=case['w'])
        exp = o_median1(case['x'], case['w'])
        if not _close(got, exp):
            bad.append(('median:running1d', 'got %s expected %s' % (got.tolist(), exp)))
    elif f == 'median2':
        arr = apply_layout(np.array(case['x'], dtype=float), L)
        got = pydl.median(arr, width=case['w'])
        exp = o_median2(case['x'], case['w'])
        if not _close(got, exp):
            bad.append(('median:running2d', 'got %s expected %s' % (got.tolist(), exp)))
    elif f == 'uniq':
        arr = np.array(case['x'], dtype=case['dtype'])
        if case.get('scale') == 'inf':       # the largest value becomes +inf, the smallest -inf (runs of equal infinities)
            arr = np.where(arr == 2, np.inf, np.where(arr == 0, -np.inf, arr)).astype(case['dtype'])
        elif case.get('scale'):
            arr = arr * np.array(case['scale'], dtype=case['dtype'])
        arr = apply_layout(arr, L)
        if case.get('index') is None:
            got = pydl.uniq(arr)
            exp = o_uniq(case['x'])
            ok = list(np.asarray(got).tolist()) == exp
        else:
            idx = np.array(case['index'], dtype=np.int64)
            got = pydl.uniq(arr, idx)
            q = [case['x'][i] for i in case['index']]
            ends = o_uniq(q)
            exp = [case['index'][e] for e in ends]
            g = list(np.asarray(got).tolist())
            ok = g == exp
            if not ok and len(ends) == 1:
                # constant array: IDL returns n-1; index[n-1] equally names "the last element as sorted"
                ok = g == [len(q) - 1]
        if not ok:
            bad.append(('uniq:value', 'got %s expected %s' % (np.asarray(got).tolist(), exp)))
    elif f == 'rebin':
        shape = tuple(case['shape'])
        d = tuple(case['d'])
        n = int(np.prod(shape))
        base = ((np.arange(n) * 7) % 5 + (np.arange(n) % 3)).reshape(shape)
        x = apply_layout(base.astype(case['dtype']), L)
        keep = x.copy()
        admissible = len(d) == len(shape) and all((dk % sk == 0) if dk >= sk else (sk % dk == 0) for dk, sk in zip(d, shape))
        try:
            got = pydl.rebin(x, d, sample=case['sample'])
        except ValueError as e:
            if admissible:
                bad.append(('rebin:refused-admissible', repr(e)))
            return bad
        except Exception as e:
            bad.append(('rebin:other-exception', repr(e)))
            return bad
        if not admissible:
            bad.append(('rebin:accepted-inadmissible', 'shape %s -> %s returned %s' % (shape, d, got.shape)))
            return bad
        exp = o_rebin(base, d, case['sample'])
        if got.shape != d:
            bad.append(('rebin:shape', 'got %s' % (got.shape,)))
        elif got.dtype.newbyteorder('=') != x.dtype.newbyteorder('='):
            bad.append(('rebin:dtype', 'got %s' % got.dtype))
        elif not _close(got, exp, 1e-6 if case['dtype'] == 'float32' else 1e-12):
            bad.append(('rebin:value', 'got %s expected %s' % (got.tolist(), exp.tolist())))
        if not np.array_equal(x, keep):
            bad.append(('rebin:input-modified', ''))
    return bad


def _do(acc, case, nontrivial):
    bad = check_case(case)
    key = tuple(sorted((k, repr(v)) for k, v in case.items()))
    acc.case(key, nontrivial, 'ok:' + case['f'] + (':nt' if nontrivial else ':triv') if not bad else 'bad:' + bad[0][0],
             sample=case)
    for sig, msg in bad:
        acc.violation(sig, case, msg)


def targets(n):
    c = sorted(set([m for m in range(1, 13) if (m % n == 0 or n % m == 0)] + [n + 1, max(1, n - 1), 2 * n + 1, 5, 7]))
    return [m for m in c if m >= 1 and m <= 13]


def run_task(task):
    acc = Acc()
    f = task['f']
    if f in ('smooth', 'median1'):
        n = task['n']
        for x in itertools.product((0, 1, 3), repeat=n):
            x = list(x)
            if f == 'smooth':
                for w in range(1, n + 1):
                    if (w + 1 if w % 2 == 0 else w) > n:
                        continue
                    for trunc in (False, True):
                        exp = o_smooth(x, w, trunc)
                        _do(acc, {'f': 'smooth', 'x': x, 'w': w, 'trunc': trunc}, exp != x)
            else:
                for even in (False, True):
                    _do(acc, {'f': 'median', 'x': x, 'even': even}, len(set(x)) > 1)
                for w in range(1, n + 1, 2):
                    _do(acc, {'f': 'median1', 'x': x, 'w': w}, o_median1(x, w) != x)
    elif f == 'smoothx':
        # one extreme sample (huge, infinite, not-a-number) among ordinary ones: every point whose window does not contain it
        # must still be the plain mean of its window
        n = task['n']
        for base in itertools.product((1, 3), repeat=n):
            for pos in range(n):
                for v in ('1e18', 'inf', '-inf', 'nan'):
                    x = [str(b) for b in base]
                    x[pos] = v
                    for w in (3, 5):
                        if w > n:
                            continue
                        for trunc in (False, True):
                            _do(acc, {'f': 'smooth', 'x': x, 'w': w, 'trunc': trunc}, True)
    elif f == 'smoothperm':
        n = task['n']
        for x in itertools.permutations(range(n)):
            x = list(x)
            for w in (2, 3, 5, n - 1):
                for trunc in (False, True):
                    _do(acc, {'f': 'smooth', 'x': x, 'w': w, 'trunc': trunc}, True)
    elif f == 'median2':
        r, c = task['shape']
        first = tuple(task['first'] or ())
        for rest in itertools.product(task['alpha'], repeat=r * c - len(first)):
            flat = first + rest
            img = [list(flat[i * c:(i + 1) * c]) for i in range(r)]
            _do(acc, {'f': 'median2', 'x': img, 'w': 3}, o_median2(img, 3) != img)
            if r * c <= 9:
                for even in (False, True):
                    _do(acc, {'f': 'median', 'x': list(flat), 'even': even}, len(set(flat)) > 1)
            if r * c <= 12:
                for even in (False, True):
                    _do(acc, {'f': 'median', 'x': list(flat), 'even': even, 'shape': [r, c]}, len(set(flat)) > 1)
    elif f == 'medianND':
        shape = task['shape']
        n = int(np.prod(shape))
        if n <= 8:
            xs = itertools.product((0, 1, 3), repeat=n)
        else:
            base = [(7 * i) % n for i in range(n)] if n % 7 else list(range(n))
            xs = [base[k:] + base[:k] for k in range(n)] + [sorted(base), sorted(base, reverse=True)]
        for x in xs:
            for even in (False, True):
                _do(acc, {'f': 'median', 'x': list(x), 'even': even, 'shape': list(shape)}, len(set(x)) > 1)
    elif f == 'uniq':
        n = task['n']
        for x in itertools.combinations_with_replacement((0, 1, 2), n):
            for dt in ('int64', 'float64', 'int16'):
                _do(acc, {'f': 'uniq', 'x': list(x), 'dtype': dt, 'index': None}, len(set(x)) > 1)
            for dt, scale in (('float64', 1e-17), ('float64', 1e-300), ('float32', 1e-10), ('float64', 1e17), ('float64', 'inf'), ('float32', 'inf')):
                _do(acc, {'f': 'uniq', 'x': list(x), 'dtype': dt, 'index': None, 'scale': scale}, len(set(x)) > 1)
    elif f == 'uniqidx':
        n = task['n']
        for x in itertools.product((0, 1, 2), repeat=n):
            for perm in itertools.permutations(range(n)):
                q = [x[i] for i in perm]
                if any(q[i] > q[i + 1] for i in range(n - 1)):
                    continue
                _do(acc, {'f': 'uniq', 'x': list(x), 'dtype': 'int64', 'index': list(perm)},
                    list(perm) != list(range(n)) or len(set(x)) > 1)
                if n <= 4:
                    for scale in (1e-17, 'inf'):
                        _do(acc, {'f': 'uniq', 'x': list(x), 'dtype': 'float64', 'index': list(perm), 'scale': scale},
                            list(perm) != list(range(n)) or len(set(x)) > 1)
    elif f == 'rebin':
        shape = task['shape']
        for d in itertools.product(*[targets(s) for s in shape]):
            for sample in (False, True):
                for dt in (('float64', 'float32') if not sample else ('float64', 'int32', 'int16')):
                    _do(acc, {'f': 'rebin', 'shape': shape, 'd': list(d), 'sample': sample, 'dtype': dt},
                        tuple(d) != tuple(shape))
    elif f == 'rebinbig':
        # large integral expansion factors in 1-D and along one axis of 2-D (index arithmetic of the expand branch)
        d0 = task['d0']
        for m in range(2, task['maxm'] + 1):
            for sample in (False, True):
                _do(acc, {'f': 'rebin', 'shape': [d0], 'd': [d0 * m], 'sample': sample, 'dtype': 'float64'}, True)
                _do(acc, {'f': 'rebin', 'shape': [2, d0], 'd': [2, d0 * m], 'sample': sample, 'dtype': 'float64'}, True)
    elif f == 'layout':
        # the same small-scope cases handed over in another memory layout
        lay = task['layout']
        for n in (3, 4):
            for x in itertools.product((0, 1, 3), repeat=n):
                x = list(x)
                for w in range(1, n + 1):
                    if (w + 1 if w % 2 == 0 else w) <= n:
                        for trunc in (False, True):
                            _do(acc, {'f': 'smooth', 'x': x, 'w': w, 'trunc': trunc, 'layout': lay}, True)
                    if w % 2 == 1:
                        _do(acc, {'f': 'median1', 'x': x, 'w': w, 'layout': lay}, True)
                for even in (False, True):
                    _do(acc, {'f': 'median', 'x': x, 'even': even, 'layout': lay}, True)
                if x == sorted(x):
                    _do(acc, {'f': 'uniq', 'x': x, 'dtype': 'float64', 'index': None, 'layout': lay}, True)
        for flat in itertools.product((0, 2), repeat=9):
            _do(acc, {'f': 'median2', 'x': [list(flat[i * 3:(i + 1) * 3]) for i in range(3)], 'w': 3, 'layout': lay}, True)
        for shape in ([4], [2, 3], [4, 2], [2, 2, 3]):
            for d in itertools.product(*[targets(s_) for s_ in shape]):
                if all((dk % sk == 0) if dk >= sk else (sk % dk == 0) for dk, sk in zip(d, shape)):
                    for sample in (False, True):
                        _do(acc, {'f': 'rebin', 'shape': shape, 'd': list(d), 'sample': sample, 'dtype': 'float64', 'layout': lay}, True)
    elif f == 'rebinrank':
        for shape in ([4], [2, 3], [2, 2, 2]):
            for d in ([4], [2, 2], [4, 1], [2, 3, 1], [8], [2, 2, 2], [1]):
                if len(d) != len(shape):
                    _do(acc, {'f': 'rebin', 'shape': shape, 'd': d, 'sample': False, 'dtype': 'float64'}, True)
    return acc


def replay(case):
    return check_case(case)
