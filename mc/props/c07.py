"""C07 - bitmask names <-> values for any maskbits file: exhaustive small-scope enumeration of files x queries.

Every configuration is a real yanny .par file (written here as plain text, in a temp dir that is removed again),
loaded with set_maskbits(maskbits_file=...) and installed in the module cache pydl.pydlutils.sdss.maskbits
(a fresh copy before every query).  The oracle is set algebra on the {GROUP: {LABEL: bit}} dict read off the
rows that were written.
"""
import itertools
import json
import os
import shutil
import tempfile

import numpy as np

from mc.core import Acc

PROP = 'C07'
LEVEL = 'exploration'
ENGINE = 'E1'
TECHNIQUE = ('model checking: bounded-exhaustive enumeration of maskbits files (groups, sparse bits up to 63, aliases, row orders) '
             'x all label selections/orders/cases and all values over the bit alphabet, set-algebra oracle')
LEVEL_TEXT = ('every maskbits file in the bound is written as a real .par file, loaded by set_maskbits, and every query in the bound '
              '(sdss_flagval, sdss_flagname, sdss_flagexist, both round trips, alias and case variants, unknown names) is executed on the '
              'real code and compared with an independent dict/set model of the rows written')
LEVEL_NOTE = ('holds for files with <= 2 groups over the bit alphabet {0,1,31,32,62,63} (plus 5 and 7 in the second group), <= 3 labels '
              'per group (thorough: also all 6), one alias, upper-case names in the file; nothing is claimed for other files or for '
              'values outside 0..2**64-1. Trusted: the row writer and dict oracle in mc/props/c07.py, the yanny reader only as far as '
              'the conversions agree with the rows written.')
RULE = ('files: first group = every non-empty subset (size <= 3, thorough also the full set) of the bit alphabet under 1-2 label naming '
        'schemes x second group in {absent, 3 representatives incl. shared label names} x alias row in {none, after the bits, before the '
        'bits, of the second group, inside its group\'s block of rows} x row order in {ascending, reversed, interleaved row by row, '
        'group 1 split in two blocks around group 2, group 2 split around group 1}; queries per file and per group name form '
        '(group / alias x UPPER, lower, mIxEd; unknown group): every ordered selection of <= 3 distinct labels x label case, bare-string '
        'label, unknown label at every position; every value over the 6 alphabet bits plus values with undefined bits, as int and '
        'np.uint64 and (list form) as np.int64 two\'s complement scalar / 0-d array and 0-d uint64 array, list and concat; sdss_flagexist in its 4 return shapes. A case is non-trivial unless it is the empty label list or '
        'the value 0. history shards: every sequence X, Y, X (thorough also X, Y, Z) of 5 files (different groups / same groups with other labels and bits / subset / alias name reused as a group) loaded in ONE process, the full query set after each load against that file\'s own rows, including group and label names that only exist in other files (must be unknown). surface shards: 11 (quick 8) representative files x 11 non-default file surfaces (no final newline, CRLF, CRLF without final newline, trailing blank lines / blanks / comment with and without newline, comment and blank lines between rows, trailing comments on rows, indented rows, tab separators), one file per shard, full query set. Distinct = distinct (load history, file surface, file rows, query).')
ASSUMPTIONS = ['group, alias and label names in the file are upper-case (as in sdssMaskbits.par); case-insensitivity concerns the query',
               'labels passed to sdss_flagval are distinct (the property speaks of a set of distinct labels); one label per bit in a group',
               'values are 64-bit patterns given as Python int 0..2**64-1, np.uint64 scalar / 0-d array, or signed two\'s complement np.int64 scalar / 0-d array; negative Python ints and wider values are not generated',
               'sdss_flagname(unknown group, 0) in every value representation must return the empty list / empty string and must not raise (the property says a zero value names no bits in any group); for sdss_flagval(unknown group, []) the property is silent and both 0 and KeyError are accepted',
               'sdss_flagexist is not queried with an empty label list (its overall answer would be vacuous)',
               'the module cache is replaced by a fresh copy of the loaded table before every query and restored at the end of the shard',
               'load histories are bounded to 3 loads over 5 files (different groups, same groups relabelled, subset, alias name reused as group); every shard runs in a fresh process and records the files it loaded before a violation so that the replay repeats them']

HEADER = '''#
# generated maskbits file (C07 check)
#
typedef struct {
    char flag[20]; # Flag name
    short bit; # Bit number, 0-indexed
    char label[30]; # Bit label
    char description[100]; # text description
} maskbits;

typedef struct {
    char flag[20]; # Flag name
    short datatype; # Data type {8, 16, 32, 64}
    char description[100]; # text description
} masktype;

typedef struct {
    char flag[20]; # Flag (real) name
    char alias[20]; # Alias
    char description[100]; # text description
} maskalias;

'''
SIGMA = (0, 1, 31, 32, 62, 63)
SCHEMES = {'A': {0: 'ZED', 1: 'QSO_HIZ', 31: 'M31', 32: 'ALPHA', 62: 'B_62X', 63: 'TOP'},
           'B': {0: 'TOP', 1: 'B_62X', 31: 'ALPHA', 32: 'M31', 62: 'QSO_HIZ', 63: 'ZED'}}
G1, G2, ALIAS, NOGROUP, NOLABEL = 'GRP_ONE', 'SECOND2', 'ALIAS_A', 'NOSUCH', 'NOPE'
SECOND = {'none': None,
          'disjoint': [('OTHER', 5)],
          'shared': [('ZED', 7), ('TOP', 0)],
          'shared3': [('ALPHA', 63), ('X9', 62), ('QSO_HIZ', 1)]}
FULL = (1 << 64) - 1


# ------------------------------------------------------------------ files
SURFACES = ('lf', 'no-final-newline', 'crlf', 'crlf-no-final-newline', 'trailing-blank-lines', 'trailing-blanks-no-newline',
            'trailing-comment', 'trailing-comment-no-newline', 'comments-and-blanks-between-rows', 'inline-comments',
            'indented-rows', 'tab-separated')


def render(rows, surface='lf'):
    """The text of the file.  `surface` varies only what the yanny format leaves free: line terminator, presence of the
    final newline, trailing blank/comment lines, comment and blank lines between rows, trailing comments on rows,
    indentation, tabs as separators."""
    sep = '\t' if surface == 'tab-separated' else ' '
    data = []
    for r in rows:
        if r[0] == 'maskbits':
            line = sep.join(['maskbits', r[1], '%2d' % r[2], r[3], '"bit %d of %s"' % (r[2], r[1])])
        elif r[0] == 'masktype':
            line = sep.join(['masktype', r[1], '%d' % r[2], '"Mask bits of group %s."' % r[1]])
        else:
            line = sep.join(['maskalias', r[1], r[2], '"%s is a synonym for %s."' % (r[2], r[1])])
        if surface == 'indented-rows':
            line = '   ' + line
        if surface == 'inline-comments':
            line += '   # row of ' + r[1]
        if surface == 'comments-and-blanks-between-rows':
            data += ['# next row', '']
        data.append(line)
    lines = HEADER.split('\n')[:-1] + data
    nl = '\r\n' if surface.startswith('crlf') else '\n'
    text = nl.join(lines)
    if surface in ('no-final-newline', 'crlf-no-final-newline'):
        return text
    if surface == 'trailing-blank-lines':
        return text + nl + nl + '   ' + nl + nl
    if surface == 'trailing-blanks-no-newline':
        return text + '   '
    if surface == 'trailing-comment':
        return text + nl + '# end of file' + nl
    if surface == 'trailing-comment-no-newline':
        return text + nl + '# end of file'
    return text + nl


def oracle_table(rows):
    """{GROUP: {LABEL: bit}} and {ALIAS: GROUP} exactly as the rows say."""
    groups, alias = {}, {}
    for r in rows:
        if r[0] == 'maskbits':
            groups.setdefault(r[1], {})[r[3]] = r[2]
    for r in rows:
        if r[0] == 'maskalias':
            alias[r[2]] = r[1]
    return groups, alias


def file_rows(bits, scheme, second, alias, order):
    g1 = [['maskbits', G1, b, SCHEMES[scheme][b]] for b in bits]
    g2 = [['maskbits', G2, b, lab] for lab, b in (SECOND[second] or [])]
    if order == 'rev':
        g1, g2 = g1[::-1], g2[::-1]
    # alias rows placed inside a group's block of rows
    if alias == 'middle':
        g1 = g1[:1] + [['maskalias', G1, ALIAS]] + g1[1:]
    if alias == 'middle2':
        g2 = g2[:1] + [['maskalias', G2, ALIAS]] + g2[1:]
    types = [['masktype', G1, 64]] + ([['masktype', G2, 64]] if g2 else [])
    if order == 'interleave':
        body = types + [x for pair in itertools.zip_longest(g1, g2) for x in pair if x is not None]
    elif order == 'split1':      # group 1 in two blocks around all rows of group 2
        body = types + g1[:1] + g2 + g1[1:]
    elif order == 'split2':      # group 2 in two blocks around all rows of group 1
        body = types + g2[:1] + g1 + g2[1:]
    else:
        body = [['masktype', G1, 64]] + g1 + ([['masktype', G2, 64]] + g2 if g2 else [])
    if alias == 'after':
        return body + [['maskalias', G1, ALIAS]]
    if alias == 'before':
        return [['maskalias', G1, ALIAS]] + body
    if alias == 'second':
        return body + [['maskalias', G2, ALIAS]]
    return body


def layouts(task):
    """(alias position, row order) pairs of a shard.  Orders: ascending, reversed, groups interleaved row by row, group 1
    split into two blocks around group 2, group 2 split around group 1; alias row after / before all bits, of the second
    group, or in the middle of its group's rows."""
    nb = len(task['bits'])
    n2 = len(SECOND[task['second']] or [])
    orders = ['asc', 'rev'] + (['interleave'] if n2 else []) + (['split1'] if n2 and nb >= 2 else []) + (['split2'] if n2 >= 2 else [])
    aliases = (['none', 'after', 'before'] + (['second'] if n2 else []) + (['middle'] if nb >= 2 else [])
               + (['middle2'] if n2 >= 2 else []))
    for alias in aliases:
        for order in orders:
            if task['thorough']:
                keep = alias in ('none', 'after', 'before', 'second') or order in ('asc', 'split1', 'split2')
            else:
                keep = alias in ('none', 'after') or order == 'asc' or (alias == 'second' and order in ('split1', 'split2'))
            if keep:
                yield alias, order


def files_of(task):
    for alias, order in layouts(task):
        yield file_rows(task['bits'], task['scheme'], task['second'], alias, order)


def _rows(groups, aliases=()):
    out = []
    for g, labs in groups:
        out.append(['masktype', g, 64])
        out += [['maskbits', g, b, lab] for lab, b in labs]
    return out + [['maskalias', g, a] for g, a in aliases]


G3, ALIAS_B = 'THIRD3', 'ALIAS_B'
# files for the load histories: A; B1 = entirely different groups; B2 = the same groups with other labels/bits and the alias
# re-targeted; B3 = a subset of A; B4 = the former alias name as a real group
HIST_FILES = {
    'A': _rows([(G1, [('ZED', 0), ('M31', 31), ('TOP', 63)]), (G2, [('ZED', 7), ('TOP', 0)])], [(G1, ALIAS)]),
    'B1': _rows([(G3, [('ZED', 1), ('OMEGA', 62)])], [(G3, ALIAS_B)]),
    'B2': _rows([(G1, [('ZED', 5), ('NEW', 31), ('TOP', 62)]), (G2, [('ZED', 7)])], [(G2, ALIAS)]),
    'B3': _rows([(G1, [('ZED', 0)])]),
    'B4': _rows([(ALIAS, [('ZED', 3)]), (G2, [('TOP', 0), ('X9', 9)])]),
}
UNIVERSE_GROUPS = {G1, G2, ALIAS, G3, ALIAS_B}
UNIVERSE_LABELS = (set(SCHEMES['A'].values()) | {lab for v in SECOND.values() if v for lab, _b in v}
                   | {r[3] for rows in HIST_FILES.values() for r in rows if r[0] == 'maskbits'})


def tasks(tier):
    T = tier == 'thorough'
    subsets = [list(c) for r in (1, 2, 3) for c in itertools.combinations(SIGMA, r)]
    if not T:
        subsets = [s for s in subsets if len(s) <= 2] + [[0, 31, 63], [1, 32, 62], [0, 1, 63]]
    t = []
    for bits in subsets:
        for scheme in (('A', 'B') if T else ('A',)):
            for second in (('none', 'disjoint', 'shared', 'shared3') if T else ('none', 'shared')):
                t.append({'bits': bits, 'scheme': scheme, 'second': second, 'thorough': T})
    if T:
        for scheme in ('A', 'B'):
            for second in ('none', 'disjoint', 'shared', 'shared3'):
                t.append({'bits': list(SIGMA), 'scheme': scheme, 'second': second, 'thorough': T})
    # file-surface layer: the same logical files in every surface form the format allows (one file per shard)
    surf_files = [HIST_FILES[x] for x in sorted(HIST_FILES)]
    surf_files += [file_rows([0, 31, 63], 'A', 'shared', alias, order)
                   for alias, order in (('none', 'asc'), ('before', 'rev'), ('middle', 'split1'), ('second', 'interleave'))]
    surf_files += [file_rows([63], 'A', 'none', 'none', 'asc'), file_rows([1, 62], 'B', 'none', 'after', 'asc')]
    if not T:
        surf_files = surf_files[:5] + surf_files[5:7] + surf_files[-1:]
    for rows in surf_files:
        for surface in SURFACES[1:]:
            t.append({'k': 'surface', 'rows': rows, 'surface': surface, 'thorough': T})
    # load histories inside one process: X, Y, X (thorough also X, Y, Z) over the history files
    names = sorted(HIST_FILES)
    for x, y in itertools.permutations(names, 2):
        t.append({'k': 'history', 'seq': [x, y, x], 'thorough': T})
    if T:
        for x, y, z in itertools.permutations(names, 3):
            t.append({'k': 'history', 'seq': [x, y, z], 'thorough': T})
    return t


# ------------------------------------------------------------------ queries
def recase(s, how):
    if how == 'upper':
        return s.upper()
    if how == 'lower':
        return s.lower()
    return ''.join(c.lower() if i % 2 == 0 else c.upper() for i, c in enumerate(s))


CASES = ('upper', 'lower', 'mixed')


def values_for(defined_bits):
    v = []
    for r in range(len(SIGMA) + 1):
        for c in itertools.combinations(SIGMA, r):
            v.append(sum(2 ** b for b in c))
    extra = [2 ** 40, 2 ** 5 + 2 ** 7, FULL, FULL - 2 ** 63, 2 ** 63 + 2 ** 40, 2 ** 62 + 2 ** 61, FULL - 1]
    return v + [x for x in extra if x not in v]


def queries(groups, alias, thorough):
    """Every query of the bound for one file, simplest first."""
    forms = []            # (name as written in the file, table)
    for g in groups:
        forms.append(g)
    for a in alias:
        forms.append(a)
    for form in forms:
        table = groups[alias.get(form, form)]
        labels = sorted(table, key=lambda x: table[x])
        others = sorted(set(lab for g in groups.values() for lab in g) - set(table))
        for gc in CASES:
            gname = recase(form, gc)
            # --- sdss_flagval
            maxr = min(len(labels), 3)
            for r in range(maxr + 1):
                for sel in itertools.permutations(labels, r):
                    lcases = itertools.product(CASES, repeat=r) if (thorough and r <= 3) else [(c,) * r for c in CASES]
                    seen = set()
                    for lc in lcases:
                        q = [recase(x, c) for x, c in zip(sel, lc)]
                        if tuple(q) in seen:
                            continue
                        seen.add(tuple(q))
                        yield {'f': 'flagval', 'group': gname, 'labels': q, 'nvn': all(c == lc[0] for c in lc)}
            if len(labels) > 3:
                for sel in (labels, labels[::-1], labels[1:] + labels[:1]):
                    for c in CASES:
                        yield {'f': 'flagval', 'group': gname, 'labels': [recase(x, c) for x in sel], 'nvn': True}
            for lab in labels:
                for c in CASES:
                    yield {'f': 'flagval', 'group': gname, 'labels': recase(lab, c), 'nvn': False}
            for bad in [NOLABEL] + others[:2]:
                for r in range(min(len(labels), 2) + 1):
                    for sel in itertools.permutations(labels, r):
                        for pos in range(r + 1):
                            q = list(sel[:pos]) + [bad] + list(sel[pos:])
                            yield {'f': 'flagval', 'group': gname, 'labels': q, 'nvn': False}
                yield {'f': 'flagval', 'group': gname, 'labels': recase(bad, 'lower'), 'nvn': False}
            # --- sdss_flagname
            for v in values_for(table.values()):
                for vt in ('int', 'uint64'):
                    for concat in (False, True):
                        yield {'f': 'flagname', 'group': gname, 'value': v, 'vtype': vt, 'concat': concat}
                if gc == 'upper':
                    # how a FITS 64-bit mask column delivers the value: signed two's complement, numpy scalar or 0-d array
                    for vt in ('int64', 'int64-0d', 'uint64-0d'):
                        yield {'f': 'flagname', 'group': gname, 'value': v, 'vtype': vt, 'concat': False}
            # --- sdss_flagexist
            pool = labels[:3]
            sels = [list(s) for r in (1, 2) for s in itertools.permutations(pool, r)]
            with_bad = [s[:p] + [NOLABEL] + s[p:] for s in ([[]] + sels) if len(s) <= 1 for p in range(len(s) + 1)]
            with_bad += [[o] for o in others[:1]]
            for sel in sels + with_bad:
                for c in CASES:
                    for fe in (False, True):
                        for we in (False, True):
                            yield {'f': 'flagexist', 'group': gname, 'labels': [recase(x, c) for x in sel], 'fe': fe, 'we': we}
            for lab in (labels[0], NOLABEL):
                for fe in (False, True):
                    for we in (False, True):
                        yield {'f': 'flagexist', 'group': gname, 'labels': recase(lab, 'lower'), 'fe': fe, 'we': we}
    # --- names that exist in OTHER files of the bound (a previously loaded file must leave nothing behind)
    anylabel = sorted(lab for g in groups.values() for lab in g)[0]
    for gname in sorted(UNIVERSE_GROUPS - set(groups) - set(alias)):
        yield {'f': 'flagval', 'group': gname, 'labels': [anylabel], 'nvn': False}
        yield {'f': 'flagname', 'group': gname, 'value': 1, 'vtype': 'int', 'concat': False}
        yield {'f': 'flagname', 'group': gname, 'value': FULL, 'vtype': 'int', 'concat': True}
        yield {'f': 'flagname', 'group': gname, 'value': 0, 'vtype': 'int', 'concat': False}
        for fe in (False, True):
            for we in (False, True):
                yield {'f': 'flagexist', 'group': gname, 'labels': [anylabel], 'fe': fe, 'we': we}
    for form in forms:
        table = groups[alias.get(form, form)]
        for lab in sorted(UNIVERSE_LABELS - set(table)):
            yield {'f': 'flagval', 'group': form, 'labels': [lab], 'nvn': False}
            yield {'f': 'flagexist', 'group': form, 'labels': [lab], 'fe': True, 'we': True}
    # --- unknown group
    for gname in (NOGROUP, NOGROUP.lower(), recase(NOGROUP, 'mixed')):
        for labs in ([], [anylabel], anylabel, [anylabel, NOLABEL]):
            yield {'f': 'flagval', 'group': gname, 'labels': labs, 'nvn': False}
        for v in (0, 1, 2 ** 63, FULL):
            for vt in ('int', 'uint64', 'int64', 'int64-0d', 'uint64-0d'):
                for concat in (False, True):
                    yield {'f': 'flagname', 'group': gname, 'value': v, 'vtype': vt, 'concat': concat}
        for labs in (anylabel, [anylabel], [anylabel, NOLABEL]):
            for fe in (False, True):
                for we in (False, True):
                    yield {'f': 'flagexist', 'group': gname, 'labels': labs, 'fe': fe, 'we': we}


# ------------------------------------------------------------------ oracle + evaluation of one query
def value_arg(v, vtype):
    """The 64-bit pattern v (0..2**64-1) in the requested representation."""
    if vtype == 'int':
        return v
    if vtype == 'uint64':
        return np.uint64(v)
    if vtype == 'uint64-0d':
        return np.array(v, dtype=np.uint64)
    signed = v - 2 ** 64 if v >= 2 ** 63 else v      # two's complement reading of the same 64 bits
    return np.int64(signed) if vtype == 'int64' else np.array(signed, dtype=np.int64)


def _table(groups, alias, name):
    u = name.upper()
    if u in groups:
        return groups[u]
    if u in alias:
        return groups[alias[u]]
    return None


def eval_query(groups, alias, q):
    """Run one query against the installed cache; [(sigbase, msg)] for every failed clause, and an outcome label."""
    import pydl.pydlutils.sdss as S
    table = _table(groups, alias, q['group'])
    f = q['f']
    bad = []
    if f == 'flagval':
        labs = q['labels']
        lablist = [labs] if isinstance(labs, str) else list(labs)
        up = [x.upper() for x in lablist]
        if table is None:
            want = ('either', 0) if not up else ('KeyError', 'unknown-group')
        elif any(x not in table for x in up):
            want = ('KeyError', 'unknown-label')
        else:
            want = ('value', sum(2 ** b for b in set(table[x] for x in up)))
        try:
            got = S.sdss_flagval(q['group'], labs)
            exc = None
        except Exception as e:  # noqa: BLE001
            got, exc = None, e
        if exc is not None:
            if isinstance(exc, KeyError) and want[0] in ('KeyError', 'either'):
                return [], 'ok:flagval:raises-KeyError:' + (want[1] if want[0] == 'KeyError' else 'nothing-to-convert')
            if isinstance(exc, KeyError):
                return [('sdss_flagval:refused-known-names:KeyError', '%r for %s' % (exc, q))], None
            return [('sdss_flagval:exception:%s' % type(exc).__name__, '%r for %s' % (exc, q))], None
        if want[0] == 'KeyError':
            return [('sdss_flagval:missing-KeyError:%s' % want[1], 'returned %r for %s' % (got, q))], None
        try:
            gi = int(got)
        except Exception as e:  # noqa: BLE001
            return [('sdss_flagval:result-not-integer', '%r (%r)' % (got, e))], None
        if gi != want[1] or isinstance(got, (float, np.floating)):
            return [('sdss_flagval:value-mismatch', 'got %d expected %d for %s' % (gi, want[1], q))], None
        if q.get('nvn') and table is not None and up:
            # names -> value -> names: identity up to ascending bit order
            names = sorted(up, key=lambda x: table[x])
            try:
                back = S.sdss_flagname(q['group'], got)
                if list(back) != names:
                    bad.append(('roundtrip:names-value-names:mismatch', 'names %s -> %d -> %s' % (lablist, gi, back)))
            except Exception as e:  # noqa: BLE001
                bad.append(('roundtrip:names-value-names:exception:%s' % type(e).__name__, '%r for %s' % (e, q)))
        return bad, 'ok:flagval:value:%d-labels%s' % (len(up), ':bit63' if want[1] >> 63 else '')
    if f == 'flagname':
        v = q['value']
        arg = value_arg(v, q['vtype'])
        if table is None:
            # stated clause: "a zero value names no bits in any group" - value 0 needs no group, so it must NOT raise
            want = ('names', []) if v == 0 else ('KeyError', 'unknown-group')
        else:
            want = ('names', [lab for lab, b in sorted(table.items(), key=lambda kv: kv[1]) if (v // 2 ** b) % 2])
        try:
            got = S.sdss_flagname(q['group'], arg, concat=q['concat'])
            exc = None
        except Exception as e:  # noqa: BLE001
            got, exc = None, e
        if exc is not None:
            if isinstance(exc, KeyError) and want[0] in ('KeyError', 'either'):
                return [], 'ok:flagname:raises-KeyError:' + (want[1] if want[0] == 'KeyError' else 'nothing-to-convert')
            if isinstance(exc, KeyError) and table is None:
                return [('sdss_flagname:zero-value:raised-KeyError:unknown-group', '%r for %s' % (exc, q))], None
            if isinstance(exc, KeyError):
                return [('sdss_flagname:refused-known-group:KeyError', '%r for %s' % (exc, q))], None
            return [('sdss_flagname:exception:%s' % type(exc).__name__, '%r for %s' % (exc, q))], None
        if want[0] == 'KeyError':
            return [('sdss_flagname:missing-KeyError:unknown-group', 'returned %r for %s' % (got, q))], None
        names = want[1]
        if q['concat']:
            if not isinstance(got, str) or got != ' '.join(names):
                return [('sdss_flagname:concat-mismatch', 'got %r expected %r for %s' % (got, ' '.join(names), q))], None
        else:
            if isinstance(got, str) or list(got) != names:
                if not isinstance(got, str) and sorted(got) == sorted(names):
                    return [('sdss_flagname:not-ascending-bit-order', 'got %r expected %r for %s' % (got, names, q))], None
                return [('sdss_flagname:names-mismatch', 'got %r expected %r for %s' % (got, names, q))], None
            if table is not None and q['vtype'] == 'int':
                # value -> names -> value: identity on the defined bits
                defined = sum(2 ** b for b in table.values())
                try:
                    back = int(S.sdss_flagval(q['group'], got))
                    if back != v & defined:
                        bad.append(('roundtrip:value-names-value:mismatch', 'value %d -> %s -> %d, defined part %d' % (v, got, back, v & defined)))
                except Exception as e:  # noqa: BLE001
                    bad.append(('roundtrip:value-names-value:exception:%s' % type(e).__name__, '%r for %s' % (e, q)))
        undefined = table is not None and (v & ~sum(2 ** b for b in table.values())) != 0
        neg = ':negative-int64' if q['vtype'].startswith('int64') and v >= 2 ** 63 else ''
        if table is None:
            return bad, 'ok:flagname:%s:zero-value-unknown-group-no-KeyError' % ('concat' if q['concat'] else 'list')
        return bad, 'ok:flagname:%s:%d-names%s%s' % ('concat' if q['concat'] else 'list', len(names),
                                                     ':undefined-bits-ignored' if undefined else '', neg)
    if f == 'flagexist':
        labs = q['labels']
        lablist = [labs] if isinstance(labs, str) else list(labs)
        fexp = table is not None
        which = [fexp and x.upper() in table for x in lablist]
        lexp = fexp and all(which)
        if q['fe'] and q['we']:
            want = (lexp, fexp, which)
        elif q['fe']:
            want = (lexp, fexp)
        elif q['we']:
            want = (lexp, which)
        else:
            want = lexp
        shape = 'l' + ('+f' if q['fe'] else '') + ('+which' if q['we'] else '')
        try:
            got = S.sdss_flagexist(q['group'], labs, flagexist=q['fe'], whichexist=q['we'])
        except Exception as e:  # noqa: BLE001
            return [('sdss_flagexist:raised:%s' % type(e).__name__, '%r for %s' % (e, q))], None
        ok = True
        if isinstance(want, tuple):
            ok = isinstance(got, tuple) and len(got) == len(want)
            if ok:
                for g, w in zip(got, want):
                    if isinstance(w, list):
                        ok = ok and [bool(x) for x in g] == w
                    else:
                        ok = ok and bool(g) == w and not isinstance(g, (list, tuple))
        else:
            ok = not isinstance(got, (tuple, list)) and bool(got) == want
        if not ok:
            return [('sdss_flagexist:wrong-answer:%s' % shape, 'got %r expected %r for %s' % (got, want, q))], None
        return [], 'ok:flagexist:%s:%s' % (shape, 'all-exist' if lexp else ('group-unknown' if not fexp else 'label-missing'))
    raise ValueError(f)


def _transforms(groups, alias, q):
    """Simplified variants of a failing query, least intrusive first; the first one that no longer fails names the trigger."""
    table = _table(groups, alias, q['group'])
    out = []
    labs = q.get('labels')
    if labs is not None:
        up = labs.upper() if isinstance(labs, str) else [x.upper() for x in labs]
        if up != labs:
            out.append(('label-case', dict(q, labels=up)))
    if q['group'] != q['group'].upper():
        out.append(('group-case', dict(q, group=q['group'].upper())))
    if q['group'].upper() in alias:
        out.append(('alias', dict(q, group=alias[q['group'].upper()])))
    if labs is not None:
        if isinstance(labs, str):
            out.append(('bare-string-label', dict(q, labels=[labs])))
        elif table is not None and all(x.upper() in table for x in labs):
            srt = sorted(labs, key=lambda x: table[x.upper()])
            if srt != list(labs):
                out.append(('label-order', dict(q, labels=srt)))
        if table is not None and not isinstance(labs, str) and any(table.get(x.upper()) == 63 for x in labs):
            out.append(('bit63', dict(q, labels=[x for x in labs if table.get(x.upper()) != 63])))
    if q['f'] == 'flagname':
        if q['vtype'] != 'int':
            out.append((q['vtype'] + '-value', dict(q, vtype='int')))
        if table is not None:
            defined = sum(2 ** b for b in table.values())
            if q['value'] & ~defined:
                out.append(('undefined-bits', dict(q, value=q['value'] & defined)))
        if q['value'] >> 63:
            out.append(('bit63', dict(q, value=q['value'] & (FULL >> 1))))
    return out


def _install(loaded):
    import pydl.pydlutils.sdss as S
    S.maskbits = {g: dict(v) for g, v in loaded.items()}


def check_query(loaded, groups, alias, q):
    _install(loaded)
    bad, outcome = eval_query(groups, alias, q)
    if not bad:
        return [], outcome
    out = []
    for sig, msg in bad:
        trig = None
        for name, q2 in _transforms(groups, alias, q):
            _install(loaded)
            bad2, _o = eval_query(groups, alias, q2)
            if sig not in [s for s, _m in bad2]:
                trig = name
                break
        out.append((sig + (':' + trig if trig else ''), msg))
    return out, 'bad:' + out[0][0]


def load_file(rows, tmpdir, surface='lf'):
    """Write the file, load it with set_maskbits, delete it; (loaded, None) or (None, exception)."""
    import pydl.pydlutils.sdss as S
    path = os.path.join(tmpdir, 'maskbits.par')
    with open(path, 'w', newline='') as fh:
        fh.write(render(rows, surface))
    try:
        return S.set_maskbits(maskbits_file=path), None
    except Exception as e:  # noqa: BLE001
        return None, e
    finally:
        os.remove(path)


def _fails_plain(rows, groups, alias, q, sig, tmpdir):
    """Does the same query fail with the same signature when the file is written in the plain LF surface?"""
    loaded, exc = load_file(rows, tmpdir)
    if exc is not None:
        return True
    bad, _o = check_query(loaded, groups, alias, q)
    return sig in [s for s, _m in bad]


def run_task(task):
    import pydl.pydlutils.sdss as S
    acc = Acc()
    saved = S.maskbits
    tmpdir = tempfile.mkdtemp(prefix='verif_c07_')
    try:
        history = []          # files loaded earlier in this process, needed to replay a violation faithfully
        is_hist = task.get('k') == 'history'
        surface = task.get('surface', 'lf')
        extra = {} if surface == 'lf' else {'surface': surface}
        files = ([HIST_FILES[x] for x in task['seq']] if is_hist else [task['rows']] if task.get('k') == 'surface' else files_of(task))
        for step, rows in enumerate(files):
            groups, alias = oracle_table(rows)
            loaded, exc = load_file(rows, tmpdir, surface)
            fkey = json.dumps([history, rows] if is_hist else [surface, rows] if extra else rows)
            earlier, history = list(history), history + [rows]
            if exc is not None:
                case = dict({'rows': rows, 'q': None, 'history': earlier}, **extra)
                acc.case((fkey, 'load'), True, 'bad:set_maskbits', sample=case)
                acc.violation('set_maskbits:exception:%s' % type(exc).__name__, case, repr(exc))
                continue
            for q in queries(groups, alias, task['thorough']):
                bad, outcome = check_query(loaded, groups, alias, q)
                trivial = (q['f'] == 'flagval' and q['labels'] == []) or (q['f'] == 'flagname' and q['value'] == 0)
                if is_hist and outcome.startswith('ok:'):
                    outcome = 'ok:after-%d-earlier-loads:%s' % (step, outcome.split(':')[1])
                if extra and outcome.startswith('ok:'):
                    outcome = 'ok:surface-%s:%s' % (surface, outcome.split(':')[1])
                acc.case((fkey, json.dumps(q, sort_keys=True)), not trivial, outcome, sample=dict({'rows': rows, 'q': q}, **extra))
                for sig, msg in bad:
                    acc.violation(sig + (':file-surface-' + surface if extra and not _fails_plain(rows, groups, alias, q, sig, tmpdir) else ''),
                                  dict({'rows': rows, 'q': q, 'history': earlier}, **extra), msg)
    finally:
        S.maskbits = saved
        shutil.rmtree(tmpdir, ignore_errors=True)
    return acc


def replay(case):
    import pydl.pydlutils.sdss as S
    rows = [list(r) for r in case['rows']]
    saved = S.maskbits
    tmpdir = tempfile.mkdtemp(prefix='verif_c07_')
    try:
        for old in case.get('history') or []:      # re-create the loads that preceded this file in the shard's process
            load_file([list(r) for r in old], tmpdir)
        groups, alias = oracle_table(rows)
        surface = case.get('surface', 'lf')
        loaded, exc = load_file(rows, tmpdir, surface)
        if exc is not None:
            return [('set_maskbits:exception:%s' % type(exc).__name__, repr(exc))]
        if case.get('q') is None:
            return []
        bad, _o = check_query(loaded, groups, alias, case['q'])
        if surface != 'lf':
            bad = [(sig + ('' if _fails_plain(rows, groups, alias, case['q'], sig, tmpdir) else ':file-surface-' + surface), msg)
                   for sig, msg in bad]
        return bad
    finally:
        S.maskbits = saved
        shutil.rmtree(tmpdir, ignore_errors=True)
